#!/bin/bash
# tools/tryseed.sh <seeded/Cxx_V> <check> [case filter] [tier]: run one check against a scratch worktree of /repo HEAD + the seed's patch
cd /verif
wt=/tmp/tryseed_$$; out=/tmp/tryseed_out_$$
git -C /repo worktree add -q $wt HEAD && (cd $wt && (git apply $OLDPWD/$1/patch.diff || git apply --3way $OLDPWD/$1/patch.diff))
VERIF_REPO=$wt VERIF_OUT=$out VERIF_CASE_FILTER="$3" timeout 3000 ./run $2 ${4:-quick} 2>&1 | grep -v "^WARNING" | tail -${TAIL:-6}
echo "exit=${PIPESTATUS[0]}"
git -C /repo worktree remove --force $wt; rm -rf $wt $out
