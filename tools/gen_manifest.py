#!/usr/bin/env python3
"""Regenerates /verif/MANIFEST.json from the table below (keeps it schema-valid at all times)."""
import json
import os

V = os.path.dirname(os.path.dirname(os.path.abspath(__file__)))
TV, MC, FE = 'translation_validation', 'model_checking', 'fault_enumeration'

CHECKS = {
 'C01': (MC, '4 C01', 'Real Simulation.step executed on z3 int proxies (one path per run) vs the documented LogicNet semantics '
         '(vf/spec.py); every wire, every cycle, final memories and next-state registers are solver obligations over all '
         'input values / initial register values / initial memory contents, for each design of the bounded OP/EXPR/SEQ families.',
         'Trusted: vf/spec.py (oracle), z3, the stubs bin/len/int in pyrtl.simulation, CPython. Bounded: design families, widths, K cycles.',
         'symbolic execution of Simulation on z3 bit-vector proxies + SMT equivalence with a spec oracle (BMC-K)'),
 'C03': (TV, '4 C03', 'Per design: synthesize() runs for real, then the real Simulation of original and synthesized block run on shared '
         'solver variables: BMC-K from the declared reset state with the original testbench (inputs by name / io_map, memory_value_map '
         'keyed by the original MemBlock) and one inductive step through reg_map/mem_map; structural postconditions as predicates.',
         'Trusted: Simulation as semantics of both blocks (checked by C01), z3, stubs. Bounded: OP/EXPR/SEQ designs, * up to 5x5 (quick) 8x8 (thorough).',
         'symbolic simulation of pre/post-synthesis blocks + SMT equivalence (BMC from reset + inductive step)'),
 'C04': (TV, '4 C04', 'Per (design, base form, pass): the pass runs for real on a second instance of the design; before/after blocks are '
         'simulated symbolically on shared variables (registers matched by name, BMC-K from arbitrary equal state and from reset); the '
         'steady-state exemption for eliminated constant registers is an explicit assumption with a vacuity twin.',
         'Trusted: Simulation semantics (C01), z3, stubs. Bounded: design families biased to what the passes touch, K.',
         'symbolic simulation before/after each optimisation pass + SMT equivalence (BMC-K)'),
 'C09': (TV, '4 C09', 'Per (design, pass or pass pair): in-place lowering pass on a second instance, inductive step with identity state '
         'correspondence + BMC from reset, and each pass\'s documented postcondition as a concrete predicate on the result.',
         'Trusted: Simulation semantics (C01), z3, stubs. Bounded: design families, pass pairs, K.',
         'symbolic simulation before/after each lowering pass + SMT equivalence; structural postconditions'),
 'C11': (MC, '4 C11', 'Symbolic K-cycle trace of the source before vs after copy_block / synthesize / optimize (update_working_block=False), '
         'object-level fingerprint, working block identity, no shared wire/memory objects, result equivalent to source from reset and '
         'from arbitrary corresponding states, then API edits/simulations on one block and re-check of the other.',
         'Trusted: Simulation semantics (C01), z3, stubs; fingerprint definition. Bounded: designs, 5 edit scripts, K=3.',
         'symbolic trace comparison before/after (SMT) + object-graph fingerprints'),
}
PENDING = {}

TITLES = {}
for line in open(os.path.join(V, 'properties.jsonl')):
    p = json.loads(line)
    TITLES[p['id']] = p['title']

m = {
 'version': 1,
 'setup_cmd': './bootstrap.sh',
 'hooks': {
  'guard': 'none',
  'enable': 'no guarded source changes: the machinery imports /repo\'s working tree as it is (PYTHONPATH) and installs its '
            'environment stubs as module globals at run time (DESIGN.md 2.3); nothing under /repo is instrumented',
  'baseline_off_cmd': 'cd /repo && /venv/bin/python -m pytest -ra -q -p no:cacheprovider --timeout=900 --continue-on-collection-errors',
  'source_commits': [],
  'add_only': True,
 },
 'engines': [
  {'name': 'engine-S', 'path': 'vf/sym.py', 'serves_properties': sorted(CHECKS),
   'kind_free_text': 'symbolic execution of PyRTL\'s own Python on z3 bit-vector proxies of Python int (never-wrapping), DFS path '
                     'explorer with interval pre-checks, call-granularity state merging; z3 decides every obligation'},
 ],
 'checks': [],
 'not_applicable': [],
 'notes': 'See DESIGN.md. ./run <id> <tier>; exit 0 held / 1 VIOLATION (replayed on the real code) / 2 harness error. '
          'known_findings.json lists defects repaired by fix: commits in /repo.',
}
for pid in sorted(TITLES):
    if pid in CHECKS:
        lvl, ref, text, note, tech = CHECKS[pid]
        m['checks'].append({
            'property_id': pid,
            'quick_cmd': './run %s quick' % pid,
            'thorough_cmd': './run %s thorough' % pid,
            'evidence_file': '/verif/evidence/%s.json' % pid,
            'replay_cmd_template': './run --replay {path}',
            'engine': 'engine-S',
            'level_claimed': {'category': lvl, 'text': text, 'design_ref': 'DESIGN.md section ' + ref},
            'level_note': note,
            'technique': tech,
        })
    else:
        m['not_applicable'].append({'property_id': pid, 'reason': PENDING.get(pid, 'check not built yet in this commit (planned, see DESIGN.md section 10); not claimed until its harness is registered')})
json.dump(m, open(os.path.join(V, 'MANIFEST.json'), 'w'), indent=1)
print('checks:', [c['property_id'] for c in m['checks']])
