#!/usr/bin/env python3
"""Regenerates /verif/MANIFEST.json from the table below (keeps it schema-valid at all times)."""
import json
import os

V = os.path.dirname(os.path.dirname(os.path.abspath(__file__)))
TV, MC, FE = 'translation_validation', 'model_checking', 'fault_enumeration'

CHECKS = {
 'C01': (MC, '4 C01', 'Real Simulation.step executed on z3 int proxies (one path per run) vs the documented LogicNet semantics '
         '(vf/spec.py); every wire, every cycle, final memories and next-state registers are solver obligations over all '
         'input values / initial register values / initial memory contents, for each design of the bounded OP/EXPR/SEQ families.',
         'Trusted: vf/spec.py (oracle), z3, the stubs bin/len/int in pyrtl.simulation, CPython. Bounded: design families, widths, K cycles.',
         'symbolic execution of Simulation on z3 bit-vector proxies + SMT equivalence with a spec oracle (BMC-K)'),
 'C03': (TV, '4 C03', 'Per design: synthesize() runs for real, then the real Simulation of original and synthesized block run on shared '
         'solver variables: BMC-K from the declared reset state with the original testbench (inputs by name / io_map, memory_value_map '
         'keyed by the original MemBlock) and one inductive step through reg_map/mem_map; structural postconditions as predicates.',
         'Trusted: Simulation as semantics of both blocks (checked by C01), z3, stubs. Bounded: OP/EXPR/SEQ designs, * up to 5x5 (quick) 8x8 (thorough).',
         'symbolic simulation of pre/post-synthesis blocks + SMT equivalence (BMC from reset + inductive step)'),
 'C04': (TV, '4 C04', 'Per (design, base form, pass): the pass runs for real on a second instance of the design; before/after blocks are '
         'simulated symbolically on shared variables (registers matched by name, BMC-K from arbitrary equal state and from reset); the '
         'steady-state exemption for eliminated constant registers is an explicit assumption with a vacuity twin.',
         'Trusted: Simulation semantics (C01), z3, stubs. Bounded: design families biased to what the passes touch, K.',
         'symbolic simulation before/after each optimisation pass + SMT equivalence (BMC-K)'),
 'C09': (TV, '4 C09', 'Per (design, pass or pass pair): in-place lowering pass on a second instance, inductive step with identity state '
         'correspondence + BMC from reset, and each pass\'s documented postcondition as a concrete predicate on the result; the same lowering repeated later in the process.',
         'Trusted: Simulation semantics (C01), z3, stubs. Bounded: design families, pass pairs, K.',
         'symbolic simulation before/after each lowering pass + SMT equivalence; structural postconditions'),
 'C11': (MC, '4 C11', 'Symbolic K-cycle trace of the source before vs after copy_block / synthesize / optimize (update_working_block=False), '
         'object-level fingerprint, working block identity, no shared wire/memory objects, result equivalent to source from reset and '
         'from arbitrary corresponding states, then API edits/simulations on one block and re-check of the other.',
         'Trusted: Simulation semantics (C01), z3, stubs; fingerprint definition. Bounded: designs, 9 edit scripts, K=3.',
         'symbolic trace comparison before/after (SMT) + object-graph fingerprints'),

 'C06': (MC, '4 C06', 'Every operator/helper of the grid is elaborated with the real API and simulated symbolically; len(result) is a fact, the '
         'value is compared with integer arithmetic by the solver for ALL operand values (exact equality, which also proves the declared '
         'width holds the full value; modulo 2^w where the documentation says wrap).',
         'Trusted: Simulation semantics (C01), integer oracles, z3. Bounded: width pairs, slices for w<=5, * and signed_mult <= 6x6 quick / 8x8.',
         'symbolic simulation of operator circuits + SMT comparison with integer arithmetic'),
 'C07': (MC, '4 C07', 'Every with/otherwise forest of the bounded family is elaborated with the real conditional_assignment; if accepted, the '
         'real Simulation runs symbolically (predicates, data, addresses, state as variables) and is compared with a tree interpreter: at '
         'most one active assigning branch, its value wins, defaults/keep/no-write otherwise; programs whose branches can overlap (solver) '
         'must have been rejected with PyrtlError.',
         'Trusted: the tree interpreter (oracle), Simulation semantics (C01), z3. Bounded: forests <= 4 nodes exhaustively (+5-node shapes, '
         'multi-target samples), K=2.',
         'symbolic simulation of elaborated condition trees + SMT comparison with a tree interpreter'),
 'C10': (FE, '4 C10', 'Part 1: real sanity_check_net on nets whose bitwidths are symbolic (1..4095): raises iff the documented predicate is false '
         '(solver, all widths). Part 2: real Block.__iter__ with pop() tie-breaks as symbolic ranks, every distinguishable order explored. '
         'Part 3: every (fault kind, site) injected into well-formed designs (word-level and synthesized; fresh, after an earlier check, under a foreign '
         'working block) must be rejected by sanity_check and the three simulator constructors; a checker that does not terminate is reported.',
         'Trusted: documented predicate transcription, fault injectors. Bounded: ops x arity 0..4, designs <= 9 nets / <= 3000 orders, 20 fault kinds.',
         'symbolic execution of sanity_check_net over all bitwidths (SMT) + schedule exploration with symbolic ranks + fault enumeration'),
 'C13': (MC, '4 C13', 'Each adder/multiplier generator is elaborated for every width/parameter of the grid and simulated symbolically; the result is '
         'compared with integer +/* for ALL operand values; sequential multipliers by BMC from arbitrary register state.',
         'Trusted: Simulation semantics (C01), z3. Bounded: adders to 16 (thorough 64) bits, multipliers to 6x6 quick / 8x8 thorough.',
         'symbolic simulation of generated arithmetic circuits + SMT equivalence with integer arithmetic (BMC for sequential ones)'),
 'C14': (MC, '4 C14', 'Each helper is elaborated for every shape/slice/pattern/schema of the grid and simulated symbolically; outputs compared with '
         'bit-list models for ALL data/select values.',
         'Trusted: bit-list oracles, Simulation semantics (C01), z3. Bounded: select widths <= 3, patterns <= 5 chars, 7 schemas.',
         'symbolic simulation of helper circuits + SMT comparison with bit-level models'),
 'C16': (MC, '4 C16', 'The scalar helpers run directly on symbolic integers (engine S); per explored path the accept/reject outcome and the '
         'result are compared with the arithmetic definitions for ALL 26-bit values; explicit bitwidths enumerated, absent bitwidth inferred '
         'symbolically.',
         'Trusted: stubs bin/hex/str/len/int in pyrtl.helperfuncs (canonical numerals), z3. Bounded: |value| < 2^25, bitwidths <= 24, patterns <= 6.',
         'symbolic execution of the conversion helpers on z3 integer proxies, per-path SMT obligations'),
 'C17': (MC, '4 C17', 'TimingAnalysis runs on symbolic (integer) gate delays: timing_map/max_length equal the max over enumerated register-free paths '
         'for ALL delays, critical_path explored per region; paths() compared with an SMT characterisation of simple net paths; max_freq on an '
         'IEEE double proxy; a default-model analysis before and after one under a custom model.',
         'Trusted: path-enumeration oracle, z3 (LIA, FP). Bounded: designs <= 14 nets (critical_path <= 7).',
         'symbolic execution of TimingAnalysis with delays as solver variables + SMT path characterisation'),
 'C18': (MC, '4 C18', 'AES: ROM tables == GF(2^8) definitions for all addresses, per-stage lemmas, one inductive step of both state machines against '
         'FIPS-197 rounds (ROMs as shared uninterpreted functions), full single-cycle circuits in the thorough tier. PRNGs: BMC from load with '
         'symbolic seeds and arbitrary pre-load state, cut points at adders/state registers, vs xoroshiro128+/Trivium/LFSR references.',
         'Trusted: vf/refs.py references (validated on the repo test vectors), UF abstraction justified by the table lemma, z3.',
         'symbolic simulation + SMT with uninterpreted ROM functions, compositional cut-point lemmas, BMC / inductive steps'),
 'C19': (MC, '4 C19', 'Every Matrix operation of the grid is elaborated on matrices of Input slices and simulated symbolically; one obligation per '
         'result element against nested-list integer arithmetic (mod 2^bits, exact where the declared width must hold the value).',
         'Trusted: nested-list oracle, Simulation semantics (C01), z3. Bounded: shapes <= 3x3 (thorough 4x4), element widths <= 8, products <= 3 bits.',
         'symbolic simulation of Matrix circuits + per-element SMT comparison with integer-matrix arithmetic'),

 'C02': (TV, '4 C02', 'Per design and form (pre / synthesized merged+unmerged / optimized): FastSimulation (its generated Python executed through an AST hook) '
         'and CompiledSimulation (real constructor + gcc; the generated C translated to z3 by vf/ctrans.py; the real run() executed over list buffers) '
         'against the real Simulation on shared variables: every traced wire every cycle, memories at every address; run([...]) in one call; '
         'inspect_mem through a ctypes argument-passing stub; the C hash-map helper text against a functional map (vf/chelper.py).',
         'Trusted: vf/ctrans.py and vf/chelper.py (C subset semantics), the ctypes stub, gcc, mul64 abstraction for products > 4x4 bits with range facts. '
         'Bounded: widths crossing every 64-bit limb boundary up to 129, K=3 (quick).',
         'symbolic execution of the three simulators (generated Python via AST hook, generated C via a C-subset-to-SMT translator) + SMT equivalence'),
 'C05': (TV, '4 C05', 'Per design and add_reset option: the emitted Verilog is parsed and evaluated by vf/vtrans.py under Verilog-2001 width / non-blocking rules '
         'and compared with the real Simulation (BMC-K from reset, rst=1 step); testbenches from traces of all three simulators are parsed back (inputs as '
         'symbolic terms) and must drive the module to the traced outputs and initialise the recorded state.',
         'Trusted: vf/vtrans.py (no Verilog simulator available). Bounded: OP/EXPR/SEQ/MISC/NAMES/MEM/ROM designs, K=3.',
         'translation validation: emitted Verilog text -> SMT (own Verilog-subset evaluator) vs symbolic Simulation'),
 'C08': (MC, '4 C08', 'Memory-centred designs (1-3 read, 1-2 write ports, widths to 70): one step from an ARBITRARY array (covers every history) and BMC from an '
         'uninitialised memory, on Simulation, FastSimulation, the C model, and Simulation of synthesized/optimized blocks; ROM data as list/dict/function with '
         'holes raising exactly when documented; register-driven, conditional and tied-off write ports; two simulators in sequence on one MemBlock / one '
         'memory_value_map object. (Verilog clause: under C05.)',
         'Trusted: array oracle, ctrans total-map model (helper text checked separately), z3 array theory. Bounded: port counts, widths, K.',
         'symbolic simulation from an arbitrary z3 array + SMT (inductive step + BMC)'),
 'C12': (TV, '4 C12', 'Generated BLIF/.bench texts (exhaustive covers over <=2 inputs, seeded covers, every listed flip-flop cell, latch init codes, two-level '
         '.subckt, vector ports) are imported by the real importers; the block runs on the real Simulation symbolically against an independent reader.',
         'Trusted: vf/bliftrans.py (format semantics incl. the Yosys cell table derived from cell names). Bounded: text family, K=4.',
         'translation validation: imported netlist (symbolic Simulation) vs independent BLIF/bench reader in SMT'),
 'C15': (MC, '4 C15', 'inspect == last trace entry and trace length after every step; step_multiple with symbolic inputs AND symbolic expected values: per explored '
         'path the parsed report lists exactly the mismatching pairs; rtl_assert outcome per path; illegal input values as an unconstrained variable '
         '(rejected iff outside [0,2^w), also when equal to a non-zero default_value; a refused step leaves every channel as it was); VCD parsed back '
         'through placeholders; print_trace on solver-chosen witnesses; run([...]) in one call; two simulators in sequence.',
         'Trusted: placeholder/parse-back stubs, z3. Bounded: designs, K=3; print_trace is a witness check (C-level formatting).',
         'symbolic execution of step/step_multiple/inspect/print_vcd/run with path exploration + SMT'),
 'C20': (MC, '4 C20', 'Read-only: symbolic trace and object fingerprint of the block before vs after each export/analysis call. Deterministic: the four texts the '
         'property names are emitted under every iteration order the code can distinguish when any two objects get symbolic ranks; bytes must be identical; '
         'sort keys checked for collisions over short names; the design rebuilt under rank-ordered sets (also followed by a pass: port identifiers); '
         'transformation passes under the order model, every structurally distinct result compared with the source by the solver; hash() salted (string-hash seed); '
         'the back ends run one after the other in both orders (once in a fresh interpreter).',
         'Trusted: order model (one global rank order induces every controlled set; set displays inside PyRTL rewritten to set() calls from source). '
         'Bounded: designs <= 14 objects, pairs of objects, names <= 4 chars.',
         'schedule exploration with symbolic ranks (SMT-pruned) + symbolic trace comparison'),
}
PENDING = {}

TITLES = {}
for line in open(os.path.join(V, 'properties.jsonl')):
    p = json.loads(line)
    TITLES[p['id']] = p['title']

m = {
 'version': 1,
 'setup_cmd': './bootstrap.sh',
 'hooks': {
  'guard': 'none',
  'enable': 'no guarded source changes: the machinery imports /repo\'s working tree as it is (PYTHONPATH) and installs its '
            'environment stubs as module globals at run time (DESIGN.md 2.3); nothing under /repo is instrumented',
  'baseline_off_cmd': 'cd /repo && /venv/bin/python -m pytest -ra -q -p no:cacheprovider --timeout=900 --continue-on-collection-errors',
  'source_commits': [],
  'add_only': True,
 },
 'engines': [
  {'name': 'engine-S', 'path': 'vf/sym.py', 'serves_properties': sorted(CHECKS),
   'kind_free_text': 'symbolic execution of PyRTL\'s own Python on z3 bit-vector proxies of Python int (never-wrapping), DFS path '
                     'explorer with interval pre-checks, call-granularity state merging; z3 decides every obligation'},
 ],
 'checks': [],
 'not_applicable': [],
 'notes': 'See DESIGN.md. ./run <id> <tier>; exit 0 held / 1 VIOLATION (replayed on the real code) / 2 harness error. '
          'known_findings.json lists defects repaired by fix: commits in /repo.',
}
for pid in sorted(TITLES):
    if pid in CHECKS:
        lvl, ref, text, note, tech = CHECKS[pid]
        m['checks'].append({
            'property_id': pid,
            'quick_cmd': './run %s quick' % pid,
            'thorough_cmd': './run %s thorough' % pid,
            'evidence_file': '/verif/evidence/%s.json' % pid,
            'replay_cmd_template': './run --replay {path}',
            'engine': 'engine-S',
            'level_claimed': {'category': lvl, 'text': text, 'design_ref': 'DESIGN.md section ' + ref},
            'level_note': note,
            'technique': tech,
        })
    else:
        m['not_applicable'].append({'property_id': pid, 'reason': PENDING.get(pid, 'check not built yet in this commit (planned, see DESIGN.md section 10); not claimed until its harness is registered')})
json.dump(m, open(os.path.join(V, 'MANIFEST.json'), 'w'), indent=1)
print('checks:', [c['property_id'] for c in m['checks']])
