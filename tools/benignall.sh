#!/bin/bash
# tools/benignall.sh <round dir> [areas...] : validate the behaviour-preserving changes of a round and run the checks that look at the
# changed files against each of them (tools/benigncheck.py); two changes at a time. Any alarm printed is a FALSE alarm of that check.
cd /verif
root=$1; shift
areas="$@"
[ -z "$areas" ] && areas="sim csim synth opt vlog blif ops cond core arith crypto analysis"
declare -A CH
CH[sim]=C01,C02,C08,C15,C20
CH[csim]=C02,C08,C15,C05,C20
CH[synth]=C03,C08,C11,C09,C04,C02
CH[opt]=C04,C09,C11,C08,C03
CH[vlog]=C05,C08,C20
CH[blif]=C12,C20
CH[ops]=C06,C14,C16,C07,C03
CH[cond]=C07,C08,C01
CH[core]=C10,C11,C20,C05,C15,C01,C02
CH[arith]=C13,C14,C19,C06
CH[crypto]=C18,C19
CH[analysis]=C17,C15,C20
for a in $areas; do for d in $root/${a}_out/X*; do [ -f $d/patch.diff ] && echo "$d ${CH[$a]}"; done; done | \
  xargs -P 2 -L 1 sh -c 'python3 tools/benigncheck.py $0 --checks $1 --par 2 2>&1 | grep -v WARNING | tail -1'
