#!/bin/bash
# tools/runall.sh [quick|thorough] [ids...] : run registered checks in /verif against /repo, one line each
cd /verif
tier=${1:-quick}; shift
ids="$@"
[ -z "$ids" ] && ids=$(python3 -c "import json;print(' '.join(c['property_id'] for c in json.load(open('MANIFEST.json'))['checks']))")
for id in $ids; do
  start=$(date +%s)
  out=$(./run $id $tier 2>&1); rc=$?
  echo "$id rc=$rc $(( $(date +%s) - start ))s :: $(echo "$out" | grep -E "^$id " | tail -1)"
  echo "$out" | grep -E "^(VIOLATION|HARNESS-ERROR|INCONCLUSIVE|KNOWN-FINDING)" | cut -c1-200 | head -5
done
