#!/bin/bash
# tools/thorough_all.sh [ids...] : run the thorough tier of the given (default: all) checks against /repo, evidence written under
# /tmp/vf_thorough (not over the committed quick evidence), one line each; then record the tier sizes in tools/thorough_sizes.json
cd /verif
ids="$@"
[ -z "$ids" ] && ids=$(python3 -c "import json;print(' '.join(c['property_id'] for c in json.load(open('MANIFEST.json'))['checks']))")
export VERIF_OUT=/tmp/vf_thorough
mkdir -p $VERIF_OUT
for id in $ids; do
  start=$(date +%s)
  out=$(./run $id thorough 2>&1); rc=$?
  echo "$id rc=$rc $(( $(date +%s) - start ))s :: $(echo "$out" | grep -E "^$id " | tail -1)"
  echo "$out" | grep -E "^(VIOLATION|HARNESS-ERROR|INCONCLUSIVE|KNOWN-FINDING)" | cut -c1-200 | head -5
done
python3 - <<'PY'
import json, os
p = '/verif/tools/thorough_sizes.json'
sizes = json.load(open(p)) if os.path.exists(p) else {}
for i in range(1, 21):
    pid = 'C%02d' % i
    for tier, path in (('quick', '/verif/evidence/%s.json' % pid), ('thorough', '/tmp/vf_thorough/evidence/%s.json' % pid)):
        if os.path.exists(path):
            e = json.load(open(path))
            if e.get('tier') != tier:
                continue
            c = e['coverage']
            if tier == 'quick':
                s = '%d / %d / %.0f s' % (c['evaluations'], c['obligations'], e['wall_s'])
            else:
                s = '%d / %d / %d / %.0f s' % (c['evaluations'], c['obligations'], c.get('inconclusive', 0), e['wall_s'])
            sizes.setdefault(pid, {})[tier] = s
json.dump(sizes, open(p, 'w'), indent=1, sort_keys=True)
PY
