#!/usr/bin/env python3
"""Fills the generated tables of DESIGN.md from DESIGN.tmpl.md: fixed findings (known_findings.json), seeded changes
(seeded/*/meta.json), tier sizes (evidence/*.json and tools/thorough_sizes.json), bounds/assumptions (vf/props).
Run with the overlay interpreter:  PYTHONPATH=/repo:/verif .venv/bin/python tools/gen_design.py"""
import glob
import importlib
import json
import os
import re

V = os.path.dirname(os.path.dirname(os.path.abspath(__file__)))


def esc(s):
    return str(s).replace('|', '\\|').replace('\n', ' ')


def fixed_table():
    k = json.load(open(os.path.join(V, 'known_findings.json')))
    rows = ['| property | commit | what failed on the pinned tree |', '|---|---|---|']
    for line in k['fixed']:
        m = re.match(r'fixed: property=(\S+) (\S+) (.*)', line)
        rows.append('| %s | `%s` | %s |' % (m.group(1), m.group(2), esc(m.group(3))))
    return '\n'.join(rows)


def seed_table():
    rows = ['| seed | change (summary) | what it needs to manifest | caught by (quick) |', '|---|---|---|---|']
    for d in sorted(glob.glob(os.path.join(V, 'seeded', '*'))):
        mp = os.path.join(d, 'meta.json')
        if not os.path.exists(mp):
            continue
        m = json.load(open(mp))
        det = [c for c, r in m.get('checks', {}).items() if isinstance(r, dict) and r.get('detected')]
        first = (m.get('summary') or '').split('. ')[0][:260]
        needs = (m.get('needs') or '').split('. ')[0][:200]
        rows.append('| %s | %s | %s | %s |' % (os.path.basename(d), esc(first), esc(needs), ', '.join(det) or '**missed**'))
    return '\n'.join(rows)


def tier_table():
    sizes = {}
    p = os.path.join(V, 'tools', 'thorough_sizes.json')
    if os.path.exists(p):
        sizes = json.load(open(p))
    rows = ['| id | quick: cases / obligations / wall | thorough: cases / obligations / inconclusive / wall |', '|---|---|---|']
    for i in range(1, 21):
        pid = 'C%02d' % i
        q = '-'
        ep = os.path.join(V, 'evidence', pid + '.json')
        if os.path.exists(ep):
            e = json.load(open(ep))
            if e.get('tier') == 'quick':
                c = e['coverage']
                q = '%d / %d / %.0f s' % (c['evaluations'], c['obligations'], e['wall_s'])
        q = sizes.get(pid, {}).get('quick', q)
        t = sizes.get(pid, {}).get('thorough', 'not yet sized')
        rows.append('| %s | %s | %s |' % (pid, q, t))
    return '\n'.join(rows)


def bounds_table():
    out = []
    for i in range(1, 21):
        m = importlib.import_module('vf.props.c%02d' % i)
        out.append('### %s (%s)\n' % (m.PROP, m.LEVEL))
        out.append('Assumptions / stubs (copied into the evidence on every run):\n')
        for a in m.ASSUMPTIONS:
            out.append('* ' + a)
        out.append('')
        for t in ('quick', 'thorough'):
            b = m.bounds(t)
            out.append('Bounds, %s: ' % t + '; '.join('%s = %s' % (k, json.dumps(v) if not isinstance(v, str) else v)
                                                      for k, v in b.items()))
            out.append('')
    return '\n'.join(out)


def main():
    t = open(os.path.join(V, 'DESIGN.tmpl.md')).read()
    t = t.replace('FIXED_TABLE', fixed_table()).replace('SEED_TABLE', seed_table())
    k = json.load(open(os.path.join(V, 'known_findings.json')))
    metas = [json.load(open(m)) for m in glob.glob(os.path.join(V, 'seeded', '*', 'meta.json'))]
    det = sum(1 for m in metas if any(isinstance(r, dict) and r.get('detected') for r in m.get('checks', {}).values()))
    t = t.replace('FIXED_COUNT', str(len(k['fixed']))).replace('SEED_COUNT', str(len(metas))).replace('SEED_DETECTED', str(det))
    t = t.replace('THOROUGH_TABLE', tier_table()).replace('BOUNDS_TABLE', bounds_table())
    open(os.path.join(V, 'DESIGN.md'), 'w').write(t)


if __name__ == '__main__':
    main()
