#!/usr/bin/env python3
"""tools/seedprompt.py <round dir> <variant1> <variant2> : writes <round dir>/<Cxx>_prompt.txt for every property - the briefing a
fresh sub-agent gets for one round of seeded changes: the property text, its own scratch worktree, and one-line summaries of the
changes earlier rounds already made for that property (so that new ones go elsewhere). Nothing else from /verif is passed on."""
import glob
import json
import sys

root, A, B = sys.argv[1], sys.argv[2], sys.argv[3]
props = [json.loads(l) for l in open('/verif/properties.jsonl')]
for p in props:
    pid = p['id']
    wt, out = '%s/%s' % (root, pid), '%s/%s_out' % (root, pid)
    earlier = []
    for d in sorted(glob.glob('/verif/seeded/%s_*' % pid)):
        m = json.load(open(d + '/meta.json'))
        earlier.append('- ' + (m.get('summary') or '')[:230].replace('\n', ' '))
    t = '''You are helping to evaluate a verification effort by writing realistic "seeded defects" for the open-source Python library PyRTL (UCSBarchlab/PyRTL, a Python-embedded RTL hardware description library). You have your own scratch git worktree of the library at:

    {wt}

Work ONLY inside that worktree and inside the output directory {out}. Never read, write or run anything under /repo or /verif (they are off limits), and do not create other worktrees.

The semantic property to break:

ID: {pid}
TITLE: {title}
STATEMENT: {statement}
QUANTIFIED OVER: {quant}
RELEVANT FILES: {files}


Task: produce TWO independent source changes (call them {A} and {B}; each applied alone to a clean checkout) to the library code under {wt}/pyrtl that each BREAK this property while
  (1) the package still imports and the library's existing test suite still passes completely:
        cd {wt} && PYTHONPATH={wt} /venv/bin/python -m pytest -q -p no:cacheprovider -x tests --deselect tests/test_examples.py 2>&1 | tail -5
      (about 25 s; the baseline has 1151 passing tests outside tests/test_examples.py; your change must not make any of them fail);
  (2) the change is REALISTIC - the kind of slip a maintainer could make in a refactor, optimisation or bug fix (an off-by-one at a boundary, a dropped mask, a wrong operand order in a rare branch, a cache keyed too coarsely, an edge case of widths/values handled in the wrong branch, state shared between objects that should be independent, two cooperating sites that each look fine alone ...), small (a few lines), and NOT something that ordinary use would expose at once. It should need something specific to manifest: a particular value or width boundary (think of 64-bit limb boundaries, power-of-two sizes, the largest/smallest legal value), an unusual but legal input or option, a multi-step sequence of operations on one object, a specific structure of design, a particular ordering, a non-default parameter, a rarely used but documented call form, etc. Do not add debug flags, environment-variable switches, randomness, or anything that looks deliberately malicious; do not edit tests.
  (3) {A} and {B} should be different in kind and location (different functions / different aspects of the property).

For diversity: earlier rounds already produced the following changes for this property; yours must be in DIFFERENT functions / aspects of the property. Anything else the property covers is fair game: less obvious code paths, other back ends, optional parameters and non-default options, helper functions the listed files call into, interactions between two features, behaviour after a sequence of calls, larger or unusual sizes, rarely used documented call forms:
{earlier}

For each of {A} and {B} deliver, under {out}/{A} and {out}/{B}:
  - patch.diff : `git diff` of the change against the worktree's HEAD (apply-able with `git apply`), touching only files under pyrtl/
  - demo.py    : a small stand-alone program (run as `PYTHONPATH=<checkout> /venv/bin/python demo.py`) that exits 0 and prints PASS on the unchanged library and exits 1 (printing what went wrong) with the change applied. It must use only the public behaviour described by the property (it demonstrates that the property is violated), and be deterministic.
  - meta.json  : {{"property": "<id>", "summary": "<one sentence: what was changed>", "needs": "<what specific input/sequence/structure is needed for the defect to manifest>", "files": ["pyrtl/..."], "tests_pass": true}}

Procedure: read the relevant code, design change {A}, apply it in the worktree, run the test suite (must fully pass), run demo.py (must fail), `git diff > {out}/{A}/patch.diff`, then `git checkout -- .` in the worktree, verify demo.py passes on the clean tree; repeat for {B}. Leave the worktree clean (git checkout -- .) at the end. If the suite fails with your change, pick a different change - do not touch the tests. Python is /venv/bin/python (3.12). There is no network.

Finish with a short report: for {A} and {B}, the summary, what is needed to manifest, and confirmation of the four facts (tests pass with change, demo fails with change, demo passes without change, worktree left clean). If while reading you notice behaviour of the UNCHANGED library that already contradicts the property (confirmed by running it), list it briefly at the end (do not fix it).
'''.format(wt=wt, out=out, pid=pid, title=p['title'], statement=p['statement'], quant=p['quantifier']['text'],
           files=', '.join(p['anchors']['files']), A=A, B=B, earlier='\n'.join(earlier))
    open('%s/%s_prompt.txt' % (root, pid), 'w').write(t)
