#!/usr/bin/env python3
"""tools/benignprompt.py <round dir> : writes <round dir>/<area>_prompt.txt for every area of the library - the briefing a fresh
sub-agent gets for a round of BEHAVIOUR-PRESERVING changes (refactors, optimisations, re-formatting of generated text). The checks
must stay quiet (exit 0, no VIOLATION line, no harness error) on every one of them: this measures false alarms, the way the seeded
defects measure detection. Only the property texts and a scratch worktree are passed on, nothing else from /verif."""
import json
import sys

root = sys.argv[1]
props = [json.loads(l) for l in open('/verif/properties.jsonl')]
AREAS = {
    'sim': 'pyrtl/simulation.py: Simulation._execute / step / _initialize, FastSimulation and the Python code it generates '
           '(names of temporaries, statement order of independent nets, how expressions are parenthesised or masked), trace storage',
    'csim': 'pyrtl/compilesim.py: the C code CompiledSimulation generates (variable naming, limb handling helpers, statement '
            'order of independent nets, how constants / masks are spelled, memory initialisation code), the ctypes glue',
    'synth': 'pyrtl/passes.py synthesize()/_decompose and the gate-level building blocks it uses in pyrtl/corecircuits.py and '
             'pyrtl/transform.py (different but equivalent gate structures, order of construction, naming of produced wires)',
    'opt': 'pyrtl/passes.py: optimize() and its passes (constant propagation, common sub-expression elimination, dead wire '
           'removal), nand_synth, and_inverter_synth, two_way_concat, one_bit_selects, direct_connect_outputs, two_way_fanout '
           '(equivalent restructurings, traversal order, naming, different but equally valid results)',
    'vlog': 'pyrtl/importexport.py: output_to_verilog, output_verilog_testbench and the name sanitizer (formatting, declaration '
            'order, names of temporaries, equivalent Verilog spellings of the same expression, comments, whitespace)',
    'blif': 'pyrtl/importexport.py: input_from_blif, input_from_iscas_bench, output_to_firrtl, and their parsers (equivalent '
            'constructions of the same function, internal naming, parse structure)',
    'ops': 'pyrtl/wire.py, pyrtl/corecircuits.py, pyrtl/helperfuncs.py: WireVector operators, shifts, signed helpers, mux/select, '
           'bitfield_update, match_bitpattern, chop, wire_struct, value conversion helpers (equivalent constructions of the same '
           'function, different internal temporaries, reorganised validation code keeping which inputs are accepted/rejected)',
    'cond': 'pyrtl/conditional.py and pyrtl/memory.py: how conditional_assignment finalises predicates and muxes, how memory '
            'ports are built (equivalent predicate expressions, different mux tree shapes, internal bookkeeping)',
    'core': 'pyrtl/core.py and pyrtl/transform.py: Block bookkeeping, sanity_check (keeping WHAT is rejected and the exception '
            'class), Block.__iter__ (any valid dependency order), copy_block / replace_wires helpers, name generation',
    'arith': 'pyrtl/rtllib/adders.py, multipliers.py, muxes.py, barrel.py, libutils.py (equivalent adder/multiplier structures, '
             'different reduction order, internal naming)',
    'crypto': 'pyrtl/rtllib/aes.py, prngs.py, matrix.py (equivalent constructions, reorganised helper functions, same results '
              'and same documented interfaces / result widths)',
    'analysis': 'pyrtl/analysis.py, pyrtl/visualization.py, and the trace renderers in pyrtl/simulation.py (print_trace, print_vcd, '
                'render_trace): equivalent algorithms for timing/paths/fanout; cosmetic changes to renderers must keep the text '
                'a faithful, deterministic encoding of the traced values',
}
plist = '\n'.join('  %s  %s: %s' % (p['id'], p['title'], p['statement']) for p in props)
for area, desc in AREAS.items():
    wt, out = '%s/%s' % (root, area), '%s/%s_out' % (root, area)
    t = '''You are helping to evaluate a verification effort for the open-source Python library PyRTL (UCSBarchlab/PyRTL, a Python-embedded RTL hardware description library). The verification machinery must NOT raise alarms on correct code. To test that, we need realistic BEHAVIOUR-PRESERVING source changes: the kind of refactor, clean-up, micro-optimisation, re-formatting of generated code, or alternative-but-equivalent implementation that a maintainer would merge, after which every documented behaviour of the library is exactly what it was. You have your own scratch git worktree of the library at:

    {wt}

Work ONLY inside that worktree and inside the output directory {out}. Never read, write or run anything under /repo or /verif (they are off limits), and do not create other worktrees.

Your area: {desc}

The documented properties that must continue to hold after each of your changes (all of them, for the whole library):
{plist}

Task: produce FOUR independent changes (call them X1, X2, X3, X4; each applied alone to a clean checkout) to the library code under {wt}/pyrtl in your area such that
  (1) the package still imports and the library's existing test suite still passes completely:
        cd {wt} && PYTHONPATH={wt} /venv/bin/python -m pytest -q -p no:cacheprovider -x tests --deselect tests/test_examples.py 2>&1 | tail -5
      (about 25 s; the baseline has 1151 passing tests outside tests/test_examples.py);
  (2) every property above still holds: the change is semantically neutral with respect to documented public behaviour (same simulated values, same accepted/rejected inputs with the same exception classes, same result widths, passes still meet their postconditions, generated Verilog/C/Python still means the same thing, exports still deterministic). Internal details MAY change: names of internal temporaries, order of independent statements or declarations in generated text, whitespace/comments/parenthesisation/number formatting in generated text where the meaning is the same, shape of the netlist produced for the same function (different but equivalent gates), traversal order, caching of immutable facts, wording of error messages (not the exception class), private helper signatures;
  (3) the change is NOT trivial (not just a comment or a local-variable rename in ordinary code): it should be the kind of thing that could trip up a checker that over-fits to the current implementation - e.g. a checker that parses the generated C / Verilog / Python text with a narrow grammar, that expects particular internal wire names or a particular gate structure, that counts nets, that wraps or replaces particular private functions, or that compares against golden output. Vary the kinds across X1..X4 (e.g. one change to generated-text spelling, one structural re-implementation, one reordering, one caching/bookkeeping refactor). Keep each to a few dozen lines at most. Do not edit tests. Do not add environment switches or randomness.

For each of X1..X4 deliver, under {out}/X1 .. {out}/X4:
  - patch.diff : `git diff` of the change against the worktree's HEAD (apply-able with `git apply`), touching only files under pyrtl/
  - meta.json  : {{"area": "{area}", "summary": "<one or two sentences: what was changed>", "why_preserving": "<why no documented behaviour changes>", "files": ["pyrtl/..."], "tests_pass": true}}
  - check.py   : a small stand-alone program (run as `PYTHONPATH=<checkout> /venv/bin/python check.py`) that exercises the changed code on a few concrete inputs and compares with independently computed expected values; it must print PASS and exit 0 both on the unchanged library and with the change applied (it documents that behaviour is preserved).

Procedure: read the relevant code, design change X1, apply it in the worktree, run the test suite (must fully pass), run check.py (must pass), `git diff > {out}/X1/patch.diff`, then `git checkout -- .` in the worktree and confirm check.py passes there too; repeat for X2..X4. Leave the worktree clean (git checkout -- .) at the end. Python is /venv/bin/python (3.12). There is no network.

Finish with a short report: for each change the summary and the confirmation (tests pass with change, check.py passes with and without change, worktree left clean).
'''.format(wt=wt, out=out, desc=desc, plist=plist, area=area)
    open('%s/%s_prompt.txt' % (root, area), 'w').write(t)
print(' '.join(AREAS))
