#!/usr/bin/env python3
"""Validate a seeded change and run the registered checks against it.

usage: tools/seedcheck.py <pending dir e.g. seeded_pending/C14_out/A> [--checks C14,C06] [--tier quick]
 1. scratch worktree of /repo HEAD (outside /repo and /verif), apply patch, run the pinned test suite (must pass),
    run demo.py (must fail); without the patch demo.py must pass. The worktree is removed afterwards.
 2. git -C /repo apply patch; run ./run <check> <tier> for each listed check; git -C /repo checkout -- .
 3. write /verif/seeded/<prop>_<variant>/ {patch.diff, demo.py, meta.json}
"""
import json
import os
import shutil
import subprocess
import sys
import time

V = os.path.dirname(os.path.dirname(os.path.abspath(__file__)))


def sh(cmd, cwd=None, env=None, timeout=3600):
    p = subprocess.run(cmd, shell=True, cwd=cwd, env=env, capture_output=True, text=True, timeout=timeout)
    return p.returncode, (p.stdout + p.stderr)


def main():
    src = os.path.abspath(sys.argv[1])
    checks = None
    tier = 'quick'
    for i, a in enumerate(sys.argv):
        if a == '--checks':
            checks = sys.argv[i + 1].split(',')
        if a == '--tier':
            tier = sys.argv[i + 1]
    meta = json.load(open(os.path.join(src, 'meta.json')))
    prop = meta['property']
    variant = os.path.basename(src)
    if '_' in variant:                  # re-validation of a kept seed: seeded/<prop>_<variant>
        variant = variant.split('_')[-1]
    if not checks and isinstance(meta.get('checks'), dict):
        # re-validation: the checks recorded for this seed (its own property's and any other that was found to catch it)
        checks = [c for c, r in meta['checks'].items() if isinstance(r, dict)]
    checks = checks or [prop]
    patch = os.path.join(src, 'patch.diff')
    demo = os.path.join(src, 'demo.py')
    wt = '/tmp/seedcheck_wt_%d' % os.getpid()
    result = {'property': prop, 'variant': variant, 'summary': meta.get('summary'), 'needs': meta.get('needs'),
              'files': meta.get('files'), 'ran': []}
    if meta.get('rebased'):
        result['rebased'] = meta['rebased']
    rc, out = sh('git -C /repo worktree add -q %s HEAD' % wt)
    try:
        env = dict(os.environ, PYTHONPATH=wt, PYTHONDONTWRITEBYTECODE='1')
        rc, out = sh('/venv/bin/python %s' % demo, cwd=wt, env=env)
        result['demo_passes_without_change'] = (rc == 0)
        rc, out = sh('git apply %s || git apply --3way %s' % (patch, patch), cwd=wt)
        result['patch_applies'] = (rc == 0)
        if rc != 0:
            result['apply_output'] = out[-500:]
        rc, out = sh('/venv/bin/python %s' % demo, cwd=wt, env=env)
        result['demo_fails_with_change'] = (rc != 0)
        result['demo_output_with_change'] = out[-600:]
        if '--fast' in sys.argv and meta.get('tests_pass_with_change') and meta.get('tests_tail'):
            # re-validation of a kept seed whose patch is unchanged: the suite result recorded when it was kept stands
            result['tests_pass_with_change'], result['tests_tail'] = True, meta['tests_tail']
        else:
            rc, out = sh('/venv/bin/python -m pytest -q -p no:cacheprovider tests --deselect tests/test_examples.py 2>&1 | tail -3',
                         cwd=wt, env=env)
            result['tests_pass_with_change'] = (' failed' not in out and ' passed' in out)
            result['tests_tail'] = out.strip().split('\n')[-1]
        result['ran'].append('worktree %s: demo (clean), git apply, demo (changed), pytest tests --deselect tests/test_examples.py' % wt)
    finally:
        sh('git -C /repo worktree remove --force %s' % wt)
        shutil.rmtree(wt, ignore_errors=True)
    # run the registered checks against a scratch worktree with the change applied (VERIF_REPO), so that /repo
    # itself is never touched and several seeds can be examined concurrently
    result['checks'] = {}
    wt2 = '/tmp/seedcheck_run_%d' % os.getpid()
    outdir = '/tmp/seedcheck_out_%d' % os.getpid()
    sh('git -C /repo worktree add -q %s HEAD' % wt2)
    try:
        rc, out = sh('git apply %s || git apply --3way %s' % (patch, patch), cwd=wt2)
        if rc != 0:
            result['checks']['apply_error'] = out[-500:]
        else:
            env2 = dict(os.environ, VERIF_REPO=wt2, VERIF_OUT=outdir)
            for c in checks:
                t0 = time.time()
                rc2, out2 = sh('./run %s %s' % (c, tier), cwd=V, env=env2, timeout=7200)
                lines = [l for l in out2.split('\n') if l.startswith(('VIOLATION', 'KNOWN-FINDING', 'HARNESS-ERROR', c + ' '))]
                result['checks'][c] = {'exit': rc2, 'violations': sum(1 for l in lines if l.startswith('VIOLATION')),
                                       # detected = the check's own verdict: exit 1 WITH a VIOLATION line for that property (a crash of the
                                       # harness also exits non-zero and is not a detection)
                                       'detected': rc2 == 1 and any(l.startswith('VIOLATION property=%s ' % c) for l in lines), 'lines': lines[:6], 'wall_s': round(time.time() - t0, 1)}
                result['ran'].append('scratch worktree of /repo HEAD + patch.diff; VERIF_REPO=<worktree> ./run %s %s' % (c, tier))
    finally:
        sh('git -C /repo worktree remove --force %s' % wt2)
        shutil.rmtree(wt2, ignore_errors=True)
        shutil.rmtree(outdir, ignore_errors=True)
    valid = (result.get('demo_passes_without_change') and result.get('demo_fails_with_change')
             and result.get('tests_pass_with_change') and result.get('patch_applies'))
    result['valid_seed'] = bool(valid)
    dst = os.path.join(V, 'seeded', '%s_%s' % (prop, variant))
    os.makedirs(dst, exist_ok=True)
    if os.path.abspath(dst) != os.path.abspath(src):
        shutil.copy(patch, os.path.join(dst, 'patch.diff'))
        shutil.copy(demo, os.path.join(dst, 'demo.py'))
    json.dump(result, open(os.path.join(dst, 'meta.json'), 'w'), indent=1)
    det = {c: r.get('detected') for c, r in result['checks'].items() if isinstance(r, dict)}
    print('%s_%s valid=%s detected=%s  %s' % (prop, variant, valid, det, meta.get('summary', '')[:90]))
    return 0


if __name__ == '__main__':
    sys.exit(main())
