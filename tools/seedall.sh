#!/bin/bash
# tools/seedall.sh [ids...] : re-validate every kept seed (seeded/<id>_<variant>) against the current /repo HEAD and the current
# checks, four at a time; prints one line per seed. Each validation uses scratch worktrees under /tmp that it removes itself.
cd /verif
ids="$@"
[ -z "$ids" ] && ids=$(ls seeded | sed 's/_.*//' | sort -u)
for id in $ids; do for d in seeded/${id}_*; do echo $d; done; done | \
  xargs -P 4 -I{} sh -c 'python3 tools/seedcheck.py {} --fast 2>&1 | grep -v WARNING | tail -1'
