#!/bin/bash
# tools/seedall.sh C03 C04 ...   : validate both seeds of each listed property against its own check
cd /verif
for id in "$@"; do for v in A B; do
  [ -d seeded_pending/${id}_out/$v ] && python3 tools/seedcheck.py seeded_pending/${id}_out/$v 2>&1 | grep -v WARNING | tail -1
done; done
