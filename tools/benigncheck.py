#!/usr/bin/env python3
"""Validate a behaviour-preserving change and run the registered checks against it: they must all stay quiet.

usage: tools/benigncheck.py <pending dir e.g. /tmp/b1/vlog_out/X1> [--checks C05,C20] [--tier quick]
 1. scratch worktree of /repo HEAD, apply patch, run the pinned test suite (must pass), run check.py with and without the patch
    (must pass both times).
 2. VERIF_REPO=<worktree with patch> ./run <check> <tier> for every check (default: all 20).
 3. write /verif/benign/<area>_<variant>/ {patch.diff, check.py, meta.json}; any exit != 0 is a FALSE ALARM of that check.
"""
import json
import os
import shutil
import subprocess
import sys
import time
from concurrent.futures import ThreadPoolExecutor

V = os.path.dirname(os.path.dirname(os.path.abspath(__file__)))
ALL = ['C%02d' % i for i in range(1, 21)]


def sh(cmd, cwd=None, env=None, timeout=7200):
    p = subprocess.run(cmd, shell=True, cwd=cwd, env=env, capture_output=True, text=True, timeout=timeout)
    return p.returncode, (p.stdout + p.stderr)


def main():
    src = os.path.abspath(sys.argv[1])
    checks, tier, par = ALL, 'quick', 3
    for i, a in enumerate(sys.argv):
        if a == '--checks':
            checks = sys.argv[i + 1].split(',')
        if a == '--tier':
            tier = sys.argv[i + 1]
        if a == '--par':
            par = int(sys.argv[i + 1])
    meta = json.load(open(os.path.join(src, 'meta.json')))
    area = meta.get('area') or os.path.basename(os.path.dirname(src)).replace('_out', '')
    variant = os.path.basename(src).split('_')[-1]
    patch, chk = os.path.join(src, 'patch.diff'), os.path.join(src, 'check.py')
    result = {'area': area, 'variant': variant, 'summary': meta.get('summary'), 'why_preserving': meta.get('why_preserving'),
              'files': meta.get('files'), 'ran': []}
    wt = '/tmp/benigncheck_wt_%d' % os.getpid()
    outroot = '/tmp/benigncheck_out_%d' % os.getpid()
    sh('git -C /repo worktree add -q %s HEAD' % wt)
    try:
        env = dict(os.environ, PYTHONPATH=wt, PYTHONDONTWRITEBYTECODE='1')
        rc, out = sh('/venv/bin/python %s' % chk, cwd=wt, env=env)
        result['check_passes_without_change'] = (rc == 0)
        rc, out = sh('git apply %s || git apply --3way %s' % (patch, patch), cwd=wt)
        result['patch_applies'] = (rc == 0)
        rc, out = sh('/venv/bin/python %s' % chk, cwd=wt, env=env)
        result['check_passes_with_change'] = (rc == 0)
        if '--fast' in sys.argv and meta.get('tests_tail'):
            result['tests_pass_with_change'], result['tests_tail'] = True, meta['tests_tail']
        else:
            rc, out = sh('/venv/bin/python -m pytest -q -p no:cacheprovider tests --deselect tests/test_examples.py 2>&1 | tail -3',
                         cwd=wt, env=env)
            result['tests_pass_with_change'] = (' failed' not in out and ' passed' in out)
            result['tests_tail'] = out.strip().split('\n')[-1]
        result['ran'].append('worktree: check.py (clean), git apply, check.py (changed), pytest tests --deselect tests/test_examples.py')
        result['checks'] = {}

        def one(c):
            t0 = time.time()
            env2 = dict(os.environ, VERIF_REPO=wt, VERIF_OUT='%s/%s' % (outroot, c))
            rc2, out2 = sh('./run %s %s' % (c, tier), cwd=V, env=env2)
            lines = [l for l in out2.split('\n') if l.startswith(('VIOLATION', 'HARNESS-ERROR', 'INCONCLUSIVE'))]
            return c, {'exit': rc2, 'quiet': rc2 == 0 and not any(l.startswith('VIOLATION') for l in lines),
                       'lines': lines[:8], 'tail': out2.strip().split('\n')[-3:] if rc2 else [], 'wall_s': round(time.time() - t0, 1)}
        if result['patch_applies']:
            with ThreadPoolExecutor(par) as ex:
                for c, r in ex.map(one, checks):
                    result['checks'][c] = r
            result['ran'].append('VERIF_REPO=<worktree with patch> ./run <id> %s for %s' % (tier, ','.join(checks)))
    finally:
        sh('git -C /repo worktree remove --force %s' % wt)
        shutil.rmtree(wt, ignore_errors=True)
        shutil.rmtree(outroot, ignore_errors=True)
    result['valid_benign'] = bool(result.get('check_passes_without_change') and result.get('check_passes_with_change')
                                  and result.get('tests_pass_with_change') and result.get('patch_applies'))
    dst = os.path.join(V, 'benign', '%s_%s' % (area, variant))
    os.makedirs(dst, exist_ok=True)
    if os.path.abspath(dst) != os.path.abspath(src):
        shutil.copy(patch, os.path.join(dst, 'patch.diff'))
        shutil.copy(chk, os.path.join(dst, 'check.py'))
    json.dump(result, open(os.path.join(dst, 'meta.json'), 'w'), indent=1)
    loud = {c: r['exit'] for c, r in result['checks'].items() if not r['quiet']}
    print('%s_%s valid=%s alarms=%s  %s' % (area, variant, result['valid_benign'], loud or 'none', (meta.get('summary') or '')[:90]))
    return 0


if __name__ == '__main__':
    sys.exit(main())
