#!/bin/bash
# Builds /verif/.venv offline: overlay on /venv (pyrtl deps) + z3/cvc5/crosshair from the wheelhouse.
# Idempotent and flock-guarded so that parallel checks can all call it.
set -e
V=/verif/.venv
exec 9>/verif/.venv.lock
flock 9
if [ -x "$V/bin/python" ] && "$V/bin/python" -c 'import z3, pyparsing' 2>/dev/null; then exit 0; fi
rm -rf "$V"
/venv/bin/python -m venv "$V" >/dev/null
printf '/venv/lib/python3.12/site-packages\n' > "$V/lib/python3.12/site-packages/overlay.pth"
"$V/bin/pip" install -q --no-index --find-links /opt/veriftools/wheels z3-solver cvc5 jsonschema >/dev/null 2>&1 || \
"$V/bin/pip" install -q --no-index --find-links /opt/veriftools/wheels z3-solver >/dev/null 2>&1
"$V/bin/python" -c 'import z3' 
