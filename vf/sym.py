"""ENGINE S: symbolic execution of PyRTL's own Python code on z3-backed integer proxies.

SymInt  : exact model of a Python int (bit-vector term + signedness, never wraps: every
          operator widens the result so that the BV operation coincides with the integer one).
SymBool : result of comparisons; bool(SymBool) is a branch point handled by the path explorer.
explore : DFS over decision vectors by re-execution; feasibility by interval pre-check then z3.
merged  : call-granularity state merging (runs the real function on every arm, folds with ite).

See /verif/DESIGN.md section 2.1 and Appendix A for the contracts.
"""
import numbers
import builtins
import time
import z3

_bi_int = builtins.int
_bi_len = builtins.len
_bi_isinstance = builtins.isinstance


class HarnessError(Exception):
    """The machinery (not the code under test) cannot continue. Never a violation."""


class Concretization(HarnessError):
    pass


STATS = {'forks': 0, 'solver_checks': 0, 'interval_decided': 0, 'solver_s': 0.0,
         'paths': 0, 'unpruned': 0, 'merged_calls': 0}

# ------------------------------------------------------------------------------------------
# helpers on raw (term, signed) pairs


def _bl(v):
    return v.bit_length()


def _type_bounds(n, s):
    if s:
        return -(1 << (n - 1)), (1 << (n - 1)) - 1
    return 0, (1 << n) - 1


def _ext(t, s, w):
    n = t.size()
    if w == n:
        return t
    if w < n:
        return z3.Extract(w - 1, 0, t)
    return z3.SignExt(w - n, t) if s else z3.ZeroExt(w - n, t)


def _needed(lo, hi):
    """minimal (width, signed) able to hold every value in [lo, hi]"""
    if lo >= 0:
        return max(1, _bl(hi)), False
    return max(_bl(-lo - 1), _bl(hi) if hi >= 0 else 0) + 1, True


_PLACEHOLDERS = {}
_ph_counter = [0]


class SymInt(object):
    __slots__ = ('t', 's', 'lo', 'hi', '_ph')
    __hash__ = None

    def __init__(self, t, s=False, lo=None, hi=None):
        n = t.size()
        tlo, thi = _type_bounds(n, s)
        lo = tlo if lo is None else max(lo, tlo)
        hi = thi if hi is None else min(hi, thi)
        if lo > hi:
            # contradictory interval information can only arise on an infeasible path; keep type bounds
            lo, hi = tlo, thi
        # shrink representation to the interval (sound: the value is known to lie in [lo, hi])
        w, ns = _needed(lo, hi)
        if w < n:
            t = z3.Extract(w - 1, 0, t)
            s = ns
        elif s and not ns and w <= n - 1:
            t = z3.Extract(w - 1, 0, t)
            s = False
        self.t, self.s, self.lo, self.hi = t, s, lo, hi
        self._ph = None

    # -- construction ----------------------------------------------------------------------
    @staticmethod
    def var(name, width, signed=False):
        return SymInt(z3.BitVec(name, width), signed)

    @staticmethod
    def mk(t, s=False, lo=None, hi=None):
        """build and fold numerals back to int"""
        if z3.is_bv_value(t):
            return t.as_signed_long() if s else t.as_long()
        if lo is not None and lo == hi:
            return lo
        return SymInt(t, s, lo, hi)

    @property
    def n(self):
        return self.t.size()

    # -- plumbing --------------------------------------------------------------------------
    def __repr__(self):
        return self._placeholder()

    __str__ = __repr__

    def _placeholder(self):
        if self._ph is None:
            _ph_counter[0] += 1
            self._ph = '<<%d>>' % _ph_counter[0]
            _PLACEHOLDERS[self._ph] = self
        return self._ph

    def __format__(self, spec):
        ph = self._placeholder()
        spec2 = spec.rstrip('dxobXn')
        base = spec[len(spec2):] or 'd'
        if base not in ('d', 'n'):
            ph = ph[:-2] + ':' + base + '>>'
            _PLACEHOLDERS[ph] = self
        return format(ph, spec2) if spec2 else ph

    def __index__(self):
        raise Concretization('symbolic integer used where a concrete index is required')

    def __int__(self):
        raise Concretization('builtin int() applied to a SymInt (install the int stub in that module)')

    def __bool__(self):
        return bool(self != 0)

    def __deepcopy__(self, memo):
        return self

    def __copy__(self):
        return self

    # -- arithmetic ------------------------------------------------------------------------
    def __add__(self, o):
        o = _lift(o)
        if o is NotImplemented:
            return o
        ta, tb, s, w = _norm2(self, o)
        return SymInt.mk(_ext(ta, s, w + 1) + _ext(tb, s, w + 1), s, self.lo + o.lo, self.hi + o.hi)

    __radd__ = __add__

    def __sub__(self, o):
        o = _lift(o)
        if o is NotImplemented:
            return o
        return _sub(self, o)

    def __rsub__(self, o):
        o = _lift(o)
        if o is NotImplemented:
            return o
        return _sub(o, self)

    def __neg__(self):
        return _sub(_lift(0), self)

    def __pos__(self):
        return self

    def __abs__(self):
        if self.lo >= 0:
            return self
        r = ite(self < 0, -self, self)
        if _bi_isinstance(r, SymInt):
            r = SymInt.mk(r.t, r.s, 0 if self.hi >= 0 else -self.hi, max(-self.lo, self.hi))
        return r

    def __invert__(self):
        t, n = _to_signed(self)
        return SymInt.mk(~t, True, -self.hi - 1, -self.lo - 1)

    def __mul__(self, o):
        o = _lift(o)
        if o is NotImplemented:
            return o
        if not self.s and not o.s:
            w = self.n + o.n
            if MUL['uf'] and (self.n > MUL['exact_max'] or o.n > MUL['exact_max']) and not z3.is_bv_value(self.t) \
                    and not z3.is_bv_value(o.t):
                return SymInt.mk(_mul_uf(self.t, o.t), False, self.lo * o.lo, self.hi * o.hi)
            return SymInt.mk(_ext(self.t, False, w) * _ext(o.t, False, w), False,
                             self.lo * o.lo, self.hi * o.hi)
        ta, na = _to_signed(self)
        tb, nb = _to_signed(o)
        w = na + nb
        c = [self.lo * o.lo, self.lo * o.hi, self.hi * o.lo, self.hi * o.hi]
        return SymInt.mk(_ext(ta, True, w) * _ext(tb, True, w), True, min(c), max(c))

    __rmul__ = __mul__

    def __and__(self, o):
        o = _lift(o)
        if o is NotImplemented:
            return o
        a, b = self, o
        if not a.s and not b.s:
            w = min(a.n, b.n)
            return SymInt.mk(_ext(a.t, False, w) & _ext(b.t, False, w), False, 0, min(a.hi, b.hi))
        if a.s and b.s:
            ta, tb, s, w = _norm2(a, b)
            return SymInt.mk(ta & tb, True)
        if a.s:
            a, b = b, a
        # a unsigned (value >= 0), b signed: result in [0, a]
        w = a.n
        return SymInt.mk(a.t & _ext(b.t, True, w), False, 0, a.hi)

    __rand__ = __and__

    def __or__(self, o):
        o = _lift(o)
        if o is NotImplemented:
            return o
        ta, tb, s, w = _norm2(self, o)
        if not s:
            return SymInt.mk(ta | tb, False, max(self.lo, o.lo), (1 << max(_bl(self.hi), _bl(o.hi))) - 1)
        return SymInt.mk(ta | tb, True)

    __ror__ = __or__

    def __xor__(self, o):
        o = _lift(o)
        if o is NotImplemented:
            return o
        ta, tb, s, w = _norm2(self, o)
        if not s:
            return SymInt.mk(ta ^ tb, False, 0, (1 << max(_bl(self.hi), _bl(o.hi))) - 1)
        return SymInt.mk(ta ^ tb, True)

    __rxor__ = __xor__

    def __lshift__(self, k):
        if _bi_isinstance(k, (SymInt, SymBool)):
            return _sym_shift(self, _lift(k), True)
        if k < 0:
            raise ValueError('negative shift count')
        if k == 0:
            return self
        return SymInt.mk(z3.Concat(self.t, z3.BitVecVal(0, k)), self.s, self.lo << k, self.hi << k)

    def __rlshift__(self, o):
        # concrete << symbolic
        return _sym_shift(_lift(o), self, True)

    def __rshift__(self, k):
        if _bi_isinstance(k, (SymInt, SymBool)):
            return _sym_shift(self, _lift(k), False)
        if k < 0:
            raise ValueError('negative shift count')
        if k == 0:
            return self
        n = self.n
        if k >= n:
            if not self.s:
                return 0
            return SymInt.mk(z3.Extract(n - 1, n - 1, self.t), True, self.lo >> k, self.hi >> k)
        return SymInt.mk(z3.Extract(n - 1, k, self.t), self.s, self.lo >> k, self.hi >> k)

    def __rrshift__(self, o):
        return _sym_shift(_lift(o), self, False)

    def __floordiv__(self, o):
        if _bi_isinstance(o, _bi_int) and o > 0 and (o & (o - 1)) == 0:
            return self >> (_bl(o) - 1)
        o = _lift(o)
        if o is NotImplemented:
            return o
        if self.lo >= 0 and o.lo > 0:
            ta, tb, s, w = _norm2(self, o)
            return SymInt.mk(z3.UDiv(ta, tb), False, self.lo // o.hi, self.hi // o.lo)
        raise Concretization('unsupported symbolic floor division')

    def __mod__(self, o):
        if _bi_isinstance(o, _bi_int) and o > 0 and (o & (o - 1)) == 0:
            return self & (o - 1)
        o = _lift(o)
        if o is NotImplemented:
            return o
        if self.lo >= 0 and o.lo > 0:
            ta, tb, s, w = _norm2(self, o)
            return SymInt.mk(z3.URem(ta, tb), False, 0, min(self.hi, o.hi - 1))
        raise Concretization('unsupported symbolic modulo')

    def bit_length(self):
        x = abs(self)
        if _bi_isinstance(x, _bi_int):
            return x.bit_length()
        return x._bitlen_u()

    def _bitlen_u(self):
        x = self
        if x.lo < 0:
            raise Concretization('bit_length of possibly negative term')
        n = x.n if not x.s else x.n - 1
        rw = max(1, _bl(n))
        acc = z3.BitVecVal(0, rw)
        for i in range(n):
            acc = z3.If(z3.Extract(i, i, x.t) == 1, z3.BitVecVal(i + 1, rw), acc)
        return SymInt.mk(acc, False, _bl(x.lo), _bl(x.hi))

    # -- comparisons -----------------------------------------------------------------------
    def __lt__(self, o):
        return _cmp(self, o, 'lt')

    def __le__(self, o):
        return _cmp(self, o, 'le')

    def __gt__(self, o):
        return _cmp(self, o, 'gt')

    def __ge__(self, o):
        return _cmp(self, o, 'ge')

    def __eq__(self, o):
        return _cmp(self, o, 'eq')

    def __ne__(self, o):
        return _cmp(self, o, 'ne')


numbers.Integral.register(SymInt)

# Wide multiplication (C02): both the Python product and the limb products of the generated C are expressed over one
# uninterpreted function mul64: BV64 x BV64 -> BV128 (school-book identity sum_ij mul64(a_i, b_j) << 64(i+j)); every
# application carries the sound range fact mul64(x, y) < 2^(|x|+|y|) for the known operand widths.
MUL = {'uf': False, 'exact_max': 8}
UF_FACTS = []
mul64 = z3.Function('mul64', z3.BitVecSort(64), z3.BitVecSort(64), z3.BitVecSort(128))


def _mul_uf(ta, tb):
    na, nb = ta.size(), tb.size()
    w = na + nb
    acc = z3.BitVecVal(0, w)
    for i in range(0, na, 64):
        wa = min(64, na - i)
        ai = z3.ZeroExt(64 - wa, z3.Extract(i + wa - 1, i, ta)) if wa < 64 or na != 64 else ta
        for j in range(0, nb, 64):
            wb = min(64, nb - j)
            bj = z3.ZeroExt(64 - wb, z3.Extract(j + wb - 1, j, tb)) if wb < 64 or nb != 64 else tb
            p = mul64(ai, bj)
            # sound range fact: a product of a wa-bit and a wb-bit number is at most (2^wa-1)(2^wb-1)
            UF_FACTS.append(z3.ULE(p, z3.BitVecVal(((1 << wa) - 1) * ((1 << wb) - 1), 128)))
            term = _ext(p, False, w) if w <= 128 else z3.ZeroExt(w - 128, p)
            sh = i + j
            if sh:
                term = term << sh
            acc = acc + term
    return acc


class SymBool(object):
    __slots__ = ('b',)
    __hash__ = None

    def __init__(self, b):
        self.b = b

    @staticmethod
    def mk(b):
        if z3.is_true(b):
            return True
        if z3.is_false(b):
            return False
        return SymBool(b)

    def __bool__(self):
        return fork(self.b)

    def as_int(self):
        return SymInt(z3.If(self.b, z3.BitVecVal(1, 1), z3.BitVecVal(0, 1)), False)

    def __repr__(self):
        return repr(self.as_int())

    __str__ = __repr__

    def __format__(self, spec):
        return self.as_int().__format__(spec)

    def __invert__(self):
        return ~self.as_int()

    def __int__(self):
        raise Concretization('builtin int() applied to a SymBool (install the int stub)')

    def __index__(self):
        raise Concretization('symbolic bool used as index')

    def __deepcopy__(self, memo):
        return self

    def __eq__(self, o):
        if _bi_isinstance(o, SymBool):
            return SymBool.mk(self.b == o.b)
        return self.as_int() == o

    def __ne__(self, o):
        if _bi_isinstance(o, SymBool):
            return SymBool.mk(self.b != o.b)
        return self.as_int() != o


def _mk_bool_delegate(name):
    def f(self, *a):
        return getattr(self.as_int(), name)(*a)
    f.__name__ = name
    return f


for _nm in ('__add__', '__radd__', '__sub__', '__rsub__', '__mul__', '__rmul__', '__and__', '__rand__',
            '__or__', '__ror__', '__xor__', '__rxor__', '__lshift__', '__rlshift__', '__rshift__',
            '__rrshift__', '__neg__', '__lt__', '__le__', '__gt__', '__ge__', '__floordiv__', '__mod__'):
    setattr(SymBool, _nm, _mk_bool_delegate(_nm))
numbers.Integral.register(SymBool)


def is_sym(x):
    return _bi_isinstance(x, (SymInt, SymBool))


def _lift(o):
    """anything int-like -> SymInt (numerals are NOT folded here: used as operator operands)"""
    if _bi_isinstance(o, SymInt):
        return o
    if _bi_isinstance(o, SymBool):
        return o.as_int()
    if _bi_isinstance(o, bool):
        o = _bi_int(o)
    if _bi_isinstance(o, _bi_int):
        if o >= 0:
            r = SymInt.__new__(SymInt)
            r.t, r.s, r.lo, r.hi, r._ph = z3.BitVecVal(o, max(1, _bl(o))), False, o, o, None
            return r
        w = _bl(-o - 1) + 1
        r = SymInt.__new__(SymInt)
        r.t, r.s, r.lo, r.hi, r._ph = z3.BitVecVal(o, w), True, o, o, None
        return r
    return NotImplemented


def _to_signed(x):
    """(term interpreted as signed, its width)"""
    if x.s:
        return x.t, x.n
    return z3.ZeroExt(1, x.t), x.n + 1


def _norm2(a, b):
    if a.s or b.s:
        ta, na = _to_signed(a)
        tb, nb = _to_signed(b)
        w = max(na, nb)
        return _ext(ta, True, w), _ext(tb, True, w), True, w
    w = max(a.n, b.n)
    return _ext(a.t, False, w), _ext(b.t, False, w), False, w


def _sub(a, b):
    ta, na = _to_signed(a)
    tb, nb = _to_signed(b)
    w = max(na, nb) + 1
    return SymInt.mk(_ext(ta, True, w) - _ext(tb, True, w), True, a.lo - b.hi, a.hi - b.lo)


def _cmp(a, o, op):
    b = _lift(o)
    if b is NotImplemented:
        if op == 'eq':
            return False
        if op == 'ne':
            return True
        return NotImplemented
    # interval pre-check
    if op == 'lt':
        if a.hi < b.lo:
            STATS['interval_decided'] += 1
            return True
        if a.lo >= b.hi:
            STATS['interval_decided'] += 1
            return False
    elif op == 'le':
        if a.hi <= b.lo:
            STATS['interval_decided'] += 1
            return True
        if a.lo > b.hi:
            STATS['interval_decided'] += 1
            return False
    elif op == 'gt':
        if a.lo > b.hi:
            STATS['interval_decided'] += 1
            return True
        if a.hi <= b.lo:
            STATS['interval_decided'] += 1
            return False
    elif op == 'ge':
        if a.lo >= b.hi:
            STATS['interval_decided'] += 1
            return True
        if a.hi < b.lo:
            STATS['interval_decided'] += 1
            return False
    elif op in ('eq', 'ne'):
        if a.hi < b.lo or b.hi < a.lo:
            STATS['interval_decided'] += 1
            return op == 'ne'
        if a.lo == a.hi == b.lo == b.hi:
            return op == 'eq'
    ta, tb, s, w = _norm2(a, b)
    if op == 'lt':
        r = (ta < tb) if s else z3.ULT(ta, tb)
    elif op == 'le':
        r = (ta <= tb) if s else z3.ULE(ta, tb)
    elif op == 'gt':
        r = (ta > tb) if s else z3.UGT(ta, tb)
    elif op == 'ge':
        r = (ta >= tb) if s else z3.UGE(ta, tb)
    elif op == 'eq':
        r = ta == tb
    else:
        r = ta != tb
    return SymBool.mk(r)


def _sym_shift(x, k, left):
    """shift by a symbolic amount: ite chain over the amount's interval"""
    if k.lo < 0:
        if bool(k < 0):
            raise ValueError('negative shift count')
        k = SymInt(k.t, k.s, 0, k.hi)
    lo, hi = max(k.lo, 0), k.hi
    if not left:
        # right shifts saturate at the operand width
        hi_eff = min(hi, x.n + 1)
    else:
        hi_eff = hi
    if hi_eff - lo > 1100:
        raise Concretization('symbolic shift amount range too large (%d..%d)' % (lo, hi))
    res = None
    for amt in range(hi_eff, lo - 1, -1):
        v = (x << amt) if left else (x >> amt)
        if res is None:
            res = v
        else:
            res = ite(k == amt, v, res)
    return res


def to_bv(x, w):
    """low w bits of value(x) as BitVec(w) — the only way values enter queries"""
    if _bi_isinstance(x, SymBool):
        x = x.as_int()
    if _bi_isinstance(x, SymInt):
        return _ext(x.t, x.s, w)
    if _bi_isinstance(x, bool):
        x = _bi_int(x)
    if _bi_isinstance(x, _bi_int):
        return z3.BitVecVal(x & ((1 << w) - 1), w)
    if z3.is_bv(x):
        return _ext(x, False, w)
    raise HarnessError('to_bv: unsupported value %r' % (x,))


def to_cond(c):
    """python bool / SymBool / SymInt -> z3 Bool"""
    if _bi_isinstance(c, SymBool):
        return c.b
    if _bi_isinstance(c, SymInt):
        return c.t != 0
    if z3.is_bool(c):
        return c
    return z3.BoolVal(bool(c))


def ite(c, a, b):
    """symbolic if-then-else on int-like values (c: bool/SymBool/z3 Bool)"""
    if c is True:
        return a
    if c is False:
        return b
    cb = to_cond(c)
    if z3.is_true(cb):
        return a
    if z3.is_false(cb):
        return b
    if _bi_isinstance(a, (bool, SymBool)) and _bi_isinstance(b, (bool, SymBool)):
        return SymBool.mk(z3.If(cb, to_cond(a), to_cond(b)))
    la, lb = _lift(a), _lift(b)
    if la is NotImplemented or lb is NotImplemented:
        if a is b:
            return a
        try:
            if a == b:
                return a
        except Exception:
            pass
        raise HarnessError('ite over non-integer values %r / %r' % (type(a), type(b)))
    if z3.eq(la.t, lb.t) and la.s == lb.s:
        return a
    ta, tb, s, w = _norm2(la, lb)
    return SymInt.mk(z3.If(cb, ta, tb), s, min(la.lo, lb.lo), max(la.hi, lb.hi))


# ------------------------------------------------------------------------------------------
# path explorer

_STACK = []


class Path(object):
    __slots__ = ('pc', 'result', 'exc', 'decisions', 'extra')

    def __init__(self, pc, result, exc, decisions):
        self.pc, self.result, self.exc, self.decisions = pc, result, exc, decisions
        self.extra = None

    def cond(self):
        return z3.And(*self.pc) if self.pc else z3.BoolVal(True)


class Explorer(object):
    def __init__(self, assumptions=(), lazy=False, timeout_ms=5000, max_paths=4096):
        self.assumptions = list(assumptions)
        self.lazy = lazy
        self.timeout_ms = timeout_ms
        self.max_paths = max_paths
        self.solver = None
        self.prefix = []
        self.decisions = []
        self.pc = []
        self.work = []
        self.unpruned = 0
        self.outer_pc = []

    def _solver(self):
        if self.solver is None:
            self.solver = z3.Solver()
            self.solver.set('timeout', self.timeout_ms)
            for a in self.assumptions:
                self.solver.add(a)
        return self.solver

    def _feasible(self, cond):
        s = self._solver()
        STATS['solver_checks'] += 1
        t0 = time.time()
        r = s.check(*(self.outer_pc + self.pc + [cond]))
        STATS['solver_s'] += time.time() - t0
        if r == z3.unknown:
            self.unpruned += 1
            STATS['unpruned'] += 1
            return True
        return r == z3.sat

    def fork(self, cond):
        i = _bi_len(self.decisions)
        STATS['forks'] += 1
        if i < _bi_len(self.prefix):
            d = self.prefix[i]
        elif self.lazy:
            d = True
            self.work.append(self.decisions + [False])
        else:
            ft = self._feasible(cond)
            if not ft:
                d = False
            else:
                ff = self._feasible(z3.Not(cond))
                d = True
                if ff:
                    self.work.append(self.decisions + [False])
        self.decisions.append(d)
        self.pc.append(cond if d else z3.Not(cond))
        return d

    def run(self, body):
        paths = []
        self.work = [[]]
        while self.work:
            if _bi_len(paths) >= self.max_paths:
                raise HarnessError('path budget exceeded (%d)' % self.max_paths)
            self.prefix = self.work.pop()
            self.decisions = []
            self.pc = []
            _STACK.append(self)
            try:
                try:
                    res, exc = body(), None
                except Concretization as ce:
                    # a symbolic value formatted with %d / {:d} inside a `raise SomeError(...)` statement of the code under
                    # test: the outcome of the path is that exception (its message is never inspected)
                    conv = _raise_in_progress(ce)
                    if conv is None:
                        raise
                    res, exc = None, conv
                except HarnessError:
                    raise
                except Exception as e:  # outcome of the code under test
                    res, exc = None, e
            finally:
                _STACK.pop()
            paths.append(Path(list(self.pc), res, exc, list(self.decisions)))
            STATS['paths'] += 1
        return paths


def _raise_in_progress(ce):
    """if the Concretization happened while evaluating the argument of a `raise X(...)` statement in PyRTL code,
    return an instance of X (message: symbolic), else None"""
    import linecache
    import re
    tb = ce.__traceback__
    frames = []
    while tb is not None:
        frames.append((tb.tb_frame, tb.tb_lineno))
        tb = tb.tb_next
    for frame, lineno in reversed(frames):
        fn = frame.f_code.co_filename
        if '/pyrtl/' not in fn:
            continue
        for back in range(0, 6):
            line = linecache.getline(fn, lineno - back).strip()
            m = re.match(r'raise\s+([\w\.]+)\s*\(', line)
            if m:
                name = m.group(1).split('.')[-1]
                cls = frame.f_globals.get(name) or frame.f_globals.get(m.group(1).split('.')[0])
                if cls is not None and not isinstance(cls, type):
                    cls = getattr(cls, name, None)
                if isinstance(cls, type) and issubclass(cls, Exception):
                    return cls('<message formatted from a symbolic value>')
                return None
            if line.endswith(':') or line.startswith(('return ', 'if ', 'for ', 'while ')):
                break
        return None
    return None


def fork(cond):
    if z3.is_true(cond):
        return True
    if z3.is_false(cond):
        return False
    if not _STACK:
        raise HarnessError('symbolic branch outside of an explorer: %s' % str(cond)[:200])
    return _STACK[-1].fork(cond)


def current_pc():
    pc = []
    for e in _STACK:
        pc += e.pc
    return pc


def explore(body, assumptions=(), lazy=False, timeout_ms=5000, max_paths=4096):
    ex = Explorer(assumptions, lazy, timeout_ms, max_paths)
    if _STACK:
        ex.outer_pc = current_pc()
        if not assumptions:
            ex.assumptions = list(_STACK[0].assumptions)
    paths = ex.run(body)
    return paths


def merged(fn):
    """state merging at call granularity: the real fn runs on every arm; results folded with ite."""
    def wrapper(*args):
        for a in args:
            if _bi_isinstance(a, (SymInt, SymBool)):
                break
        else:
            return fn(*args)
        STATS['merged_calls'] += 1
        paths = explore(lambda: fn(*args), lazy=True)
        if _bi_len(paths) == 1 and paths[0].exc is None:
            return paths[0].result
        acc = None
        have = False
        raising = []
        for p in paths:
            if p.exc is not None:
                raising.append(p)
                continue
            if not have:
                acc, have = p.result, True
            else:
                acc = ite(p.cond(), p.result, acc)
        for p in raising:
            # an arm that raises becomes a real branch of the enclosing explorer
            if fork(p.cond()):
                raise p.exc
        if not have:
            raise HarnessError('merged(): no non-raising arm')
        return acc
    wrapper.__wrapped__ = fn
    wrapper.__name__ = getattr(fn, '__name__', 'merged')
    return wrapper


# ------------------------------------------------------------------------------------------
# builtin stubs (installed as module globals in the PyRTL module under test)

class SymNumeral(object):
    """opaque rendering of a SymInt in some base: supports len(), slicing off the prefix, int(.., base)"""

    def __init__(self, x, base, prefix):
        self.x, self.base, self.prefix = x, base, prefix

    def __len__(self):  # only reachable through the len stub
        raise Concretization('len(SymNumeral) via builtin len')

    def sym_len(self):
        x = self.x
        if self.base != 2:
            raise Concretization('length of a non-binary rendering of a symbolic value')
        if _bi_isinstance(x, SymBool):
            x = x.as_int()
        bl = x.bit_length()
        digits = ite(bl == 0, 1, bl)
        if x.lo < 0:
            return ite(x < 0, digits + _bi_len(self.prefix) + 1, digits + _bi_len(self.prefix))
        return digits + _bi_len(self.prefix)

    def __getitem__(self, sl):
        if _bi_isinstance(sl, slice) and sl.start == _bi_len(self.prefix) and sl.stop is None and sl.step is None:
            return SymNumeral(self.x, self.base, '')
        raise Concretization('unsupported slicing of a symbolic numeral')

    def __str__(self):
        return format(self.x, {2: 'b', 8: 'o', 16: 'x', 10: 'd'}[self.base])

    __repr__ = __str__


def sym_bin(x):
    if is_sym(x):
        return SymNumeral(x, 2, '0b')
    return builtins.bin(x)


def sym_hex(x):
    if is_sym(x):
        return SymNumeral(x, 16, '0x')
    return builtins.hex(x)


def sym_len(x):
    if _bi_isinstance(x, SymNumeral):
        return x.sym_len()
    return _bi_len(x)


class _IntMeta(type):
    def __instancecheck__(cls, x):
        return _bi_isinstance(x, _bi_int)

    def __subclasscheck__(cls, c):
        return issubclass(c, _bi_int)


class sym_int(_bi_int, metaclass=_IntMeta):
    """drop-in for the name `int` inside a PyRTL module: identity on symbolic values"""

    def __new__(cls, x=0, *a):
        if _bi_isinstance(x, SymInt):
            return x
        if _bi_isinstance(x, SymBool):
            return x.as_int()
        if _bi_isinstance(x, SymNumeral):
            return x.x
        if _bi_isinstance(x, str) and x in _PLACEHOLDERS:
            return _PLACEHOLDERS[x]
        return _bi_int(x, *a)


def sym_max(*args, **kw):
    if _bi_len(args) == 1:
        args = list(args[0])
    if not any(is_sym(a) for a in args) or kw:
        return builtins.max(*args, **kw) if _bi_len(args) > 1 else builtins.max(args, **kw)
    acc = args[0]
    for a in args[1:]:
        acc = ite(a > acc, a, acc)
    return acc


def sym_min(*args, **kw):
    if _bi_len(args) == 1:
        args = list(args[0])
    if not any(is_sym(a) for a in args) or kw:
        return builtins.min(*args, **kw) if _bi_len(args) > 1 else builtins.min(args, **kw)
    acc = args[0]
    for a in args[1:]:
        acc = ite(a < acc, a, acc)
    return acc


def sym_abs(x):
    if is_sym(x):
        return abs(_lift(x))
    return builtins.abs(x)


class stubs(object):
    """context manager installing module-global stubs: stubs(module, int=sym_int, bin=sym_bin, ...)"""

    def __init__(self, module, **names):
        self.module, self.names, self.saved = module, names, {}

    def __enter__(self):
        for k, v in self.names.items():
            self.saved[k] = self.module.__dict__.get(k, stubs)
            setattr(self.module, k, v)
        return self

    def __exit__(self, *a):
        for k, v in self.saved.items():
            if v is stubs:
                try:
                    delattr(self.module, k)
                except AttributeError:
                    pass
            else:
                setattr(self.module, k, v)
        return False


# ------------------------------------------------------------------------------------------
# symbolic containers

class SymMem(object):
    """dict-protocol memory contents backed by a z3 array BV(addrwidth) -> BV(bitwidth).

    `present` (optional z3 array addr -> Bool) models WHICH KEYS the dict holds: a sparse dict built from concrete words has
    exactly those keys, `addr in mem` and `mem.get(addr, default)` answer accordingly, and a store adds the key. Without it
    (arbitrary initial contents) every key is present."""

    def __init__(self, arr, addrwidth, bitwidth, present=None):
        self.arr, self.aw, self.bw = arr, addrwidth, bitwidth
        self.present = present

    @staticmethod
    def fresh(name, addrwidth, bitwidth):
        return SymMem(z3.Array(name, z3.BitVecSort(addrwidth), z3.BitVecSort(bitwidth)), addrwidth, bitwidth)

    @staticmethod
    def const(value, addrwidth, bitwidth):
        return SymMem(z3.K(z3.BitVecSort(addrwidth), z3.BitVecVal(value & ((1 << bitwidth) - 1), bitwidth)),
                      addrwidth, bitwidth)

    @staticmethod
    def from_dict(d, default, addrwidth, bitwidth):
        m = SymMem.const(default, addrwidth, bitwidth)
        m.present = z3.K(z3.BitVecSort(addrwidth), z3.BoolVal(False))
        for a, v in d.items():
            m[a] = v
        return m

    def items(self):
        return iter(())

    def keys(self):
        return iter(())

    def __iter__(self):
        return iter(())

    def __len__(self):
        return 0

    def get(self, addr, default=None):
        a = to_bv(addr, self.aw)
        word = z3.Select(self.arr, a)
        if self.present is not None and default is not None and (is_sym(default) or _bi_isinstance(default, _bi_int)):
            # an absent key reads the caller's default (the array already holds the construction default there, so the two
            # agree unless the code passes a different one)
            word = z3.If(z3.Select(self.present, a), word, to_bv(default, self.bw))
        return SymInt.mk(word, False)

    def __getitem__(self, addr):
        return SymInt.mk(z3.Select(self.arr, to_bv(addr, self.aw)), False)

    def __setitem__(self, addr, val):
        a = to_bv(addr, self.aw)
        self.arr = z3.Store(self.arr, a, to_bv(val, self.bw))
        if self.present is not None:
            self.present = z3.Store(self.present, a, z3.BoolVal(True))

    def __contains__(self, addr):
        if self.present is None:
            return True
        t = z3.simplify(z3.Select(self.present, to_bv(addr, self.aw)))
        if z3.is_true(t):
            return True
        if z3.is_false(t):
            return False
        return bool(SymBool(t))      # a fork point, like any other comparison

    def copy(self):
        return SymMem(self.arr, self.aw, self.bw, self.present)

    def __deepcopy__(self, memo):
        return self.copy()

    __copy__ = copy


class TrackMem(SymMem):
    """a SymMem handed to a simulator AS the user's memory_value_map entry (so that the object identity relations the code
    creates - aliasing vs. copying - are the real ones): remembers the concrete initial words and every write made through it;
    a copy/deepcopy is an independent snapshot"""

    def __init__(self, arr, addrwidth, bitwidth, init=None, default=0, writes=None, present=None):
        SymMem.__init__(self, arr, addrwidth, bitwidth, present)
        self.init = dict(init or {})
        self.default = default
        self.writes = list(writes or [])

    @staticmethod
    def from_words(d, default, addrwidth, bitwidth):
        m = SymMem.from_dict(d, default, addrwidth, bitwidth)
        return TrackMem(m.arr, addrwidth, bitwidth, init=d, default=default, present=m.present)

    def items(self):
        return iter(list(self.init.items()) + list(self.writes))

    def keys(self):
        return iter([k for k, _ in self.items()])

    def __iter__(self):
        return self.keys()

    def __len__(self):
        return len(self.init) + len(self.writes)

    def get(self, addr, default=None):
        if not self.writes and not is_sym(addr):
            return self.init.get(addr, self.default if default is None else default)
        return SymMem.get(self, addr, default)

    def __getitem__(self, addr):
        return self.get(addr)

    def __setitem__(self, addr, val):
        SymMem.__setitem__(self, addr, val)
        self.writes.append((addr, val))

    def copy(self):
        return TrackMem(self.arr, self.aw, self.bw, init=self.init, default=self.default, writes=self.writes, present=self.present)

    def __deepcopy__(self, memo):
        return self.copy()

    __copy__ = copy


class SymTable(object):
    """wraps a concrete list/dict/function ROM table so that a symbolic index yields an ite tree
    (or a shared uninterpreted function + table lemma when uf=True)."""

    _uf_cache = {}
    lemmas = []

    def __init__(self, data, addrwidth, bitwidth, uf=False, name=None, pad=None, on_missing=None):
        self.data, self.aw, self.bw, self.uf, self.name = data, addrwidth, bitwidth, uf, name
        self.pad, self.on_missing = pad, on_missing
        self._table = None

    def table(self):
        if self._table is None:
            t = []
            for a in range(1 << self.aw):
                try:
                    t.append(self.data(a) if callable(self.data) else self.data[a])
                except (IndexError, KeyError):
                    t.append(None)
            self._table = t
        return self._table

    def lookup(self, addr, missing):
        """missing(addr_concrete) is called for holes (must raise or return a value)"""
        if not is_sym(addr):
            v = self.table()[addr] if 0 <= addr < (1 << self.aw) else None
            return missing(addr) if v is None else v
        tab = self.table()
        a = to_bv(addr, self.aw)
        if self.uf:
            return SymInt.mk(SymTable.uf_for(tab, self.aw, self.bw)(a), False)
        # holes: real branch
        holes = [i for i, v in enumerate(tab) if v is None]
        if holes:
            hc = z3.Or(*[a == z3.BitVecVal(i, self.aw) for i in holes])
            if fork(hc):
                # find one concrete hole on this path for the error message
                return missing(holes[0])

        def build(lo, hi, bit):
            if hi - lo == 1:
                v = tab[lo]
                return z3.BitVecVal((v or 0) & ((1 << 4096) - 1), max(self.bw, _bl(v or 0), 1))
            mid = (lo + hi) // 2
            l, r = build(lo, mid, bit - 1), build(mid, hi, bit - 1)
            if z3.eq(l, r):
                return l
            w = max(l.size(), r.size())
            return z3.If(z3.Extract(bit, bit, a) == 1, _ext(r, False, w), _ext(l, False, w))
        return SymInt.mk(build(0, 1 << self.aw, self.aw - 1), False)

    @staticmethod
    def uf_for(tab, aw, bw):
        """the shared uninterpreted function standing for a concrete table (keyed by content, so that the code
        side and the reference side of an obligation use the same symbol)"""
        key = (aw, bw, tuple(tab))
        f = SymTable._uf_cache.get(key)
        if f is None:
            f = z3.Function('T%d' % _bi_len(SymTable._uf_cache), z3.BitVecSort(aw), z3.BitVecSort(bw))
            SymTable._uf_cache[key] = f
        return f

    @staticmethod
    def uf_tables():
        """[(function, table, aw, bw)] for the table lemmas"""
        return [(f, key[2], key[0], key[1]) for key, f in SymTable._uf_cache.items()]


# ------------------------------------------------------------------------------------------
# self check of the NOWRAP invariant (run by setup / thorough): value(f(x,y)) == f(value(x), value(y))

def _val_int(x):
    if _bi_isinstance(x, SymBool):
        return z3.If(x.b, z3.IntVal(1), z3.IntVal(0))
    if _bi_isinstance(x, _bi_int):
        return z3.IntVal(_bi_int(x))
    return z3.BV2Int(x.t, is_signed=x.s)


def selfcheck(maxw=4, verbose=False):
    import operator
    import itertools
    bad = []
    n = 0
    binops = [('add', operator.add, lambda a, b: a + b), ('sub', operator.sub, lambda a, b: a - b),
              ('mul', operator.mul, lambda a, b: a * b)]
    for wa, wb, sa, sb in itertools.product(range(1, maxw + 1), range(1, maxw + 1), (False, True), (False, True)):
        a = SymInt(z3.BitVec('sa', wa), sa)
        b = SymInt(z3.BitVec('sb', wb), sb)
        for nm, f, g in binops:
            r = f(a, b)
            s = z3.Solver()
            s.add(_val_int(r) != g(_val_int(a), _val_int(b)))
            n += 1
            if s.check() != z3.unsat:
                bad.append((nm, wa, wb, sa, sb))
        # bitwise and shifts and comparisons: exhaustive concrete evaluation through substitution
        for nm, f in [('and', operator.and_), ('or', operator.or_), ('xor', operator.xor),
                      ('lt', operator.lt), ('le', operator.le), ('eq', operator.eq), ('ne', operator.ne),
                      ('gt', operator.gt), ('ge', operator.ge)]:
            r = f(a, b)
            alo, ahi = _type_bounds(wa, sa)
            blo, bhi = _type_bounds(wb, sb)
            for va in range(alo, ahi + 1):
                for vb in range(blo, bhi + 1):
                    n += 1
                    exp = f(va, vb)
                    if _bi_isinstance(r, (bool, _bi_int)) and not is_sym(r):
                        got = r
                    else:
                        term = r.b if _bi_isinstance(r, SymBool) else r.t
                        sub = z3.substitute(term, (a.t, z3.BitVecVal(va, wa)), (b.t, z3.BitVecVal(vb, wb)))
                        sv = z3.simplify(sub)
                        if _bi_isinstance(r, SymBool):
                            got = z3.is_true(sv)
                        else:
                            got = sv.as_signed_long() if r.s else sv.as_long()
                    if got != exp:
                        bad.append((nm, wa, wb, sa, sb, va, vb, got, exp))
    for wa, sa in itertools.product(range(1, maxw + 2), (False, True)):
        a = SymInt(z3.BitVec('sa', wa), sa)
        alo, ahi = _type_bounds(wa, sa)
        unops = [('inv', lambda x: ~x), ('neg', lambda x: -x), ('abs', abs)]
        for k in range(0, wa + 2):
            unops.append(('shl%d' % k, lambda x, k=k: x << k))
            unops.append(('shr%d' % k, lambda x, k=k: x >> k))
        unops.append(('and5', lambda x: x & 5))
        unops.append(('andm', lambda x: x & ((1 << 2) - 1)))
        unops.append(('bl', lambda x: x.bit_length()))
        for nm, f in unops:
            try:
                r = f(a)
            except Concretization:
                continue
            for va in range(alo, ahi + 1):
                n += 1
                exp = f(va)
                if is_sym(r):
                    sv = z3.simplify(z3.substitute(r.t, (a.t, z3.BitVecVal(va, wa))))
                    got = sv.as_signed_long() if r.s else sv.as_long()
                    if not (r.lo <= got <= r.hi):
                        bad.append((nm, 'interval', wa, sa, va, got, r.lo, r.hi))
                else:
                    got = r
                if got != exp:
                    bad.append((nm, wa, sa, va, got, exp))
    return n, bad
