"""Bounded symbolic check of the C hash-map helper text emitted by CompiledSimulation._declare_mem_helpers.

vf/ctrans.py models the memories of the generated C as total maps; that is only justified if the helper functions
insert()/lookup() (pointer-chasing heap code) really implement a map. This module gives that fixed text a meaning of its
own: a small guarded symbolic interpreter for exactly the statement forms the helpers use, over a symbolic heap
  node fields   key: node -> BV64,  val: node -> BV(64*limbs) (the array a node owns, as one word),  next: node -> node
  h->list       bucket -> node (0 = NULL),   malloc = next fresh node index
with bounded loop unrolling and an unwinding obligation (a too-small bound is reported, never silently truncated).
The property checked (BMC over a symbolic history): starting from create_hash_map, after insert(k1,v1), insert(k2,v2),
insert(k3,v3) — keys and values symbolic, so every aliasing / bucket-collision pattern is covered — lookup(q) returns
exactly what a functional map (z3 Store chain, default 0) returns, for every q."""
import re
import z3

NODE = z3.BitVecSort(8)
POS = z3.BitVecSort(32)
KEY = z3.BitVecSort(64)


class CHelperError(Exception):
    pass


TOK = re.compile(r'\s*(->|==|!=|\+\+|[A-Za-z_]\w*|\d+|[-+*/%=<>()\[\]{};,&])')


def tokenize(s):
    out, i = [], 0
    s = re.sub(r'/\*.*?\*/', ' ', s, flags=re.S)
    s = re.sub(r'//[^\n]*', ' ', s)
    s = s.strip()
    while i < len(s):
        m = TOK.match(s, i)
        if not m:
            raise CHelperError('cannot tokenize %r' % s[i:i + 30])
        out.append(m.group(1))
        i = m.end()
    return out


def extract_functions(text):
    """{name: (params [(type, name)], body tokens)} for the helper functions"""
    start = text.index('typedef uint64_t val_t;')
    # the helper text ends where the ROM tables / memory declarations / step function begin
    ends = [i for i in (text.find('static const uint', start), text.find('EXPORT\nhashmap_t', start),
                        text.find('static void sim_run_step', start)) if i > 0]
    helper = text[start:min(ends)]
    funcs = {}
    for m in re.finditer(r'(?:EXPORT\s+)?([\w\s\*]+?)\s*\*?\s*(\w+)\s*\(([^)]*)\)\s*\{', helper):
        name = m.group(2)
        if name in ('if', 'while', 'for'):
            continue
        depth, j = 1, m.end()
        while depth:
            if helper[j] == '{':
                depth += 1
            elif helper[j] == '}':
                depth -= 1
            j += 1
        params = [p.strip().replace('[]', '').split()[-1].lstrip('*') for p in m.group(3).split(',') if p.strip()]
        funcs[name] = (params, tokenize(helper[m.end():j - 1]))
    return funcs


class Interp(object):
    def __init__(self, funcs, limbs, size=256, unroll=4):
        self.funcs, self.limbs, self.size, self.unroll = funcs, limbs, size, unroll
        self.W = 64 * limbs
        self.key = z3.K(NODE, z3.BitVecVal(0, 64))
        self.val = z3.K(NODE, z3.BitVecVal(0, self.W))
        self.next = z3.K(NODE, z3.BitVecVal(0, 8))
        self.list = z3.K(POS, z3.BitVecVal(0, 8))        # create_hash_map: every bucket NULL
        self.alloc = 1
        self.unwinding = []      # conditions that must be unsatisfiable (loop bound sufficient)
        self.check_create()

    def check_create(self):
        body = ' '.join(self.funcs['create_hash_map'][1])
        need = ['h -> size = size', 'h -> val_limbs = val_limbs', 'h -> list [ i ] = NULL', 'h -> default_value [ i ] = 0']
        for n in need:
            if n not in body:
                raise CHelperError('create_hash_map no longer contains %r: its model (empty buckets, zero default) must be revisited' % n)

    # ------------------------------------------------------------ expression evaluation
    def expr(self, toks, env):
        val, pos = self._eq(toks, 0, env)
        if pos != len(toks):
            raise CHelperError('trailing tokens in expression %r' % ' '.join(toks))
        return val

    def _eq(self, toks, pos, env):
        a, pos = self._mod(toks, pos, env)
        while pos < len(toks) and toks[pos] in ('==', '!='):
            op = toks[pos]
            b, pos = self._mod(toks, pos + 1, env)
            a, b = self._unify(a, b)
            a = ('bool', (a[1] == b[1]) if op == '==' else (a[1] != b[1]))
        return a, pos

    def _mod(self, toks, pos, env):
        a, pos = self._prim(toks, pos, env)
        while pos < len(toks) and toks[pos] == '%':
            b, pos = self._prim(toks, pos + 1, env)
            # key % h->size  (uint64 % int -> converted to uint64; result assigned to an int)
            x = a[1] if a[1].size() == 64 else z3.ZeroExt(64 - a[1].size(), a[1])
            y = b[1] if b[1].size() == 64 else z3.ZeroExt(64 - b[1].size(), b[1])
            a = ('pos', z3.Extract(31, 0, z3.URem(x, y)))
        return a, pos

    def _unify(self, a, b):
        if a[0] == 'null':
            a = (b[0], z3.BitVecVal(0, b[1].size()))
        if b[0] == 'null':
            b = (a[0], z3.BitVecVal(0, a[1].size()))
        if a[1].size() != b[1].size():
            w = max(a[1].size(), b[1].size())
            a = (a[0], z3.ZeroExt(w - a[1].size(), a[1]))
            b = (b[0], z3.ZeroExt(w - b[1].size(), b[1]))
        return a, b

    def _prim(self, toks, pos, env):
        t = toks[pos]
        if t == '(':
            # a cast "(node_t *)" / "(val_t *)" / "(hashmap_t *)" or a parenthesised expression
            j = pos + 1
            if toks[j] in ('node_t', 'val_t', 'hashmap_t', 'struct') and ')' in toks[j:j + 4]:
                while toks[j] != ')':
                    j += 1
                return self._prim(toks, j + 1, env)
            v, p2 = self._eq(toks, pos + 1, env)
            if toks[p2] != ')':
                raise CHelperError('expected )')
            return v, p2 + 1
        if t == 'NULL':
            return ('null', None), pos + 1
        if t.isdigit():
            return ('pos', z3.BitVecVal(int(t), 32)), pos + 1
        if t == 'malloc':
            depth, j = 0, pos + 1
            while True:
                if toks[j] == '(':
                    depth += 1
                elif toks[j] == ')':
                    depth -= 1
                    if depth == 0:
                        break
                j += 1
            inner = ' '.join(toks[pos + 2:j])
            if 'node_t' in inner and 'val_t' not in inner:
                n = self.alloc
                self.alloc += 1
                if n >= 200:
                    raise CHelperError('node budget exceeded')
                return ('node', z3.BitVecVal(n, 8)), j + 1
            return ('valptr', None), j + 1        # storage for a node's value array: contents undefined until memcpy
        if t == 'hash_code':
            j = pos + 2
            if toks[j] != 'h' or toks[j + 1] != ',':
                raise CHelperError('hash_code call')
            arg, p2 = self._eq(toks, j + 2, env)
            if toks[p2] != ')':
                raise CHelperError('hash_code )')
            return self.call_hash(arg), p2 + 1
        # identifier with optional ->field and [index]
        name = t
        pos += 1
        if pos < len(toks) and toks[pos] == '->':
            field = toks[pos + 1]
            pos += 2
            if name == 'h':
                if field == 'size':
                    return ('pos', z3.BitVecVal(self.size, 32)), pos
                if field == 'val_limbs':
                    return ('pos', z3.BitVecVal(self.limbs, 32)), pos
                if field == 'default_value':
                    return ('val', z3.BitVecVal(0, self.W)), pos
                if field == 'list':
                    if toks[pos] != '[':
                        raise CHelperError('h->list without index')
                    idx, p2 = self._eq(toks, pos + 1, env)
                    if toks[p2] != ']':
                        raise CHelperError('h->list ]')
                    return ('node', z3.Select(self.list, idx[1])), p2 + 1
                raise CHelperError('unknown hashmap field %r' % field)
            ptr = env[name]
            if ptr[0] != 'node':
                raise CHelperError('%s->%s on a non-node value' % (name, field))
            if field == 'key':
                return ('key', z3.Select(self.key, ptr[1])), pos
            if field == 'val':
                return ('val', z3.Select(self.val, ptr[1])), pos
            if field == 'next':
                return ('node', z3.Select(self.next, ptr[1])), pos
            raise CHelperError('unknown node field %r' % field)
        if name not in env:
            raise CHelperError('use of undeclared variable %r' % name)
        return env[name], pos

    def call_hash(self, key):
        params, body = self.funcs['hash_code']
        env = {'key': key}
        if body[0] != 'return' or body[-1] != ';':
            raise CHelperError('hash_code body not understood')
        return self.expr(body[1:-1], env)

    # ------------------------------------------------------------ statements (guarded execution)
    def split(self, toks):
        """[(kind, ...)] for one block"""
        out, i, n = [], 0, len(toks)
        while i < n:
            t = toks[i]
            if t == 'for':
                # for (init; cond; step) { body }  ==  init; while (cond) { body; step; }
                j = i + 2
                depth = 1
                while depth:
                    if toks[j] == '(':
                        depth += 1
                    elif toks[j] == ')':
                        depth -= 1
                    j += 1
                head = toks[i + 2:j - 1]
                parts, cur = [], []
                for x in head:
                    if x == ';':
                        parts.append(cur)
                        cur = []
                    else:
                        cur.append(x)
                parts.append(cur)
                if len(parts) != 3 or toks[j] != '{':
                    raise CHelperError('for statement not understood')
                k, depth = j + 1, 1
                while depth:
                    if toks[k] == '{':
                        depth += 1
                    elif toks[k] == '}':
                        depth -= 1
                    k += 1
                if parts[0]:
                    out.append(('simple', parts[0]))
                out.append(('while', parts[1], toks[j + 1:k - 1] + (parts[2] + [';'] if parts[2] else [])))
                i = k
                continue
            if t in ('while', 'if'):
                j = i + 2
                depth = 1
                while depth:
                    if toks[j] == '(':
                        depth += 1
                    elif toks[j] == ')':
                        depth -= 1
                    j += 1
                cond = toks[i + 2:j - 1]
                if toks[j] != '{':
                    raise CHelperError('%s without braces' % t)
                k, depth = j + 1, 1
                while depth:
                    if toks[k] == '{':
                        depth += 1
                    elif toks[k] == '}':
                        depth -= 1
                    k += 1
                out.append((t, cond, toks[j + 1:k - 1]))
                i = k
                continue
            j = i
            while toks[j] != ';':
                j += 1
            out.append(('simple', toks[i:j]))
            i = j + 1
        return out

    def run_block(self, toks, env, guard, ret):
        for st in self.split(toks):
            if st[0] == 'simple':
                guard = self.simple(st[1], env, guard, ret)
            elif st[0] == 'if':
                c = self.expr(st[1], env)
                cb = c[1] if c[0] == 'bool' else (c[1] != 0)
                rem = self.run_block(st[2], env, z3.And(guard, cb), ret)
                guard = z3.Or(z3.And(guard, z3.Not(cb)), rem)
            else:   # while
                g = guard
                exits = []
                for _ in range(self.unroll):
                    c = self.expr(st[1], env)
                    cb = c[1] if c[0] == 'bool' else (c[1] != 0)
                    exits.append(z3.And(g, z3.Not(cb)))
                    g = self.run_block(st[2], env, z3.And(g, cb), ret)
                c = self.expr(st[1], env)
                cb = c[1] if c[0] == 'bool' else (c[1] != 0)
                self.unwinding.append(z3.And(g, cb))
                guard = z3.Or(*exits, z3.And(g, z3.Not(cb)))
        return guard

    def ite(self, g, new, old):
        if old is None or old[1] is None or new[1] is None:
            return new
        a, b = self._unify(new, old)
        return (new[0], z3.If(g, a[1], b[1]))

    def simple(self, toks, env, guard, ret):
        if not toks:
            return guard
        if toks[0] == 'return':
            if len(toks) > 1:
                v = self.expr(toks[1:], env)
                ret['val'] = z3.If(guard, v[1], ret['val']) if ret['val'] is not None else v[1]
            ret['done'] = z3.Or(ret['done'], guard)
            return z3.BoolVal(False)
        if toks[0] == 'memcpy':
            # memcpy(<node>->val, val, sizeof(val_t) * h->val_limbs)
            inner = toks[2:-1]
            c1 = inner.index(',')
            dst, rest = inner[:c1], inner[c1 + 1:]
            c2 = rest.index(',')
            src, size = rest[:c2], ' '.join(rest[c2 + 1:])
            if 'val_limbs' not in size or 'val_t' not in size:
                raise CHelperError('memcpy size %r not understood' % size)
            if len(dst) != 3 or dst[1] != '->' or dst[2] != 'val':
                raise CHelperError('memcpy destination %r not understood' % ' '.join(dst))
            ptr = env[dst[0]]
            srcv = self.expr(src, env)
            self.val = z3.If(guard, z3.Store(self.val, ptr[1], srcv[1]), self.val)
            return guard
        # strip a leading declaration type
        i = 0
        while toks[i] in ('int', 'struct', 'node', 'node_t', 'hashmap_t', 'val_t', 'uint64_t', '*'):
            i += 1
        toks = toks[i:]
        if '=' not in toks:
            return guard        # bare declaration ("int i")
        e = toks.index('=')
        lhs, rhs = toks[:e], toks[e + 1:]
        v = self.expr(rhs, env)
        if len(lhs) == 1:
            env[lhs[0]] = self.ite(guard, v, env.get(lhs[0]))
            return guard
        if lhs[1] == '->' and lhs[0] == 'h' and lhs[2] == 'list':
            idx = self.expr(lhs[4:-1], env)
            nv = v[1] if v[0] != 'null' else z3.BitVecVal(0, 8)
            self.list = z3.If(guard, z3.Store(self.list, idx[1], nv), self.list)
            return guard
        if lhs[1] == '->' and len(lhs) == 3:
            ptr = env[lhs[0]]
            f = lhs[2]
            if f == 'key':
                self.key = z3.If(guard, z3.Store(self.key, ptr[1], v[1]), self.key)
            elif f == 'next':
                nv = v[1] if v[0] != 'null' else z3.BitVecVal(0, 8)
                self.next = z3.If(guard, z3.Store(self.next, ptr[1], nv), self.next)
            elif f == 'val':
                if v[0] != 'valptr':
                    raise CHelperError('assignment to ->val other than fresh storage')
            else:
                raise CHelperError('unknown field store %r' % f)
            return guard
        raise CHelperError('statement not understood: %r' % ' '.join(toks))

    def call(self, name, args):
        params, body = self.funcs[name]
        env = {}
        for p, a in zip(params, args):
            env[p] = a
        ret = {'val': None, 'done': z3.BoolVal(False)}
        self.run_block(body, env, z3.BoolVal(True), ret)
        return ret['val']


def map_obligation(text, limbs, nins=3, unroll=4, keybits=16):
    """returns (goal, assumptions, unwinding conditions, variables) for: lookup after nins inserts == functional map"""
    funcs = extract_functions(text)
    for need in ('create_hash_map', 'hash_code', 'insert', 'lookup'):
        if need not in funcs:
            raise CHelperError('helper function %r not found' % need)
    it = Interp(funcs, limbs, unroll=unroll)
    W = 64 * limbs
    ks = [z3.BitVec('hk%d' % i, 64) for i in range(nins)]
    vs = [z3.BitVec('hv%d' % i, W) for i in range(nins)]
    q = z3.BitVec('hq', 64)
    model = z3.K(KEY, z3.BitVecVal(0, W))
    for k, v in zip(ks, vs):
        it.call('insert', [('h', None), ('key', k), ('val', v)])
        model = z3.Store(model, k, v)
    got = it.call('lookup', [('h', None), ('key', q)])
    assume = [z3.ULT(k, z3.BitVecVal(1 << keybits, 64)) for k in ks + [q]]
    return got == z3.Select(model, q), assume, it.unwinding, {'keys': ks, 'vals': vs, 'q': q}
