"""Bounded symbolic check of the C hash-map helper text emitted by CompiledSimulation._declare_mem_helpers.

vf/ctrans.py models the memories of the generated C as total maps; that is only justified if the helper functions
insert()/lookup() (pointer-chasing heap code) really implement a map. This module gives that fixed text a meaning of its
own: a small guarded symbolic interpreter for exactly the statement forms the helpers use, over a symbolic heap
  node fields   key: node -> BV64,  val: node -> BV(64*limbs) (the array a node owns, as one word),  next: node -> node
  h->list       bucket -> node (0 = NULL),   malloc = next fresh node index
with bounded loop unrolling and an unwinding obligation (a too-small bound is reported, never silently truncated).
The property checked (BMC over a symbolic history): starting from create_hash_map, after insert(k1,v1), insert(k2,v2),
insert(k3,v3) — keys and values symbolic, so every aliasing / bucket-collision pattern is covered — lookup(q) returns
exactly what a functional map (z3 Store chain, default 0) returns, for every q."""
import re
import z3

NODE = z3.BitVecSort(8)
POS = z3.BitVecSort(32)
KEY = z3.BitVecSort(64)


class CHelperError(Exception):
    pass


TOK = re.compile(r'\s*(->|==|!=|\+\+|&&|\|\||[A-Za-z_]\w*|\d+|[-+*/%=<>()\[\]{};,&!])')


def tokenize(s):
    out, i = [], 0
    s = re.sub(r'/\*.*?\*/', ' ', s, flags=re.S)
    s = re.sub(r'//[^\n]*', ' ', s)
    s = s.strip()
    while i < len(s):
        m = TOK.match(s, i)
        if not m:
            raise CHelperError('cannot tokenize %r' % s[i:i + 30])
        out.append(m.group(1))
        i = m.end()
    return out


def extract_functions(text):
    """{name: (params [(type, name)], body tokens)} for the helper functions"""
    start = text.index('typedef uint64_t val_t;')
    # the helper text ends where the ROM tables / memory declarations / step function begin
    ends = [i for i in (text.find('static const uint', start), text.find('EXPORT\nhashmap_t', start),
                        text.find('static void sim_run_step', start)) if i > 0]
    helper = text[start:min(ends)]
    funcs = {}
    for m in re.finditer(r'(?:EXPORT\s+)?([\w\s\*]+?)\s*\*?\s*(\w+)\s*\(([^)]*)\)\s*\{', helper):
        name = m.group(2)
        if name in ('if', 'while', 'for'):
            continue
        depth, j = 1, m.end()
        while depth:
            if helper[j] == '{':
                depth += 1
            elif helper[j] == '}':
                depth -= 1
            j += 1
        params = [p.strip().replace('[]', '').split()[-1].lstrip('*') for p in m.group(3).split(',') if p.strip()]
        funcs[name] = (params, tokenize(helper[m.end():j - 1]))
    return funcs


DEFAULT = 255        # the value-storage id of h->default_value (node n owns value storage n; 0 = NULL)
KNOWN_FIELDS = ('size', 'val_limbs', 'default_value', 'list')


def extra_fields(text):
    """{name: kind} of hashmap_t members other than the four the model knows (a change may add e.g. a lookup cache)"""
    m = re.search(r'typedef\s+struct\s*\w*\s*\{([^}]*)\}\s*hashmap_t\s*;', text)
    out = {}
    if not m:
        raise CHelperError('hashmap_t declaration not found')
    body = re.sub(r'//[^\n]*', ' ', m.group(1))
    for decl in body.split(';'):
        decl = decl.strip()
        if not decl:
            continue
        mm = re.match(r'^([\w\s]+?)\s*(\**)\s*(\w+)$', decl)
        if not mm:
            raise CHelperError('hashmap_t member %r not understood' % decl)
        ty, stars, name = mm.group(1).strip(), mm.group(2), mm.group(3)
        if name in KNOWN_FIELDS:
            continue
        if ty == 'uint64_t' and not stars:
            out[name] = 'key'
        elif ty == 'int' and not stars:
            out[name] = 'pos'
        elif ty == 'val_t' and stars == '*':
            out[name] = 'vptr'
        elif ty in ('node_t', 'struct node') and stars == '*':
            out[name] = 'node'
        else:
            raise CHelperError('hashmap_t member %r has a type outside the recognised subset' % decl)
    return out


def node_key_bits(text):
    """width of the `key` member of node_t as declared (a narrower unsigned type truncates what is stored into it)"""
    m = re.search(r'typedef\s+struct\s+node\s*\{([^}]*)\}\s*node_t\s*;', text)
    if not m:
        raise CHelperError('node_t declaration not found')
    body = re.sub(r'//[^\n]*', ' ', m.group(1))
    for decl in body.split(';'):
        mm = re.match(r'^\s*([\w\s]+?)\s*(\**)\s*(\w+)\s*$', decl)
        if mm and mm.group(3) == 'key':
            ty = ' '.join(mm.group(1).split())
            widths = {'uint64_t': 64, 'uint32_t': 32, 'uint16_t': 16, 'uint8_t': 8, 'unsigned': 32, 'unsigned int': 32,
                      'unsigned long': 64, 'unsigned long long': 64, 'size_t': 64}
            if mm.group(2) or ty not in widths:
                raise CHelperError('node_t member %r has a type outside the recognised subset' % decl.strip())
            return widths[ty]
    raise CHelperError('node_t has no member named key')


class Interp(object):
    def __init__(self, funcs, limbs, size=256, unroll=4, fields=None, keybits=64):
        self.funcs, self.limbs, self.size, self.unroll = funcs, limbs, size, unroll
        self.keybits = keybits
        self.hf = {}
        for name, kind in sorted((fields or {}).items()):
            # malloc'ed and not yet assigned: an arbitrary value
            sort = {'key': 64, 'pos': 32, 'vptr': 8, 'node': 8}[kind]
            self.hf[name] = (kind, z3.BitVec('uninit_h_%s' % name, sort))
        self._brk = []
        self.W = 64 * limbs
        self.key = z3.K(NODE, z3.BitVecVal(0, 64))
        self.val = z3.K(NODE, z3.BitVecVal(0, self.W))
        self.next = z3.K(NODE, z3.BitVecVal(0, 8))
        self.list = z3.K(POS, z3.BitVecVal(0, 8))        # create_hash_map: every bucket NULL
        self.alloc = 1
        self.unwinding = []      # conditions that must be unsatisfiable (loop bound sufficient)
        self.check_create()

    def check_create(self):
        body = ' '.join(self.funcs['create_hash_map'][1])
        need = ['h -> size = size', 'h -> val_limbs = val_limbs', 'h -> list [ i ] = NULL', 'h -> default_value [ i ] = 0']
        for n in need:
            if n not in body:
                raise CHelperError('create_hash_map no longer contains %r: its model (empty buckets, zero default) must be revisited' % n)
        # stores to additional members (top level of create_hash_map only)
        for st in self.split(self.funcs['create_hash_map'][1]):
            if st[0] == 'simple' and len(st[1]) > 4 and st[1][0] == 'h' and st[1][1] == '->' and st[1][2] in self.hf \
                    and st[1][3] == '=':
                self.simple(st[1], {}, z3.BoolVal(True), {'val': None, 'done': z3.BoolVal(False)})

    # ------------------------------------------------------------ expression evaluation
    @staticmethod
    def truth(c):
        return c[1] if c[0] == 'bool' else (c[1] != 0)

    def _or(self, toks, pos, env):
        a, pos = self._and(toks, pos, env)
        while pos < len(toks) and toks[pos] == '||':
            b, pos = self._and(toks, pos + 1, env)
            a = ('bool', z3.Or(self.truth(a), self.truth(b)))
        return a, pos

    def _and(self, toks, pos, env):
        a, pos = self._eq(toks, pos, env)
        while pos < len(toks) and toks[pos] == '&&':
            b, pos = self._eq(toks, pos + 1, env)
            a = ('bool', z3.And(self.truth(a), self.truth(b)))
        return a, pos

    def expr(self, toks, env):
        val, pos = self._or(toks, 0, env)
        if pos != len(toks):
            raise CHelperError('trailing tokens in expression %r' % ' '.join(toks))
        return val

    def _eq(self, toks, pos, env):
        a, pos = self._mod(toks, pos, env)
        while pos < len(toks) and toks[pos] in ('==', '!='):
            op = toks[pos]
            b, pos = self._mod(toks, pos + 1, env)
            a, b = self._unify(a, b)
            a = ('bool', (a[1] == b[1]) if op == '==' else (a[1] != b[1]))
        return a, pos

    def _mod(self, toks, pos, env):
        a, pos = self._prim(toks, pos, env)
        while pos < len(toks) and toks[pos] == '%':
            b, pos = self._prim(toks, pos + 1, env)
            # key % h->size  (uint64 % int -> converted to uint64; result assigned to an int)
            x = a[1] if a[1].size() == 64 else z3.ZeroExt(64 - a[1].size(), a[1])
            y = b[1] if b[1].size() == 64 else z3.ZeroExt(64 - b[1].size(), b[1])
            a = ('pos', z3.Extract(31, 0, z3.URem(x, y)))
        return a, pos

    def _unify(self, a, b):
        if a[0] == 'null':
            a = (b[0], z3.BitVecVal(0, b[1].size()))
        if b[0] == 'null':
            b = (a[0], z3.BitVecVal(0, a[1].size()))
        if a[1].size() != b[1].size():
            w = max(a[1].size(), b[1].size())
            a = (a[0], z3.ZeroExt(w - a[1].size(), a[1]))
            b = (b[0], z3.ZeroExt(w - b[1].size(), b[1]))
        return a, b

    def _prim(self, toks, pos, env):
        t = toks[pos]
        if t == '(':
            # a cast "(node_t *)" / "(val_t *)" / "(hashmap_t *)" or a parenthesised expression
            j = pos + 1
            if toks[j] in ('node_t', 'val_t', 'hashmap_t', 'struct') and ')' in toks[j:j + 4]:
                while toks[j] != ')':
                    j += 1
                return self._prim(toks, j + 1, env)
            v, p2 = self._or(toks, pos + 1, env)
            if toks[p2] != ')':
                raise CHelperError('expected )')
            return v, p2 + 1
        if t == '!':
            v, p2 = self._prim(toks, pos + 1, env)
            return ('bool', z3.Not(self.truth(v))), p2
        if t == 'NULL':
            return ('null', None), pos + 1
        if t.isdigit():
            return ('pos', z3.BitVecVal(int(t), 32)), pos + 1
        if t == 'malloc':
            depth, j = 0, pos + 1
            while True:
                if toks[j] == '(':
                    depth += 1
                elif toks[j] == ')':
                    depth -= 1
                    if depth == 0:
                        break
                j += 1
            inner = ' '.join(toks[pos + 2:j])
            if 'node_t' in inner and 'val_t' not in inner:
                n = self.alloc
                self.alloc += 1
                if n >= 200:
                    raise CHelperError('node budget exceeded')
                return ('node', z3.BitVecVal(n, 8)), j + 1
            return ('valptr', None), j + 1        # storage for a node's value array: contents undefined until memcpy
        if t == 'hash_code':
            j = pos + 2
            if toks[j] != 'h' or toks[j + 1] != ',':
                raise CHelperError('hash_code call')
            arg, p2 = self._eq(toks, j + 2, env)
            if toks[p2] != ')':
                raise CHelperError('hash_code )')
            return self.call_hash(arg), p2 + 1
        # identifier with optional ->field and [index]
        name = t
        pos += 1
        if pos < len(toks) and toks[pos] == '->':
            field = toks[pos + 1]
            pos += 2
            if name == 'h':
                if field == 'size':
                    return ('pos', z3.BitVecVal(self.size, 32)), pos
                if field == 'val_limbs':
                    return ('pos', z3.BitVecVal(self.limbs, 32)), pos
                if field == 'default_value':
                    return ('vptr', z3.BitVecVal(DEFAULT, 8)), pos
                if field in self.hf:
                    return self.hf[field], pos
                if field == 'list':
                    if toks[pos] != '[':
                        raise CHelperError('h->list without index')
                    idx, p2 = self._eq(toks, pos + 1, env)
                    if toks[p2] != ']':
                        raise CHelperError('h->list ]')
                    return ('node', z3.Select(self.list, idx[1])), p2 + 1
                raise CHelperError('unknown hashmap field %r' % field)
            ptr = env[name]
            if ptr[0] != 'node':
                raise CHelperError('%s->%s on a non-node value' % (name, field))
            if field == 'key':
                return ('key', z3.Select(self.key, ptr[1])), pos
            if field == 'val':
                return ('vptr', ptr[1]), pos         # node n owns value storage n
            if field == 'next':
                return ('node', z3.Select(self.next, ptr[1])), pos
            raise CHelperError('unknown node field %r' % field)
        if name not in env:
            raise CHelperError('use of undeclared variable %r' % name)
        return env[name], pos

    def call_hash(self, key):
        params, body = self.funcs['hash_code']
        env = {'key': key}
        if body[0] != 'return' or body[-1] != ';':
            raise CHelperError('hash_code body not understood')
        return self.expr(body[1:-1], env)

    # ------------------------------------------------------------ statements (guarded execution)
    def split(self, toks):
        """[(kind, ...)] for one block"""
        out, i, n = [], 0, len(toks)
        while i < n:
            t = toks[i]
            if t == 'for':
                # for (init; cond; step) { body }  ==  init; while (cond) { body; step; }
                j = i + 2
                depth = 1
                while depth:
                    if toks[j] == '(':
                        depth += 1
                    elif toks[j] == ')':
                        depth -= 1
                    j += 1
                head = toks[i + 2:j - 1]
                parts, cur = [], []
                for x in head:
                    if x == ';':
                        parts.append(cur)
                        cur = []
                    else:
                        cur.append(x)
                parts.append(cur)
                if len(parts) != 3:
                    raise CHelperError('for statement not understood')
                fbody, k = self._body(toks, j)
                if parts[0]:
                    out.append(('simple', parts[0]))
                out.append(('while', parts[1], fbody + (parts[2] + [';'] if parts[2] else [])))
                i = k
                continue
            if t in ('while', 'if'):
                j = i + 2
                depth = 1
                while depth:
                    if toks[j] == '(':
                        depth += 1
                    elif toks[j] == ')':
                        depth -= 1
                    j += 1
                cond = toks[i + 2:j - 1]
                body, k = self._body(toks, j)
                els = []
                if t == 'if' and k < n and toks[k] == 'else':
                    els, k = self._body(toks, k + 1)
                out.append((t, cond, body, els))
                i = k
                continue
            if t in ('else', 'do', 'switch', 'goto', 'continue'):
                raise CHelperError('%s statement outside the recognised subset' % t)
            j = i
            while toks[j] != ';':
                j += 1
            out.append(('simple', toks[i:j]))
            i = j + 1
        return out

    def _body(self, toks, j):
        """(tokens of the statement or block starting at toks[j], index after it)"""
        if toks[j] == '{':
            k, depth = j + 1, 1
            while depth:
                if toks[k] == '{':
                    depth += 1
                elif toks[k] == '}':
                    depth -= 1
                k += 1
            return toks[j + 1:k - 1], k
        if toks[j] in ('if', 'while', 'for'):
            # a nested compound statement without braces: take "<kw> ( ... ) <body> [else <body>]"
            k = j + 2
            depth = 1
            while depth:
                if toks[k] == '(':
                    depth += 1
                elif toks[k] == ')':
                    depth -= 1
                k += 1
            _, k = self._body(toks, k)
            if toks[j] == 'if' and k < len(toks) and toks[k] == 'else':
                _, k = self._body(toks, k + 1)
            return toks[j:k], k
        k = j
        while toks[k] != ';':
            k += 1
        return toks[j:k + 1], k + 1

    def run_block(self, toks, env, guard, ret):
        for st in self.split(toks):
            if st[0] == 'simple':
                guard = self.simple(st[1], env, guard, ret)
            elif st[0] == 'if':
                cb = self.truth(self.expr(st[1], env))
                rem = self.run_block(st[2], env, z3.And(guard, cb), ret)
                rem2 = self.run_block(st[3], env, z3.And(guard, z3.Not(cb)), ret) if st[3] else z3.And(guard, z3.Not(cb))
                guard = z3.Or(rem2, rem)
            else:   # while
                g = guard
                exits = []
                self._brk.append([])
                for _ in range(self.unroll):
                    cb = self.truth(self.expr(st[1], env))
                    exits.append(z3.And(g, z3.Not(cb)))
                    g = self.run_block(st[2], env, z3.And(g, cb), ret)
                cb = self.truth(self.expr(st[1], env))
                self.unwinding.append(z3.And(g, cb))
                guard = z3.Or(*exits, z3.And(g, z3.Not(cb)), *self._brk.pop())
        return guard

    def ite(self, g, new, old):
        if old is None or old[1] is None or new[1] is None:
            return new
        a, b = self._unify(new, old)
        return (new[0], z3.If(g, a[1], b[1]))

    def simple(self, toks, env, guard, ret):
        if not toks:
            return guard
        if toks[0] == 'return':
            if len(toks) > 1:
                v = self.expr(toks[1:], env)
                if ret['val'] is None:
                    ret['val'] = v
                else:
                    a, b = self._unify(v, ret['val'])
                    ret['val'] = (a[0], z3.If(guard, a[1], b[1]))
            ret['done'] = z3.Or(ret['done'], guard)
            return z3.BoolVal(False)
        if toks == ['break']:
            if not self._brk:
                raise CHelperError('break outside a loop')
            self._brk[-1].append(guard)
            return z3.BoolVal(False)
        if toks[0] == 'memcpy':
            # memcpy(<node>->val, val, sizeof(val_t) * h->val_limbs)
            inner = toks[2:-1]
            c1 = inner.index(',')
            dst, rest = inner[:c1], inner[c1 + 1:]
            c2 = rest.index(',')
            src, size = rest[:c2], ' '.join(rest[c2 + 1:])
            if 'val_limbs' not in size or 'val_t' not in size:
                raise CHelperError('memcpy size %r not understood' % size)
            ptr = self.expr(dst, env)
            if ptr[0] != 'vptr':
                raise CHelperError('memcpy destination %r is not value storage' % ' '.join(dst))
            srcv = self.deref(self.expr(src, env))
            self.val = z3.If(guard, z3.Store(self.val, ptr[1], srcv[1]), self.val)
            return guard
        # strip a leading declaration type
        i = 0
        while toks[i] in ('int', 'struct', 'node', 'node_t', 'hashmap_t', 'val_t', 'uint64_t', '*'):
            i += 1
        toks = toks[i:]
        if '=' not in toks:
            return guard        # bare declaration ("int i")
        e = toks.index('=')
        lhs, rhs = toks[:e], toks[e + 1:]
        v = self.expr(rhs, env)
        if len(lhs) == 1:
            env[lhs[0]] = self.ite(guard, v, env.get(lhs[0]))
            return guard
        if lhs[1] == '->' and lhs[0] == 'h' and lhs[2] == 'list':
            idx = self.expr(lhs[4:-1], env)
            nv = v[1] if v[0] != 'null' else z3.BitVecVal(0, 8)
            self.list = z3.If(guard, z3.Store(self.list, idx[1], nv), self.list)
            return guard
        if lhs[1] == '->' and len(lhs) == 3 and lhs[0] == 'h':
            if lhs[2] not in self.hf:
                raise CHelperError('store to hashmap member %r outside create_hash_map' % lhs[2])
            old = self.hf[lhs[2]]
            if v[0] == 'null':
                v = (old[0], z3.BitVecVal(0, old[1].size()))
            if v[0] != old[0] or v[1] is None:
                raise CHelperError('store of a %s to hashmap member %r (%s)' % (v[0], lhs[2], old[0]))
            self.hf[lhs[2]] = (old[0], z3.If(guard, v[1], old[1]))
            return guard
        if lhs[1] == '->' and len(lhs) == 3:
            ptr = env[lhs[0]]
            f = lhs[2]
            if f == 'key':
                kv = v[1] if self.keybits == 64 else z3.ZeroExt(64 - self.keybits, z3.Extract(self.keybits - 1, 0, v[1]))
                self.key = z3.If(guard, z3.Store(self.key, ptr[1], kv), self.key)
            elif f == 'next':
                nv = v[1] if v[0] != 'null' else z3.BitVecVal(0, 8)
                self.next = z3.If(guard, z3.Store(self.next, ptr[1], nv), self.next)
            elif f == 'val':
                if v[0] != 'valptr':
                    raise CHelperError('assignment to ->val other than fresh storage')
            else:
                raise CHelperError('unknown field store %r' % f)
            return guard
        raise CHelperError('statement not understood: %r' % ' '.join(toks))

    def call(self, name, args):
        params, body = self.funcs[name]
        env = {}
        for p, a in zip(params, args):
            env[p] = a
        ret = {'val': None, 'done': z3.BoolVal(False)}
        self.run_block(body, env, z3.BoolVal(True), ret)
        return self.deref(ret['val'])[1] if ret['val'] is not None else None

    def deref(self, v):
        """the word a value pointer designates now (NULL reads as an arbitrary word: undefined behaviour in the real code)"""
        if v[0] == 'vptr':
            return ('val', z3.If(v[1] == 0, z3.BitVec('null_deref', self.W), z3.Select(self.val, v[1])))
        return v


def map_obligation(text, limbs, nins=3, unroll=4, keybits=16, valbits=None):
    """returns (goal, assumptions, unwinding conditions, variables) for the history
         lookup(q0); insert(k1,v1); lookup(q1); insert(k2,v2); lookup(q2); insert(k3,v3); lookup(q3)
    every lookup returning what a functional map (default 0) holds at that moment"""
    funcs = extract_functions(text)
    for need in ('create_hash_map', 'hash_code', 'insert', 'lookup'):
        if need not in funcs:
            raise CHelperError('helper function %r not found' % need)
    it = Interp(funcs, limbs, unroll=unroll, fields=extra_fields(text), keybits=node_key_bits(text))
    W = 64 * limbs
    ks = [z3.BitVec('hk%d' % i, 64) for i in range(nins)]
    vs = [z3.BitVec('hv%d' % i, W) for i in range(nins)]
    qs = [z3.BitVec('hq%d' % i, 64) for i in range(nins + 1)]
    model = z3.K(KEY, z3.BitVecVal(0, W))
    goals = [it.call('lookup', [('h', None), ('key', qs[0])]) == z3.Select(model, qs[0])]
    for i, (k, v) in enumerate(zip(ks, vs)):
        it.call('insert', [('h', None), ('key', k), ('val', v)])
        model = z3.Store(model, k, v)
        goals.append(it.call('lookup', [('h', None), ('key', qs[i + 1])]) == z3.Select(model, qs[i + 1]))
    assume = [z3.ULT(k, z3.BitVecVal(1 << keybits, 64)) for k in ks + qs] if keybits < 64 else []
    if valbits is not None and valbits < W:
        # the words the generated code can pass are bitwidth-limited
        assume += [z3.ULT(v, z3.BitVecVal(1 << valbits, W)) for v in vs]
    return z3.And(*goals), assume, it.unwinding, {'keys': ks, 'vals': vs, 'qs': qs}
