"""Concrete (plain int) execution helpers used by replays: the real simulators without any stub, and the
spec oracle evaluated on numerals."""
import z3
import pyrtl
from . import spec
from .simdrv import mems_of


class ConcreteVars(object):
    """same interface as simdrv.Vars but returns numerals taken from a recorded model"""

    def __init__(self, modelvals):
        self.mv = modelvals

    def inp(self, name, t, width):
        v = self.mv.get('inputs', {}).get(name, {})
        v = v.get(str(t), v.get(t, 0))
        return z3.BitVecVal(v, width)

    def reg(self, name, width):
        return z3.BitVecVal(self.mv.get('regs', {}).get(name, 0), width)

    def mem(self, name, aw, bw):
        arr = z3.K(z3.BitVecSort(aw), z3.BitVecVal(0, bw))
        for a, v in self.mv.get('mems', {}).get(name, {}).items():
            arr = z3.Store(arr, z3.BitVecVal(int(a), aw), z3.BitVecVal(v, bw))
        return arr


def _num(t):
    s = z3.simplify(t)
    return s.as_long()


def spec_concrete(block, K, modelvals, reg_init='sym', mem_init='sym', default_value=0):
    cv = ConcreteVars(modelvals)
    r = spec.run(block, K, cv, reg_init=reg_init, mem_init=mem_init, default_value=default_value)
    trace = {n: [_num(v) for v in vs] for n, vs in r.trace.items()}
    mems = {}
    for net in block.logic_subset('m@'):
        m = net.op_param[1]
        if m.name in r.mems:
            mems[m.name] = {a: _num(z3.Select(r.mems[m.name], z3.BitVecVal(a, m.addrwidth)))
                            for a in range(min(1 << m.addrwidth, 256))}
    return trace, mems


def input_vector(block, modelvals, t):
    ins = {}
    for w in block.wirevector_subset(pyrtl.Input):
        v = modelvals.get('inputs', {}).get(w.name, {})
        ins[w.name] = v.get(str(t), v.get(t, 0))
    return ins


def sim_concrete(block, K, modelvals, kind='sim', reg_init='sym', mem_init='sym', default_value=0,
                 regmap_key=None, memmap_key=None, track='all', catch=None):
    """run the real simulator on plain ints. returns (trace dict name->list, mems dict name->dict, sim)"""
    regmap_key = regmap_key or (lambda r: r)
    from .simdrv import default_memkey
    memmap_key = memmap_key or default_memkey(block)
    rmap, mmap = {}, {}
    if reg_init == 'sym':
        for r in block.wirevector_subset(pyrtl.Register):
            rmap[regmap_key(r)] = modelvals.get('regs', {}).get(r.name, 0)
    mems = mems_of(block)
    if mem_init == 'sym':
        for mid, m in mems.items():
            mmap[memmap_key(m)] = {int(a): v for a, v in modelvals.get('mems', {}).get(m.name, {}).items()}
    if track == 'all':
        tracked = list(block.wirevector_set)
    elif track == 'named':
        tracked = sorted(block.wirevector_subset((pyrtl.Input, pyrtl.Output, pyrtl.Register)), key=lambda w: w.name)
    else:
        tracked = list(block.wirevector_subset((pyrtl.Input, pyrtl.Output)))
    tracer = pyrtl.SimulationTrace(wires_to_track=tracked, block=block)
    if kind == 'sim':
        sim = pyrtl.Simulation(tracer=tracer, register_value_map=rmap, memory_value_map=mmap,
                               default_value=default_value, block=block)
    elif kind == 'fast':
        sim = pyrtl.FastSimulation(tracer=tracer, register_value_map=rmap, memory_value_map=mmap,
                                   default_value=default_value, block=block)
    elif kind == 'compiled':
        sim = pyrtl.CompiledSimulation(tracer=tracer, register_value_map=rmap, memory_value_map=mmap,
                                       default_value=default_value, block=block)
    for t in range(K):
        if catch:
            try:
                sim.step(input_vector(block, modelvals, t))
            except catch:
                pass
        else:
            sim.step(input_vector(block, modelvals, t))
    trace = {w.name: list(tracer.trace[w.name]) for w in tracked if w.name in tracer.trace}
    memout = {}
    for mid, m in mems.items():
        try:
            memout[m.name] = dict(sim.inspect_mem(m))
        except Exception:
            memout[m.name] = {}
    return trace, memout, sim
