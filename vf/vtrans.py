"""ENGINE T2: the Verilog text emitted by output_to_verilog / output_verilog_testbench -> z3 (DESIGN 2.4).

Parses exactly the emitted subset and evaluates it under the IEEE 1364-2001 rules the property names:
  * context-determined width = max(lhs, operands) for + - * & | ^ ~ ?: ; operands zero-extended (all nets unsigned)
  * comparison operands are sized to the larger operand, the 1-bit result is then extended to the lhs
  * concatenations are self-determined; x[i] is a bit select; truncation on assignment
  * unsized decimal literals are integers (exact, the most permissive reading of the >= 32-bit rule)
  * one always @(posedge clk [or posedge rst]) block: non-blocking assignments read pre-edge state; if (rst) ... else ...
  * memories: reg arrays, write blocks with `if (en) mem[a] <= d`, asynchronous reads `assign d = mem[a]`, ROM initial blocks
Written from the standard, deliberately not from importexport.py. Anything outside the subset raises VTransError."""
import re
import z3


class VTransError(Exception):
    pass


def zx(t, w):
    n = t.size()
    if n == w:
        return t
    if n > w:
        return z3.Extract(w - 1, 0, t)
    return z3.ZeroExt(w - n, t)


IDENT = r'[A-Za-z_][A-Za-z0-9_$]*'
# IEEE 1364-2001 Annex B: the reserved keywords (none of them may be used as an identifier)
RESERVED = frozenset('''always and assign automatic begin buf bufif0 bufif1 case casex casez cell cmos config deassign default
defparam design disable edge else end endcase endconfig endfunction endgenerate endmodule endprimitive endspecify endtable endtask
event for force forever fork function generate genvar highz0 highz1 if ifnone incdir include initial inout input instance integer
join large liblist library localparam macromodule medium module nand negedge nmos nor noshowcancelled not notif0 notif1 or output
parameter pmos posedge primitive pull0 pull1 pulldown pullup pulsestyle_onevent pulsestyle_ondetect rcmos real realtime reg release
repeat rnmos rpmos rtran rtranif0 rtranif1 scalared showcancelled signed small specify specparam strong0 strong1 supply0 supply1
table task time tran tranif0 tranif1 tri tri0 tri1 triand trior trireg unsigned use vectored wait wand weak0 weak1 while wire wor
xnor xor'''.split())


class Module(object):
    def __init__(self, text):
        self.text = text
        self.ports = []
        self.inputs, self.outputs, self.regs, self.wires = {}, {}, {}, {}
        self.mems = {}          # name -> (width, size, comment)
        self.rom_init = {}      # name -> {index: value}
        self.assigns = []       # (lhs, expr string)
        self.reg_block = None   # {'async': bool, 'reset': [(reg, value)], 'next': [(reg, src)], 'has_rst': bool}
        self.mem_writes = {}    # mem -> [(en, addr, data)]
        self._parse()

    def width_of(self, name):
        for d in (self.inputs, self.outputs, self.regs, self.wires):
            if name in d:
                return d[name]
        raise VTransError('undeclared identifier %r' % name)

    def _decl(self, kind, rest):
        m = re.match(r'(?:\[(\d+):0\])?\s*(%s)(?:\[(\d+):0\])?;(?:\s*//(.*))?$' % IDENT, rest.strip())
        if not m:
            raise VTransError('cannot read declaration %r' % rest)
        w = int(m.group(1)) + 1 if m.group(1) else 1
        name = m.group(2)
        if name in RESERVED:
            raise VTransError('reserved word %r used as an identifier (not a well-formed module)' % name)
        if len(name) > 1024:
            raise VTransError('identifier longer than 1024 characters (not a well-formed module)')
        if m.group(3) is not None or (kind == 'reg' and name.startswith('mem_') and m.group(4) is not None):
            size = int(m.group(3)) + 1 if m.group(3) is not None else 1
            if name in self.inputs or name in self.outputs or name in self.regs or name in self.wires or name in self.mems:
                raise VTransError('identifier %r declared twice (not a well-formed module)' % name)
            self.mems[name] = (w, size, (m.group(4) or '').strip())
            return
        target = {'input': self.inputs, 'output': self.outputs, 'reg': self.regs, 'wire': self.wires}[kind]
        if name in self.inputs or name in self.outputs or name in self.regs or name in self.wires or name in self.mems:
            raise VTransError('identifier %r declared twice (not a well-formed module)' % name)
        target[name] = w

    def _parse(self):
        lines = [l.rstrip() for l in self.text.split('\n')]
        i, n = 0, len(lines)
        while i < n:
            ln = lines[i].strip()
            i += 1
            if not ln or (ln.startswith('//') and not ln.startswith('// Memory')):
                continue
            if ln.startswith('// Memory'):
                continue
            m = re.match(r'module\s+(\w+)\((.*)\);$', ln)
            if m:
                self.name = m.group(1)
                self.ports = [p.strip() for p in m.group(2).split(',')]
                for p_ in self.ports:
                    if not re.match(IDENT + '$', p_) or p_ in RESERVED:
                        raise VTransError('port %r is not a Verilog-2001 identifier (not a well-formed module)' % p_)
                if len(set(self.ports)) != len(self.ports):
                    raise VTransError('duplicate port names %r (not a well-formed module)' % self.ports)
                continue
            m = re.match(r'(input|output|reg|wire)(.*)$', ln)
            if m and not ln.startswith('initial'):
                self._decl(m.group(1), m.group(2))
                continue
            if ln == 'initial begin':
                while lines[i].strip() != 'end':
                    mm = re.match(r'(mem_\w+)\[(\d+)\]=(\d+)\'h([0-9a-fA-F]+);$', lines[i].strip())
                    if not mm:
                        raise VTransError('cannot read ROM initialisation %r' % lines[i])
                    self.rom_init.setdefault(mm.group(1), {})[int(mm.group(2))] = int(mm.group(4), 16) & ((1 << int(mm.group(3))) - 1)
                    i += 1
                i += 1
                continue
            m = re.match(r'assign\s+(%s)\s*=\s*(.*);$' % IDENT, ln)
            if m:
                self.assigns.append((m.group(1), m.group(2).strip()))
                continue
            m = re.match(r'always @\(posedge clk( or posedge rst)?\)$', ln)
            if m:
                body = []
                if lines[i].strip() != 'begin':
                    raise VTransError('always block without begin')
                depth = 0
                while True:
                    s = lines[i].strip()
                    i += 1
                    depth += len(re.findall(r'\bbegin\b', s)) - len(re.findall(r'\bend\b', s))
                    body.append(s)
                    if depth == 0:
                        break
                self._always(bool(m.group(1)), body)
                continue
            if ln == 'endmodule':
                break
            raise VTransError('cannot read line %r' % ln)
        # clk / rst are declared as plain inputs
        self.inputs.pop('clk', None)
        self.has_rst = 'rst' in self.inputs
        self.inputs.pop('rst', None)

    def _always(self, is_async, body):
        text = ' '.join(body)
        if 'mem_' in text and '<=' in text and re.search(r'mem_\w+\[', text):
            for m in re.finditer(r'if \((%s)\) begin (mem_\w+)\[(%s)\] <= (%s); end' % (IDENT, IDENT, IDENT), text):
                self.mem_writes.setdefault(m.group(2), []).append((m.group(1), m.group(3), m.group(4)))
            rest = re.sub(r'if \((%s)\) begin (mem_\w+)\[(%s)\] <= (%s); end' % (IDENT, IDENT, IDENT), '', text)
            if re.sub(r'\b(begin|end)\b', '', rest).strip():
                raise VTransError('unknown statements in memory block: %r' % rest)
            return
        if self.reg_block is not None:
            raise VTransError('more than one register block')
        rb = {'async': is_async, 'reset': [], 'next': [], 'has_rst': False}
        m = re.match(r'begin if \(rst\) begin (.*?) end else begin (.*?) end end$', text)
        if m:
            rb['has_rst'] = True
            for mm in re.finditer(r'(%s) <= (\d+);' % IDENT, m.group(1)):
                rb['reset'].append((mm.group(1), int(mm.group(2))))
            body2 = m.group(2)
        else:
            m = re.match(r'begin begin (.*?) end end$', text)
            if not m:
                raise VTransError('cannot read register block %r' % text)
            body2 = m.group(1)
        for mm in re.finditer(r'(%s) <= (%s);' % (IDENT, IDENT), body2):
            rb['next'].append((mm.group(1), mm.group(2)))
        if len(re.findall(r'<=', body2)) != len(rb['next']):
            raise VTransError('unknown statement in register block %r' % body2)
        if is_async and not rb['has_rst']:
            raise VTransError('asynchronous sensitivity list without a reset branch')
        self.reg_block = rb

    # ---------------------------------------------------------------- expressions
    def _operand(self, tok, env):
        tok = tok.strip()
        if re.match(r'\d+$', tok):
            v = int(tok)
            return ('lit', v)
        m = re.match(r'(\d+)\'([dhb])([0-9a-fA-F]+)$', tok)
        if m:
            w = int(m.group(1))
            v = int(m.group(3), {'d': 10, 'h': 16, 'b': 2}[m.group(2)])
            return ('bv', z3.BitVecVal(v & ((1 << w) - 1), w))
        m = re.match(r'(%s)\[(\d+)\]$' % IDENT, tok)
        if m:
            base = env[m.group(1)]
            k = int(m.group(2))
            if k >= base.size():
                raise VTransError('bit select %s out of range' % tok)
            return ('bv', z3.Extract(k, k, base))
        if re.match(IDENT + '$', tok):
            if tok not in env:
                raise VTransError('use of %r before its value is known' % tok)
            return ('bv', env[tok])
        raise VTransError('cannot read operand %r' % tok)

    def _sized(self, op, w):
        kind, v = op
        if kind == 'lit':
            return z3.BitVecVal(v & ((1 << w) - 1), w)
        return zx(v, w)

    def _selfw(self, op):
        kind, v = op
        if kind == 'lit':
            return max(32, v.bit_length())
        return v.size()

    def eval_expr(self, expr, lw, env, mems):
        expr = expr.strip()
        m = re.match(r'\{(.*)\}$', expr)
        if m:
            parts = []
            for p in m.group(1).split(','):
                op = self._operand(p, env)
                if op[0] == 'lit':
                    raise VTransError('unsized literal inside a concatenation')
                parts.append(op[1])
            r = z3.Concat(*parts) if len(parts) > 1 else parts[0]
            return zx(r, lw)
        m = re.match(r'(mem_\w+)\[(%s)\]$' % IDENT, expr)
        if m:
            name, idx = m.group(1), env[m.group(2)]
            w, size, _ = self.mems[name]
            aw = max(1, (size - 1).bit_length())
            return zx(z3.Select(mems[name], zx(idx, aw)), lw)
        m = re.match(r'(%s) \? (\S+) : (\S+)$' % IDENT, expr)
        if m:
            c = env[m.group(1)]
            a, b = self._operand(m.group(2), env), self._operand(m.group(3), env)
            w = max(lw, self._selfw(a), self._selfw(b))
            return zx(z3.If(c != 0, self._sized(a, w), self._sized(b, w)), lw)
        m = re.match(r'(\S+) (==|<|>|\+|-|\*|&|\||\^) (\S+)$', expr)
        if m:
            a, op, b = self._operand(m.group(1), env), m.group(2), self._operand(m.group(3), env)
            if op in ('==', '<', '>'):
                w = max(self._selfw(a), self._selfw(b))
                x, y = self._sized(a, w), self._sized(b, w)
                c = {'==': x == y, '<': z3.ULT(x, y), '>': z3.UGT(x, y)}[op]
                return zx(z3.If(c, z3.BitVecVal(1, 1), z3.BitVecVal(0, 1)), lw)
            w = max(lw, self._selfw(a), self._selfw(b))
            x, y = self._sized(a, w), self._sized(b, w)
            r = {'+': x + y, '-': x - y, '*': x * y, '&': x & y, '|': x | y, '^': x ^ y}[op]
            return zx(r, lw)
        m = re.match(r'~(\S+)$', expr)
        if m:
            a = self._operand(m.group(1), env)
            w = max(lw, self._selfw(a))
            return zx(~self._sized(a, w), lw)
        op = self._operand(expr, env)
        w = max(lw, self._selfw(op))
        return zx(self._sized(op, w), lw)

    # ---------------------------------------------------------------- one clock cycle
    def initial_mems(self, free):
        """{mem: array}; ROM contents from the initial blocks, other memories from free(name, aw, w)"""
        out = {}
        for name, (w, size, _) in self.mems.items():
            aw = max(1, (size - 1).bit_length())
            if name in self.rom_init:
                # words the initial block does not assign are x in Verilog: an arbitrary (unconstrained) value here
                arr = z3.Array('uninit_%s' % name, z3.BitVecSort(aw), z3.BitVecSort(w))
                for k, val in self.rom_init[name].items():
                    arr = z3.Store(arr, z3.BitVecVal(k, aw), z3.BitVecVal(val, w))
                out[name] = arr
            else:
                out[name] = free(name, aw, w)
        return out

    def step(self, inputs, regs, mems, rst=None):
        """inputs/regs: {name: BitVec}; mems: {name: Array}; rst: BitVec(1) or None. returns (values, next regs, next mems)"""
        env = {}
        for nme, w in self.inputs.items():
            env[nme] = zx(inputs[nme], w)
        for nme, w in self.regs.items():
            env[nme] = zx(regs[nme], w)
        if rst is not None:
            env['rst'] = rst
        pending = list(self.assigns)
        lhs_seen = set()
        for lhs, _ in pending:
            if lhs in lhs_seen:
                raise VTransError('two continuous assignments to %r' % lhs)
            lhs_seen.add(lhs)
        progress = True
        while pending and progress:
            progress = False
            rest = []
            for lhs, expr in pending:
                try:
                    val = self.eval_expr(expr, self.width_of(lhs), env, mems)
                except VTransError as e:
                    if 'before its value is known' in str(e):
                        rest.append((lhs, expr))
                        continue
                    raise
                except KeyError:
                    rest.append((lhs, expr))
                    continue
                env[lhs] = val
                progress = True
            pending = rest
        if pending:
            raise VTransError('combinational loop or undriven wires: %r' % [l for l, _ in pending])
        nregs = dict((k, env[k]) for k in self.regs)
        if self.reg_block is not None:
            rb = self.reg_block
            for reg, src in rb['next']:
                nxt = zx(env[src], self.regs[reg])
                if rb['has_rst'] and rst is not None:
                    rv = dict(rb['reset']).get(reg)
                    if rv is None:
                        raise VTransError('register %r has no reset assignment' % reg)
                    nxt = z3.If(rst == 1, z3.BitVecVal(rv & ((1 << self.regs[reg]) - 1), self.regs[reg]), nxt)
                nregs[reg] = nxt
        nmems = dict(mems)
        for name, writes in self.mem_writes.items():
            w, size, _ = self.mems[name]
            aw = max(1, (size - 1).bit_length())
            arr = mems[name]
            for en, addr, data in writes:      # non-blocking: all right-hand sides read pre-edge values; later assignments win
                arr = z3.If(env[en] != 0, z3.Store(arr, zx(env[addr], aw), zx(env[data], w)), arr)
            nmems[name] = arr
        return env, nregs, nmems


# ------------------------------------------------------------------------------------------

class Testbench(object):
    def __init__(self, text, placeholders=None):
        self.regs = {}         # reg name -> value
        self.mem_default = {}  # mem name -> default value
        self.mem_words = {}    # mem name -> {index: value}
        self.cycles = []       # [{input name: (width, value token)}]
        self.rst0 = False
        self.ports = []
        cur = {}
        started = False
        # every name declared in the scope of module tb() (reg / wire / integer declarations and the instance name) is
        # declared once and is not a reserved word
        declared = []
        for raw in text.split('\n'):
            ln = raw.strip()
            m = re.match(r'(?:reg|wire|integer)\s*(?:\[\d+:0\])?\s*(%s);$' % IDENT, ln)
            if m:
                declared.append(m.group(1))
            m = re.match(r'toplevel (%s)\(' % IDENT, ln)
            if m:
                declared.append(m.group(1))
            if ln.startswith('initial') or ln.startswith('always'):
                break
        dup = sorted({n for n in declared if declared.count(n) > 1})
        if dup:
            raise VTransError('testbench declares %r more than once (not a well-formed module)' % dup)
        bad = [n for n in declared if n in RESERVED]
        if bad:
            raise VTransError('testbench uses reserved words %r as identifiers' % bad)
        for raw in text.split('\n'):
            ln = raw.strip()
            m = re.match(r'toplevel block\((.*)\);$', ln)
            if m:
                self.ports = re.findall(r'\.(%s)\(\1\)' % IDENT, m.group(1))
                continue
            m = re.match(r'block\.(%s) = (-?\d+);$' % IDENT, ln)
            if m:
                self.regs[m.group(1)] = int(m.group(2))
                continue
            m = re.match(r'for \(tb_iter = 0; tb_iter < (\d+); tb_iter\+\+\) begin block\.(mem_\w+)\[tb_iter\] = (-?\d+); end$', ln)
            if m:
                self.mem_default[m.group(2)] = (int(m.group(1)), int(m.group(3)))
                continue
            m = re.match(r'block\.(mem_\w+)\[(\d+)\] = (-?\d+);$', ln)
            if m:
                self.mem_words.setdefault(m.group(1), {})[int(m.group(2))] = int(m.group(3))
                continue
            if ln == 'rst = 0;':
                self.rst0 = True
                continue
            m = re.match(r'(%s) = (\d+)\'d(.+);$' % IDENT, ln)
            if m:
                cur[m.group(1)] = (int(m.group(2)), m.group(3))
                started = True
                continue
            if ln == '#10':
                self.cycles.append(cur)
                cur = {}
