"""C01 — Simulation computes the documented cycle semantics of every primitive.

Real code run symbolically: Simulation.__init__/_initialize/step/_execute/_mem_update/_sanitize, the
simple_func lambdas, SimulationTrace.add_step, RomBlock._get_read_data. Oracle: vf/spec.py.
Values (inputs per cycle, initial registers, initial memory words) are solver variables."""
import z3
import pyrtl
from .. import designs, spec, sym, simdrv, concrete
from ..simdrv import Vars, run_sim, sym_env
from ..sym import to_bv, to_cond, is_sym

PROP = 'C01'
LEVEL = 'model_checking'
ASSUMPTIONS = [
    'inputs constrained only by the documented precondition 0 <= v < 2^bitwidth (bit-vector variables of that width)',
    'two enabled writes to the same address in one cycle are excluded (documented as undefined)',
    'stubs: bin/len/int in pyrtl.simulation (SymNumeral contract), merged() around simple_func lambdas and _mem_update, '
    'symbolic-address table for RomBlock.data; CPython digit generation trusted',
    'oracle vf/spec.py is the trusted transcription of the Block docstring',
]


def bounds(tier):
    if tier == 'quick':
        return {'OP widths': designs.WQ, 'EXPR designs': 40, 'EXPR nets': 8, 'K': 3, 'default_value': [0, 1],
                'mul_max': 8}
    return {'OP widths': designs.WT, 'EXPR designs': 400, 'EXPR nets': '8..30', 'K': 6, 'default_value': [0, 1],
            'mul_max': 16}


def cases(tier, seed):
    out = []
    if tier == 'quick':
        for c in designs.op_cases(designs.WQ, mul_max=8):
            out.append(dict(c, K=2, cfg='sym'))
        for c in designs.op_cases([1, 3, 8], ops='w+-x', dests=('reg',)):
            out.append(dict(c, K=3, cfg='reset', default_value=1))
            out.append(dict(c, K=3, cfg='reset', default_value=0, reset=(1 << c['wd']) - 1))
        for c in designs.expr_cases(40, seed, n=8):
            out.append(dict(c, K=3, cfg='sym'))
        for c in designs.expr_cases(10, seed + 1, n=8):
            out.append(dict(c, K=3, cfg='reset', default_value=1))
        for c in designs.seq_cases():
            out.append(dict(c, K=3, cfg='sym'))
            out.append(dict(c, K=3, cfg='reset', default_value=0))
            if 'mem' in c['kind']:
                out.append(dict(c, K=3, cfg='reset', default_value=1))     # (a default every register can hold)
        for c in designs.misc_cases():
            if 'mem' in c.get('kind', ''):
                out.append(dict(c, K=3, cfg='reset', default_value=1))
        for c in designs.misc_cases() + designs.dup_cases()[:6] + designs.constop_cases()[:30] + designs.carg_cases():
            out.append(dict(c, K=3, cfg='sym'))
    else:
        for c in designs.op_cases(designs.WT, mul_max=16):
            out.append(dict(c, K=2, cfg='sym'))
        for c in designs.op_cases(designs.WQ + [64, 65], ops='w~+-x&', dests=('reg',)):
            out.append(dict(c, K=4, cfg='reset', default_value=1))
            out.append(dict(c, K=4, cfg='reset', default_value=0, reset=(1 << c['wd']) - 1))
        for i, c in enumerate(designs.expr_cases(400, seed, n=8)):
            c['n'] = 8 + (i % 23)
            out.append(dict(c, K=6 if i % 4 == 0 else 4, cfg='sym'))
        for c in designs.expr_cases(60, seed + 1, n=12):
            out.append(dict(c, K=4, cfg='reset', default_value=1))
        for c in designs.seq_cases(widths=(1, 4, 8, 65)):
            out.append(dict(c, K=6, cfg='sym'))
            out.append(dict(c, K=6, cfg='reset', default_value=0))
            out.append(dict(c, K=6, cfg='reset', default_value=1))
        for c in designs.misc_cases() + designs.dup_cases() + designs.constop_cases() + designs.carg_cases((1, 3, 8)):
            out.append(dict(c, K=4, cfg='sym'))
            out.append(dict(c, K=4, cfg='reset', default_value=1))
    for kind in ('reg', 'input'):
        out.append({'fam': 'ASSERTD', 'kind': kind, 'K': 3 if tier == 'quick' else 5, 'cfg': 'sym'})
        out.append({'fam': 'ASSERTD', 'kind': kind, 'K': 3 if tier == 'quick' else 5, 'cfg': 'reset', 'default_value': 0})
    return out


class VfAssert(Exception):
    pass


def build_assertd(d):
    """a design with an rtl_assert that some input sequences trip: a caller that catches the exception and goes on stepping
    still sees the documented cycle semantics (the failing cycle is complete: traced, latched, written)"""
    a = pyrtl.Input(2, 'a')
    cnt = pyrtl.Register(3, 'cnt')
    cnt.next <<= cnt + a
    m = pyrtl.MemBlock(bitwidth=3, addrwidth=2, name='m', asynchronous=True)
    m[a] <<= cnt
    o = pyrtl.Output(3, 'o')
    o <<= m[cnt[0:2]] ^ cnt
    ok = pyrtl.WireVector(1, 'ok')
    ok <<= (cnt != 2) if d['kind'] == 'reg' else (a != 3)
    pyrtl.rtl_assert(ok, VfAssert('tripped'))
    return pyrtl.working_block()


designs.register_family('ASSERTD', build_assertd)


def _cfg(case):
    if case['cfg'] == 'sym':
        return dict(reg_init='sym', mem_init='sym', default_value=0)
    return dict(reg_init='reset', mem_init='default', default_value=case.get('default_value', 0))


def run_case(case, ob, tier):
    block = designs.build(case)
    K = case['K']
    # ROM instances that build_new_roms created behind the scenes are the ROM the user declared (the oracle below reads each
    # instance's own attributes, so a copy that differs from its original would otherwise be taken at its word)
    groups = {}
    for n_ in block.logic_subset('m'):
        m_ = n_.op_param[1]
        if isinstance(m_, pyrtl.RomBlock):
            groups.setdefault(m_.name, {})[id(m_)] = m_
    for name_, ms_ in groups.items():
        if len(ms_) > 1:
            sig_ = {(m_.bitwidth, m_.addrwidth, m_.asynchronous, m_.pad_with_zeros, id(m_.data)) for m_ in ms_.values()}
            ob.fact('further-ROM-instances-equal-the-declared-ROM:%s' % name_, len(sig_) == 1, 'C01:%s:rom-instances' % _site(case),
                    detail=sorted(map(str, sig_)))
    v = Vars()
    cfg = _cfg(case)
    sp = spec.run(block, K, v, **cfg)
    assume = [z3.Not(dw) for dw in sp.double_write]
    site0 = 'C01:%s' % _site(case)
    if assume:
        s0 = z3.Solver()
        s0.add(*assume)
        if s0.check() == z3.unsat:
            ob.notes.append('design always writes one address twice per cycle (documented undefined): skipped')
            ob.fact('skipped-double-write-design', True)
            return

    def after(sim, t):
        return {w.name: sim.inspect(w.name) for w in block.wirevector_set}
    with sym_env([block]):
        results = run_sim(block, K, v, kind='sim', after_step=after, assumptions=assume,
                          catch=(VfAssert,) if case.get('fam') == 'ASSERTD' else None, **cfg)
    ob.paths += len(results)
    fault = z3.Or(*sp.faults) if sp.faults else z3.BoolVal(False)
    for r in results:
        pc = assume + r.pc
        if r.exc is not None:
            # a raising path must be explained by a documented fault (ROM hole); with legal inputs: none
            ob.prove('no-unexpected-exception:%s' % type(r.exc).__name__, fault, pc, v, site=site0 + ':exception',
                     vacuity=False)
            continue
        goals = []
        for w in sorted(block.wirevector_set, key=lambda w: w.name):
            vals = r.trace[w.name]
            if len(vals) != K:
                ob.fact('trace-length:%s' % w.name, False, site=site0 + ':trace-length')
                continue
            for t in range(K):
                x = vals[t]
                goals.append(('value:%s@%d' % (w.name, t), to_bv(x, w.bitwidth) == sp.trace[w.name][t],
                              site0 + ':value'))
                if is_sym(x):
                    if x.lo < 0 or x.hi > w.bitmask:
                        goals.append(('range:%s@%d' % (w.name, t), z3.And(to_cond(x >= 0), to_cond(x <= w.bitmask)),
                                      site0 + ':range'))
                elif not (0 <= x <= w.bitmask):
                    goals.append(('range:%s@%d' % (w.name, t), z3.BoolVal(False), site0 + ':range'))
                ins = r.extra[t][w.name]
                goals.append(('inspect:%s@%d' % (w.name, t), to_bv(ins, w.bitwidth + 2) == to_bv(x, w.bitwidth + 2),
                              site0 + ':inspect'))
        for name, arr in r.mems.items():
            goals.append(('mem:%s' % name, arr == sp.mems[name], site0 + ':mem'))
        for name, val in r.regs_next.items():
            w = block.wirevector_by_name[name]
            goals.append(('regnext:%s' % name, to_bv(val, w.bitwidth + 1) == z3.ZeroExt(1, sp.regs_next[name]),
                          site0 + ':regnext'))
        prove_all(ob, goals, pc, v)


def prove_all(ob, goals, assumptions, v, vacuity=True):
    ob.prove_all(goals, assumptions, v, vacuity)


def _site(case):
    if case['fam'] == 'OP':
        return 'OP:op=%s' % case['op']
    if case['fam'] == 'SEQ':
        return 'SEQ:%s' % case['kind']
    return case['fam']


def replay(cex):
    case = cex['case']
    block = designs.build(case)
    cfg = _cfg(case)
    K = case['K']
    mv = cex.get('model', {})
    if cex.get('structural') and 'ROM-instances' in cex.get('obligation', ''):
        groups = {}
        for n_ in block.logic_subset('m'):
            m_ = n_.op_param[1]
            if isinstance(m_, pyrtl.RomBlock):
                groups.setdefault(m_.name, {})[id(m_)] = m_
        bad = []
        for name_, ms_ in groups.items():
            sig_ = {(m_.bitwidth, m_.addrwidth, m_.asynchronous, m_.pad_with_zeros, id(m_.data)) for m_ in ms_.values()}
            if len(sig_) > 1:
                bad.append('ROM %s: the instances made for further read ports differ from the declared one in (bitwidth, addrwidth, '
                           'asynchronous, pad_with_zeros, data identity): %s' % (name_, sorted(map(str, sig_))))
        return bool(bad), '\n'.join(bad)
    try:
        trace, mems, sim = concrete.sim_concrete(block, K, mv, kind='sim',
                                                 catch=(VfAssert,) if case.get('fam') == 'ASSERTD' else None, **cfg)
    except Exception as e:
        return True, 'real Simulation raised %r on legal inputs %r' % (e, mv)
    etrace, emems = concrete.spec_concrete(block, K, mv, **cfg)
    diffs = []
    for name, vals in trace.items():
        w = block.wirevector_by_name[name]
        for t, x in enumerate(vals):
            if x != etrace[name][t]:
                diffs.append('%s@%d: Simulation=%d documented=%d' % (name, t, x, etrace[name][t]))
            if not (0 <= x <= w.bitmask):
                diffs.append('%s@%d: value %d outside [0, 2^%d)' % (name, t, x, w.bitwidth))
    for name, d in mems.items():
        for a, x in emems.get(name, {}).items():
            if d.get(a, cfg['default_value']) != x:
                diffs.append('mem %s[%d]: Simulation=%r documented=%d' % (name, a, d.get(a), x))
    return bool(diffs), 'case=%r\ninputs=%r\n%s' % (case, mv, '\n'.join(diffs[:20]))
