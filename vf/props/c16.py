"""C16 — value conversion helpers are range-exact and mutually inverse.

Real code run symbolically (engine S directly on the scalar helpers, value = signed solver variable):
infer_val_and_bitwidth/_convert_int/_convert_bool/_convert_verilog_str, Const.__init__, val_to_signed_integer,
formatted_str_to_val, val_to_formatted_str, bitpattern_to_val (+ match_bitpattern circuit), libutils.twos_comp_repr /
rev_twos_comp_repr. Explicit bitwidths are enumerated; an absent bitwidth is inferred by the code from the symbolic
value (shifts by a symbolic amount)."""
import enum
import itertools
import z3
import pyrtl
from pyrtl import helperfuncs as H
from pyrtl.rtllib import libutils
from .. import sym, gencheck
from ..sym import SymInt, SymBool, SymNumeral, explore, to_bv, to_cond, is_sym, stubs

PROP = 'C16'
LEVEL = 'model_checking'
VW = 26          # value variable: signed VW-bit
ASSUMPTIONS = [
    'value is a signed %d-bit solver variable (all values); explicit bitwidths 1..24 are enumerated' % VW,
    'stubs in pyrtl.helperfuncs: bin/hex/str/len/int (SymNumeral contract: canonical spelling only; int(numeral, base) '
    'inverts it); str(bit) forks on the bit in bitpattern_to_val',
    'Verilog-style strings are constructed from (sign, bitwidth, base, symbolic digits value): canonical spelling only '
    '(no leading zeros / underscores / upper case / whitespace) — non-canonical spellings are outside the claim',
    'representable: unsigned 0 <= v < 2^b; signed -2^(b-1) <= v < 2^(b-1); a negative value with an explicit bitwidth is '
    'accepted iff -2^(b-1) <= v (docstring: negative constants require signed=True or a specified bitwidth)',
]


class _E(enum.IntEnum):
    A = 0
    B = 5
    C = 12
    D = 15


def sym_str(x=''):
    if isinstance(x, SymBool):
        x = x.as_int()
    if isinstance(x, SymInt):
        return SymNumeral(x, 10, '')
    return str(x)


def sym_str_bit(x=''):
    if isinstance(x, SymBool):
        x = x.as_int()
    if isinstance(x, SymInt) and x.lo >= 0 and x.hi <= 1:
        return '1' if bool(x == 1) else '0'      # a real branch: one path per bit value
    return sym_str(x)


class SymVStr(object):
    """a Verilog-style constant string [-]<bitwidth>'<base><digits> whose digits denote a symbolic value"""

    def __init__(self, neg, bitwidth, base, value):
        self.neg, self.bitwidth, self.base, self.value = neg, bitwidth, base, value

    def startswith(self, s):
        return self.neg if s == '-' else False

    def __getitem__(self, sl):
        if isinstance(sl, slice) and sl.start == 1 and sl.stop is None and self.neg:
            return SymVStr(False, self.bitwidth, self.base, self.value)
        raise sym.Concretization('unsupported indexing of a symbolic verilog string')

    def lower(self):
        return self

    def split(self, sep):
        if sep != "'":
            raise sym.Concretization('unsupported split')
        return [str(self.bitwidth), _SymDigits(self.base, self.value)]


class _SymDigits(object):
    LET = {2: 'b', 8: 'o', 10: 'd', 16: 'h'}

    def __init__(self, base, value, with_prefix=True):
        self.base, self.value, self.with_prefix = base, value, with_prefix

    def __getitem__(self, i):
        if i == 0:
            return self.LET[self.base] if self.with_prefix else '1'
        if isinstance(i, slice) and i.start == 1 and i.stop is None:
            return _SymDigits(self.base, self.value, False)
        raise sym.Concretization('unsupported indexing of symbolic digits')

    def replace(self, a, b):
        return self


class _vint(sym.sym_int):
    def __new__(cls, x=0, *a):
        if isinstance(x, _SymDigits):
            base = a[0] if a else 10
            if base != x.base:
                raise ValueError('digits of base %d parsed with base %d' % (x.base, base))
            return x.value
        if isinstance(x, SymNumeral):
            base = a[0] if a else 10
            if base != x.base:
                raise sym.Concretization('numeral of base %d parsed with base %d' % (x.base, base))
            return x.x
        return sym.sym_int.__new__(cls, x, *a)


class _SymRangeMeta(type):
    def __instancecheck__(cls, inst):
        return isinstance(inst, range)


class sym_range(metaclass=_SymRangeMeta):
    """stands in for `range` inside pyrtl.helperfuncs: membership of a symbolic integer is a solver condition (the builtin would
    compare it with every element in turn); everything else behaves like the builtin"""
    def __new__(cls, *a):
        r = range(*a)
        self = object.__new__(cls)
        self.r = r
        return self

    def __contains__(self, x):
        r = self.r
        if not sym.is_sym(x):
            return x in r
        if r.step == 1:
            return (x >= r.start) & (x < r.stop) if len(r) else False
        if r.step > 0:
            return (x >= r.start) & (x < r.stop) & (((x - r.start) % r.step) == 0) if len(r) else False
        return (x <= r.start) & (x > r.stop) & (((r.start - x) % (-r.step)) == 0) if len(r) else False

    def __iter__(self):
        return iter(self.r)

    def __len__(self):
        return len(self.r)

    def __getitem__(self, i):
        return self.r[i]

    def __reversed__(self):
        return reversed(self.r)


def henv(bitstr=False):
    return stubs(H, bin=sym.sym_bin, hex=sym.sym_hex, len=sym.sym_len, int=_vint, str=sym_str_bit if bitstr else sym_str,
                 range=sym_range)


def valvar(name='v', w=VW):
    return SymInt(z3.BitVec(name, w), True)


def representable(v, b, signed):
    """z3 Bool: the documented acceptance predicate for an int value with explicit bitwidth b"""
    lo_s, hi_s = -(1 << (b - 1)), (1 << (b - 1)) - 1
    if signed:
        return z3.And(to_cond(v >= lo_s), to_cond(v <= hi_s))
    return z3.And(to_cond(v >= lo_s), to_cond(v <= (1 << b) - 1))


def min_width(v, signed):
    """SymInt: documented minimal bitwidth when none is given (only on accepted values)"""
    bl_pos = v.bit_length() if is_sym(v) else int(v).bit_length()
    pos = sym.ite(v == 0, 1, bl_pos + (1 if signed else 0))
    negw = sym.ite(v == -1, 1, (~v).bit_length() + 1)
    return sym.ite(v >= 0, pos, negw)


def check_paths(ob, name, paths, site, v_term, accept_pred, result_goal, want_exc=pyrtl.PyrtlError, signed_var=True,
                classify=None):
    """accepted path => accept_pred and result_goal(result); PyrtlError path => not accept_pred; other exception = violation"""
    for p in paths:
        pc = p.pc
        def ex(m, _kind=[None]):
            val = (m.eval(v_term, model_completion=True).as_signed_long() if signed_var
                   else m.eval(v_term, model_completion=True).as_long())
            return {'value': val}
        if p.exc is None:
            ob.prove(name + ':accepted-only-if-representable', accept_pred, pc, None, site=site + ':accepts-unrepresentable', extract=ex)
            for gname, g in result_goal(p.result):
                ob.prove(name + ':' + gname, g, pc, None, site=site + ':' + gname, extract=ex)
        elif isinstance(p.exc, want_exc):
            if classify is not None:
                # split the obligation along the harness's classification so that distinct failing inputs get distinct sites
                for suffix, cond in classify:
                    ob.prove(name + ':rejected-only-if-not-representable' + suffix, z3.Implies(cond, z3.Not(accept_pred)), pc, None,
                             site=site + ':rejects-representable' + suffix, extract=ex)
            else:
                ob.prove(name + ':rejected-only-if-not-representable', z3.Not(accept_pred), pc, None,
                         site=site + ':rejects-representable', extract=ex)
        else:
            ob.prove(name + ':raises-only-PyrtlError(%s)' % type(p.exc).__name__, z3.Not(p.cond()), [], None,
                     site=site + ':wrong-exception', extract=ex)
    ob.paths += len(paths)


def do_infer(case, ob, site):
    b, signed = case['b'], case['signed']
    v = valvar()
    with henv():
        paths = explore(lambda: H.infer_val_and_bitwidth(v, bitwidth=b, signed=signed))
    if b is not None:
        acc = representable(v, b, signed)
    else:
        acc = z3.BoolVal(True) if signed else to_cond(v >= 0)

    def goals(res):
        val, bw = res
        out = []
        if b is not None:
            out.append(('bitwidth', to_cond(bw == b)))
            bwc = b
            out.append(('encoding', to_bv(val, VW + 2) == (to_bv(v, VW + 2) & ((1 << b) - 1))))
            dec = H.val_to_signed_integer(val, b)
            if signed:
                out.append(('val_to_signed_integer-inverts', to_cond(dec == v)))
            else:
                out.append(('val_to_signed_integer-inverts-negatives', z3.Implies(to_cond(v < 0), to_cond(dec == v))))
        else:
            mw = min_width(v, signed)
            out.append(('minimal-bitwidth', to_cond(bw == mw)))
            m = (1 << bw) - 1 if not is_sym(bw) else ((1 << bw) - 1)
            out.append(('encoding', to_cond(val == (v & m))))
            out.append(('value-in-range', z3.And(to_cond(val >= 0), to_cond(val <= m))))
            if signed:
                with henv():
                    dp = explore(lambda: H.val_to_signed_integer(val, bw), assumptions=[])
                for q in dp:
                    if q.exc is None:
                        out.append(('val_to_signed_integer-inverts', z3.Implies(q.cond(), to_cond(q.result == v))))
        return out
    check_paths(ob, 'infer(b=%s,signed=%s)' % (b, signed), paths, site, v.t, acc, goals)
    witness_pass(case, ob, site, v, acc)


def do_const(case, ob, site):
    b, signed = case['b'], case['signed']
    v = valvar()
    pyrtl.reset_working_block()
    with henv():
        paths = explore(lambda: (lambda c: (c.val, c.bitwidth))(pyrtl.Const(v, bitwidth=b, signed=signed)))
    acc = representable(v, b, signed) if b is not None else (z3.BoolVal(True) if signed else to_cond(v >= 0))

    def goals(res):
        val, bw = res
        if b is not None:
            return [('stores-encoding', to_bv(val, VW + 2) == (to_bv(v, VW + 2) & ((1 << b) - 1))), ('bitwidth', to_cond(bw == b))]
        return [('stores-encoding', to_cond(val == (v & ((1 << bw) - 1)))), ('bitwidth', to_cond(bw == min_width(v, signed)))]
    check_paths(ob, 'Const(b=%s,signed=%s)' % (b, signed), paths, site, v.t, acc, goals)
    witness_pass(case, ob, site, v, acc)


def boundary_witnesses(v, acc):
    """solver-chosen plain-int witnesses at every boundary of the acceptance predicate (accepted next to rejected), plus 0, +-1"""
    out = {0, 1, -1}
    vt = v.t
    one = z3.BitVecVal(1, vt.size())
    for f in (z3.And(acc, z3.Not(z3.substitute(acc, (vt, vt + one))), vt < (1 << (vt.size() - 2))),
              z3.And(acc, z3.Not(z3.substitute(acc, (vt, vt - one))), vt > -(1 << (vt.size() - 2))),
              z3.And(z3.Not(acc), z3.substitute(acc, (vt, vt + one)), vt < (1 << (vt.size() - 2))),
              z3.And(z3.Not(acc), z3.substitute(acc, (vt, vt - one)), vt > -(1 << (vt.size() - 2)))):
        s_ = z3.Solver()
        s_.add(f)
        seen = 0
        while seen < 3 and s_.check() == z3.sat:
            val = s_.model().eval(vt, model_completion=True).as_signed_long()
            out.add(val)
            s_.add(vt != val)
            seen += 1
    return sorted(out)


def witness_pass(case, ob, site, v, acc):
    """plain Python ints through the real function (code that dispatches on `type(x) is int` is out of a proxy's reach): the
    values are the solver's models of the boundaries of the documented acceptance predicate; a bounded witness check"""
    for val in boundary_witnesses(v, acc):
        bad, text = replay({'case': case, 'value': val})
        ob.n += 1
        ob.structural += 1
        if not bad:
            ob.unsat += 1
        else:
            ob.sat.append({'property': PROP, 'obligation': 'plain-int-boundary-witness', 'site': site + ':plain-int', 'case': case,
                           'value': val, 'detail': text})


def do_vstr(case, ob, site):
    """Verilog-style string path agrees with the int path"""
    b, base, neg = case['b'], case['base'], case['neg']
    d = SymInt(z3.BitVec('d', VW - 1), False)       # digits value (non-negative)
    s = SymVStr(neg, b, base, d)
    with henv():
        paths = explore(lambda: H._convert_verilog_str(s, None, False))
    value = -d if neg else d
    acc = representable(value, b, False)

    def goals(res):
        val, bw = res
        return [('same-as-int-path:value', to_bv(val, VW + 2) == (to_bv(value, VW + 2) & ((1 << b) - 1))), ('bitwidth', to_cond(bw == b))]
    mostneg = to_cond(d == (1 << (b - 1))) if neg else z3.BoolVal(False)
    check_paths(ob, "vstr(%s%d'%s)" % ('-' if neg else '', b, base), paths, site, d.t, acc, goals, signed_var=False,
                classify=[(':most-negative-value', mostneg), ('', z3.Not(mostneg))])
    if case.get('mismatch'):
        with henv():
            p2 = explore(lambda: H._convert_verilog_str(s, b + 1, False))
        for p in p2:
            ob.fact('explicit-bitwidth-must-match-string', isinstance(p.exc, pyrtl.PyrtlError), site + ':bitwidth-mismatch-accepted')


def do_signedint(case, ob, site):
    b = case['b']
    u = SymInt(z3.BitVec('u', b), False)
    r = H.val_to_signed_integer(u, b)
    exp = sym.ite((u >> (b - 1)) == 1, u - (1 << b), u)
    ob.prove('val_to_signed_integer(b=%d)' % b, to_cond(r == exp), [], None, site=site,
             extract=lambda m: {'value': m.eval(u.t, model_completion=True).as_long()})
    ob.paths += 1


def do_format(case, ob, site):
    f, b = case['f'], case['b']
    fmt = '%s%d' % (f, b)
    # the number in an unsigned format names a width, it does not limit the value (documented: 'a' with 'x3' is 10): values up
    # to three bits wider than named
    u = SymInt(z3.BitVec('u', b if f == 's' else b + 3), False)
    ex = lambda m: {'value': m.eval(u.t, model_completion=True).as_long()}
    with henv():
        paths = explore(lambda: H.formatted_str_to_val(H.val_to_formatted_str(u, fmt), fmt))
    for p in paths:
        if p.exc is not None:
            ob.prove('format:%s:no-exception' % fmt, z3.Not(p.cond()), [], None, site=site + ':exception', extract=ex)
        else:
            ob.prove('format:%s:str->val(val->str(v))=v' % fmt, to_cond(p.result == u), p.pc, None, site=site + ':roundtrip', extract=ex)
    ob.paths += len(paths)
    # other direction on canonical spellings: the string is the rendering of a symbolic number in the format's base
    base = {'s': 10, 'u': 10, 'x': 16, 'b': 2}[f]
    n = SymInt(z3.BitVec('n', b + 1), True) if f == 's' else SymInt(z3.BitVec('n', b), False)
    pre = [to_cond(n >= -(1 << (b - 1))), to_cond(n < (1 << (b - 1)))] if f == 's' else []
    data = SymNumeral(n, base, '')
    with henv():
        paths = explore(lambda: H.val_to_formatted_str(H.formatted_str_to_val(data, fmt), fmt), assumptions=pre)
    for p in paths:
        if p.exc is not None:
            ob.prove('format:%s:no-exception-2' % fmt, z3.Not(p.cond()), pre, None, site=site + ':exception')
            continue
        res = p.result
        ok = isinstance(res, SymNumeral) and res.base == base and res.prefix == ''
        ob.fact('format:%s:val->str-renders-in-base-%d' % (fmt, base), ok, site + ':rendering')
        if ok:
            ob.prove('format:%s:val->str(str->val(s))=s' % fmt, to_cond(res.x == n), pre + p.pc, None, site=site + ':roundtrip2',
                     extract=lambda m: {'value': m.eval(n.t, model_completion=True).as_signed_long()})
    ob.paths += len(paths)


def do_format_enum(case, ob, site):
    fmt = 'e4/_E'
    for m in _E:
        try:
            s = H.val_to_formatted_str(m.value, fmt, [_E])
        except Exception as e:
            s = repr(e)
        ob.fact('enum:val->str(%d)' % m.value, s == m.name, site + ':enum', detail='got %r' % (s,))
        try:
            v = H.formatted_str_to_val(m.name, fmt, [_E])
        except Exception as e:
            v = repr(e)
        ob.fact('enum:str->val(%s)' % m.name, v == m.value, site + ':enum', detail='got %r' % (v,))


def do_format_enum_history(case, ob, site):
    """the enum_set argument of each call decides: two enum classes with the same name, used one after the other with the same
    format string (two designs each with an `Op` enum)"""
    import enum
    Op1 = enum.IntEnum('Op', {'ADD': 1, 'SUB': 2})
    Op2 = enum.IntEnum('Op', {'ADD': 5, 'MUL': 6})
    fmt = 'e3/Op'
    for first, second in ((Op1, Op2), (Op2, Op1)):
        for m in first:
            try:
                got = (H.formatted_str_to_val(m.name, fmt, [first]), H.val_to_formatted_str(m.value, fmt, [first]))
            except Exception as e:
                got = repr(e)
            ob.fact('enum-history:first:%s' % m.name, got == (m.value, m.name), site + ':enum-first', detail='%r, expected %r' % (got, (m.value, m.name)))
        for m in second:
            try:
                got = (H.formatted_str_to_val(m.name, fmt, [second]), H.val_to_formatted_str(m.value, fmt, [second]))
            except Exception as e:
                got = repr(e)
            ob.fact('enum-history:second:%s' % m.name, got == (m.value, m.name), site + ':enum-second',
                    detail='after the same format was used with another enum class of that name: %r, expected %r' % (got, (m.value, m.name)))
        # an enum_set that lacks the named enum is refused
        try:
            H.formatted_str_to_val('ADD', fmt, [_E])
            refused = False
        except pyrtl.PyrtlError:
            refused = True
        except Exception:
            refused = False
        ob.fact('enum-history:missing-enum-refused-with-PyrtlError', refused, site + ':enum-missing')


def do_const_badwidth(case, ob, site):
    """an explicit bitwidth that is not a positive integer is refused (PyrtlError) whatever the value is: symbolic ints, and
    Verilog-style strings that carry their own width"""
    b = case['b']
    v = valvar('v', 8)
    ex = lambda m: {'value': m.eval(v.t, model_completion=True).as_signed_long()}

    def body():
        pyrtl.reset_working_block()
        return pyrtl.Const(v, bitwidth=b)
    with henv():
        paths = explore(body)
    ob.paths += len(paths)
    for p in paths:
        if p.exc is None:
            ob.prove('Const(v, bitwidth=%d)-is-refused' % b, z3.Not(p.cond()), [], None, site=site + ':accepted', extract=ex)
        elif not isinstance(p.exc, pyrtl.PyrtlError):
            ob.prove('Const(v, bitwidth=%d)-raises-PyrtlError(not %s)' % (b, type(p.exc).__name__), z3.Not(p.cond()), [], None,
                     site=site + ':wrong-exception', extract=ex)
    for text in ("2'b01", "4'd8", "1'b1", "-3'd2"):
        try:
            pyrtl.reset_working_block()
            c_ = pyrtl.Const(text, bitwidth=b)
            res = 'accepted as %d/%d' % (c_.val, c_.bitwidth)
        except pyrtl.PyrtlError:
            res = None
        except Exception as e:
            res = 'raised %s: %s' % (type(e).__name__, e)
        ob.fact('Const(%r, bitwidth=%d)-is-refused-with-PyrtlError' % (text, b), res is None, site + ':string', detail=res)


def do_twos(case, ob, site):
    b = case['b']
    v = valvar('v', b + 3)
    ex = lambda m: {'value': m.eval(v.t, model_completion=True).as_signed_long()}

    def body():
        enc = libutils.twos_comp_repr(v, b)
        try:
            return enc, libutils.rev_twos_comp_repr(enc, b)
        except pyrtl.PyrtlError:
            return enc, None
    paths = explore(body)
    lo, hi = -(1 << (b - 1)), (1 << (b - 1)) - 1
    for p in paths:
        if p.exc is None and p.result[1] is None:
            # mutual inverses on the accepted domain: what twos_comp_repr produces, rev_twos_comp_repr accepts
            ob.prove('twos(b=%d):rev-accepts-every-encoding-repr-produces' % b, z3.Not(p.cond()), [], None, site=site + ':rev-refuses', extract=ex)
        elif p.exc is None:
            enc, dec = p.result
            ob.prove('twos(b=%d):rev(repr(v))=v' % b, to_cond(dec == v), p.pc, None, site=site + ':roundtrip', extract=ex)
            ob.prove('twos(b=%d):encoding' % b, to_bv(enc, b + 4) == (to_bv(v, b + 4) & ((1 << b) - 1)), p.pc, None, site=site + ':encoding', extract=ex)
            ob.prove('twos(b=%d):accepted-domain' % b, z3.And(to_cond(v >= lo), to_cond(v <= hi)), p.pc, None, site=site + ':domain', extract=ex)
        elif not isinstance(p.exc, pyrtl.PyrtlError):
            ob.prove('twos(b=%d):raises-only-PyrtlError' % b, z3.Not(p.cond()), [], None, site=site + ':wrong-exception', extract=ex)
    ob.paths += len(paths)
    # the other composition on the accepted domain of rev_twos_comp_repr
    u = SymInt(z3.BitVec('u', b + 1), False)
    paths = explore(lambda: libutils.twos_comp_repr(libutils.rev_twos_comp_repr(u, b), b))
    for p in paths:
        if p.exc is None:
            ob.prove('twos(b=%d):repr(rev(u))=u' % b, to_cond(p.result == u), p.pc, None, site=site + ':roundtrip2',
                     extract=lambda m: {'value': m.eval(u.t, model_completion=True).as_long()})
    ob.paths += len(paths)


def do_bitpattern(case, ob, site):
    pat = case['pat']
    names = []
    for ch in pat:
        if ch not in '01' and ch not in names:
            names.append(ch)
    fields = {nm: SymInt(z3.BitVec('f_' + nm, 12), True) for nm in names}
    with henv(bitstr=True):
        paths = explore(lambda: H.bitpattern_to_val(pat, **fields), max_paths=1 << 12)
    ob.paths += len(paths)
    w = len(pat)
    counts = {nm: pat.count(nm) for nm in names}
    fits = z3.And(*[z3.And(to_cond(fields[nm] >= -(1 << (counts[nm]))), to_cond(fields[nm] < (1 << counts[nm]))) for nm in names]) \
        if names else z3.BoolVal(True)
    exf = lambda m: {'fields': {nm: m.eval(fields[nm].t, model_completion=True).as_signed_long() for nm in names}}
    for p in paths:
        if p.exc is not None:
            if isinstance(p.exc, pyrtl.PyrtlError):
                # too-large values raise: on such a path some field does not fit (as a signed or unsigned count-bit number)
                ob.prove('bitpattern:%s:raises-only-when-a-field-does-not-fit' % pat, z3.Not(z3.And(*[
                    z3.Or(z3.And(to_cond(fields[nm] >= 0), to_cond(fields[nm] < (1 << counts[nm]))),
                          z3.And(to_cond(fields[nm] < 0), to_cond(fields[nm] >= -(1 << counts[nm])))) for nm in names]))
                    if names else z3.BoolVal(False), p.pc, None, site=site + ':rejects-fitting', extract=exf)
            else:
                ob.prove('bitpattern:%s:raises-only-PyrtlError' % pat, z3.Not(p.cond()), [], None, site=site + ':wrong-exception')
            continue
        val = p.result      # concrete on each path (the code forked on every extracted bit)
        if is_sym(val):
            ob.fact('bitpattern:result-concrete-per-path', False, site + ':harness')
            continue
        # result bits equal pattern/field bits
        goals = []
        pos = {nm: 0 for nm in names}
        for i, ch in enumerate(pat[::-1]):
            bit = (val >> i) & 1
            if ch in '01':
                goals.append(z3.BoolVal(bit == int(ch)))
            else:
                goals.append(to_cond(((fields[ch] >> pos[ch]) & 1) == bit))
                pos[ch] += 1
        ob.prove('bitpattern:%s:bits' % pat, z3.And(*goals), p.pc, None, site=site + ':bits', extract=exf)
    # decode: the circuit match_bitpattern on a Const of a concrete instance matches and returns the same fields
    conc = {nm: (i * 5 + 3) % (1 << counts[nm]) for i, nm in enumerate(names)}
    val = H.bitpattern_to_val(pat, **conc)
    pyrtl.reset_working_block()
    # (mpat: the same pattern spelled with the '_' / space separators match_bitpattern ignores)
    try:
        m, fs = pyrtl.match_bitpattern(pyrtl.Const(val, bitwidth=w), case.get('mpat', pat))
    except Exception as e:
        ob.fact('bitpattern:%s:match_bitpattern-accepts-the-pattern' % pat, False, site + ':match-raises',
                detail='match_bitpattern(Const(%d, %d), %r) raised %s: %s' % (val, w, case.get('mpat', pat), type(e).__name__, e))
        return
    o = pyrtl.Output(1, 'm')
    o <<= m
    outs = {}
    absent = [nm for nm in names if not hasattr(fs, nm)]
    ob.fact('bitpattern:%s:match_bitpattern-returns-every-named-field' % pat, not absent, site + ':fields',
            detail='fields %r of the pattern are missing from the returned tuple %r' % (absent, getattr(fs, '_fields', fs)))
    if absent:
        return
    for nm in names:
        oo = pyrtl.Output(counts[nm], 'f_' + nm)
        oo <<= getattr(fs, nm)
    x = pyrtl.Input(1, 'x')
    ox = pyrtl.Output(1, 'ox')
    ox <<= x
    sim = pyrtl.Simulation()
    sim.step({'x': 0})
    ob.fact('bitpattern:%s:match_bitpattern-matches' % pat, sim.inspect('m') == 1, site + ':match')
    for nm in names:
        ob.fact('bitpattern:%s:field-%s-decodes-back' % (pat, nm), sim.inspect('f_' + nm) == conc[nm], site + ':decode')


KINDS = {'infer': do_infer, 'const': do_const, 'vstr': do_vstr, 'signedint': do_signedint, 'format': do_format,
         'format_enum': do_format_enum, 'format_enum_history': do_format_enum_history, 'const_badwidth': do_const_badwidth, 'twos': do_twos, 'bitpattern': do_bitpattern}


def bounds(tier):
    return {'value': 'signed %d-bit variable' % VW, 'explicit bitwidths': '1..24 (+ None: inferred from the symbolic value)',
            'bit patterns': 'all patterns of length <= %d over {0,1,a,b}' % (6 if tier == 'quick' else 8),
            'formats': 's u x b for bitwidths 1..12, e over a 4-member enum', 'twos_comp': 'bitwidths 1..%d' % (10 if tier == 'quick' else 16)}


def cases(tier, seed):
    out = []
    bws = [None] + list(range(1, 25))
    for b in bws:
        for s in (False, True):
            out.append({'k': 'infer', 'b': b, 'signed': s})
            out.append({'k': 'const', 'b': b, 'signed': s})
    for fn in ('infer', 'const'):
        for sg in (False, True):
            out.append({'k': 'bigwit', 'fn': fn, 'signed': sg})
    for b in ([1, 2, 3, 4, 8, 12, 16] if tier == 'quick' else list(range(1, 21))):
        for base in (2, 8, 10, 16):
            for neg in (False, True):
                out.append({'k': 'vstr', 'b': b, 'base': base, 'neg': neg, 'mismatch': b % 4 == 1})
    for b in range(1, 25):
        out.append({'k': 'signedint', 'b': b})
    for f in 'suxb':
        for b in range(1, 13 if tier == 'quick' else 25):
            out.append({'k': 'format', 'f': f, 'b': b})
    out.append({'k': 'format_enum'})
    out.append({'k': 'format_enum_history'})
    for b_ in (0, -1, -8):
        out.append({'k': 'const_badwidth', 'b': b_})
    for b in range(1, 11 if tier == 'quick' else 17):
        out.append({'k': 'twos', 'b': b})
    L = 6 if tier == 'quick' else 8
    for n in range(1, L + 1):
        for tup in itertools.product('01ab', repeat=n):
            p = ''.join(tup)
            if n >= 6 and (sum(ord(c) for c in p) + n) % (4 if tier == 'quick' else 6):
                continue
            out.append({'k': 'bitpattern', 'pat': p})
    # any alphanumeric character other than 0/1 names a field: upper case, mixed case (distinct fields), late letters
    for p in ('R', 'rR', '1RR0dd', 'Aa1aA', 'Z0z', 'aB1Ab0', 'xXx', 'Q1Q'):
        out.append({'k': 'bitpattern', 'pat': p})
    # decoding through a pattern with readability separators to the right / left of / inside fields
    for mp in ('0aa_b0', 'aa_b0', 'iii_rr_ss_010', 'a 1_b', 'a b ', '_a_', 'a_a_a', '1_0 a', 'ab_', ' ab', 'a__b_1'):
        out.append({'k': 'bitpattern', 'pat': mp.replace('_', '').replace(' ', ''), 'mpat': mp})
    return out


def site_of(c):
    if c['k'] == 'bigwit':
        return 'C16:%s:big-values:signed=%s' % (c['fn'], c['signed'])
    s = 'C16:%s' % c['k']
    if c['k'] in ('infer', 'const'):
        s += ':bitwidth=%s:signed=%s' % ('given' if c['b'] is not None else 'None', c['signed'])
    if c['k'] == 'vstr':
        s += ':neg=%s' % c['neg']
    if c['k'] == 'format':
        s += ':' + c['f']
    return s


def plain_witnesses(case, ob, site):
    """plain Python ints at the width boundaries through the real helpers (complements the proxy runs: code that dispatches on
    the exact type of its argument is only reached by real ints); a bounded witness check"""
    k, b = case['k'], case.get('b')
    if k == 'signedint' or k == 'format':
        vals = sorted({0, 1, (1 << (b - 1)) - 1, 1 << (b - 1), (1 << b) - 1, ((1 << b) - 1) ^ 1} & set(range(0, 1 << b)))
    elif k == 'twos':
        vals = sorted({-(1 << (b - 1)), -(1 << (b - 1)) + 1, -1, 0, 1, (1 << (b - 1)) - 1} & set(range(-(1 << (b - 1)), 1 << (b - 1))))
    else:
        return
    for val in vals:
        for st in (site, site + ':roundtrip2'):
            if k == 'signedint' and st != site:
                continue
            if k == 'format' and st != site and case['f'] == 's':
                continue         # the string->value->string direction takes signed renderings; covered symbolically
            if k == 'twos' and st != site:
                val = val & ((1 << b) - 1)       # this direction starts from an encoding in [0, 2^b)
            bad, text = replay({'case': case, 'value': val, 'site': st})
            ob.n += 1
            ob.structural += 1
            if not bad:
                ob.unsat += 1
            else:
                ob.sat.append({'property': PROP, 'obligation': 'plain-int-boundary-witness', 'site': st + ':plain-int', 'case': case,
                               'value': val, 'detail': text})


BIG_K = (31, 32, 33, 47, 48, 49, 50, 52, 53, 54, 62, 63, 64, 65, 100, 127, 128, 129)


def do_bigwit(case, ob, site):
    """plain Python ints around every power of two up to 2^129 (limb, double-precision and word boundaries) through the real
    helpers, with the bitwidth inferred and with the exact / one-too-small explicit bitwidth: the 26-bit solver variable of the
    other cases cannot reach values whose handling depends on float precision or machine words. A bounded witness check."""
    fn, signed = case['fn'], case['signed']
    for k in BIG_K:
        for val in (2 ** k - 1, 2 ** k, 2 ** k + 1, -(2 ** k), -(2 ** k) - 1, -(2 ** k) + 1):
            if val < 0 and not signed:
                bs = (k + 1, k + 2)         # a negative value needs an explicit bitwidth when unsigned
            else:
                bs = (None, k, k + 1, k + 2)
            for b in bs:
                c = {'k': fn, 'b': b, 'signed': signed}
                bad, text = replay({'case': c, 'value': val})
                ob.n += 1
                ob.structural += 1
                if not bad:
                    ob.unsat += 1
                else:
                    ob.sat.append({'property': PROP, 'obligation': 'plain-int-boundary-witness', 'site': site + ':plain-int',
                                   'case': c, 'value': val, 'detail': text})


def run_case(case, ob, tier):
    if case['k'] == 'bigwit':
        return do_bigwit(case, ob, 'C16:%s:big-values:signed=%s' % (case['fn'], case['signed']))
    KINDS[case['k']](case, ob, site_of(case))
    plain_witnesses(case, ob, site_of(case))


def replay(cex):
    c = cex['case']
    k = c['k']
    if k in ('format_enum', 'format_enum_history') or (k == 'const_badwidth' and cex.get('structural')):
        from ..core import Obligations
        ob = Obligations(PROP, c, 20000)
        KINDS[k](c, ob, site_of(c))
        bad = [(x['obligation'], x.get('detail')) for x in ob.sat]
        return bool(bad), 'failing on the real helpers (plain ints and strings): %r' % bad[:4]
    val = cex.get('value')
    if val is None and not cex.get('structural') and k != 'bitpattern':
        return False, 'no model value recorded'
    try:
        if k in ('infer', 'const'):
            b, signed = c['b'], c['signed']
            try:
                if k == 'infer':
                    res = tuple(H.infer_val_and_bitwidth(val, bitwidth=b, signed=signed))
                else:
                    pyrtl.reset_working_block()
                    cw = pyrtl.Const(val, bitwidth=b, signed=signed)
                    res = (cw.val, cw.bitwidth)
                acc = True
            except pyrtl.PyrtlError as e:
                res, acc = repr(e), False
            if b is not None:
                rep = (-(1 << (b - 1)) <= val <= ((1 << (b - 1)) - 1 if signed else (1 << b) - 1))
                exp = (val & ((1 << b) - 1), b)
            else:
                rep = signed or val >= 0
                if val >= 0:
                    mw = 1 if val == 0 else val.bit_length() + (1 if signed else 0)
                else:
                    mw = 1 if val == -1 else (~val).bit_length() + 1
                exp = (val & ((1 << mw) - 1), mw)
            bad = (acc != rep) or (acc and res != exp)
            if acc and not bad and (signed or val < 0) :
                bad = H.val_to_signed_integer(res[0], res[1]) != val
            return bad, '%s(%d, bitwidth=%r, signed=%r) -> %r; representable=%r expected=%r' % (k, val, b, signed, res, rep, exp)
        if k == 'vstr':
            b, base, neg = c['b'], c['base'], c['neg']
            digits = {2: format(val, 'b'), 8: format(val, 'o'), 10: str(val), 16: format(val, 'x')}[base]
            s = "%s%d'%s%s" % ('-' if neg else '', b, {2: 'b', 8: 'o', 10: 'd', 16: 'h'}[base], digits)
            v = -val if neg else val
            rep = -(1 << (b - 1)) <= v <= (1 << b) - 1
            try:
                res = tuple(H.infer_val_and_bitwidth(s))
                acc = True
            except pyrtl.PyrtlError as e:
                res, acc = repr(e), False
            bad = (acc != rep) or (acc and res != (v & ((1 << b) - 1), b))
            return bad, 'infer_val_and_bitwidth(%r) -> %r; value %d representable in %d bits: %r' % (s, res, v, b, rep)
        if k == 'signedint':
            b = c['b']
            exp = val - (1 << b) if val >> (b - 1) else val
            got = H.val_to_signed_integer(val, b)
            return got != exp, 'val_to_signed_integer(%d, %d) = %d, expected %d' % (val, b, got, exp)
        if k == 'format':
            fmt = '%s%d' % (c['f'], c['b'])
            if 'roundtrip2' in cex.get('site', ''):
                base = {'s': 10, 'u': 10, 'x': 16, 'b': 2}[c['f']]
                s = {10: str(val), 16: format(val, 'x'), 2: format(val, 'b')}[base]
                got = H.val_to_formatted_str(H.formatted_str_to_val(s, fmt), fmt)
                return got != s, 'val_to_formatted_str(formatted_str_to_val(%r, %r)) = %r' % (s, fmt, got)
            got = H.formatted_str_to_val(H.val_to_formatted_str(val, fmt), fmt)
            return got != val, 'formatted_str_to_val(val_to_formatted_str(%d, %r)) = %r' % (val, fmt, got)
        if k == 'twos':
            b = c['b']
            if 'roundtrip2' in cex.get('site', ''):
                try:
                    got = libutils.twos_comp_repr(libutils.rev_twos_comp_repr(val, b), b)
                except pyrtl.PyrtlError:
                    return False, 'rejected'
                return got != val, 'twos_comp_repr(rev_twos_comp_repr(%d, %d)) = %r' % (val, b, got)
            try:
                enc = libutils.twos_comp_repr(val, b)
            except pyrtl.PyrtlError as e:
                return False, 'rejected: %r' % (e,)
            try:
                dec = libutils.rev_twos_comp_repr(enc, b)
            except pyrtl.PyrtlError as e:
                return True, 'twos_comp_repr(%d, %d) = %d is accepted, but rev_twos_comp_repr(%d, %d) raises %r' % (val, b, enc, enc, b, e)
            lo, hi = -(1 << (b - 1)), (1 << (b - 1)) - 1
            bad = dec != val or enc != (val & ((1 << b) - 1)) or not (lo <= val <= hi)
            return bad, 'twos_comp_repr(%d, %d) = %d; rev = %d; accepted domain [%d, %d]' % (val, b, enc, dec, lo, hi)
        if k == 'bitpattern':
            pat = c['pat']
            fv = cex.get('fields')
            if fv is None:
                from ..core import Obligations
                ob = Obligations(PROP, c, 20000)
                do_bitpattern(c, ob, site_of(c))
                bad = [x['obligation'] for x in ob.sat if x.get('structural')]
                return cex['obligation'] in bad, 'structural facts failing: %r' % bad[:4]
            counts = {nm: pat.count(nm) for nm in fv}
            fits = all((0 <= x < (1 << counts[nm])) or (-(1 << counts[nm]) <= x < 0) for nm, x in fv.items())
            try:
                val = H.bitpattern_to_val(pat, **fv)
            except pyrtl.PyrtlError as e:
                return fits, 'bitpattern_to_val(%r, **%r) raised %r although every field fits' % (pat, fv, e) if fits else 'rejected (does not fit)'
            pos = {nm: 0 for nm in fv}
            bad = []
            for i, ch in enumerate(pat[::-1]):
                bit = (val >> i) & 1
                want = int(ch) if ch in '01' else (fv[ch] >> pos[ch]) & 1
                if ch not in '01':
                    pos[ch] += 1
                if bit != want:
                    bad.append(i)
            return bool(bad) and fits, 'bitpattern_to_val(%r, **%r) = %s: wrong bits at positions %r' % (pat, fv, bin(val), bad)
    except Exception as e:
        return True, 'raised %r' % (e,)
    return False, 'no replay for %r' % (k,)
