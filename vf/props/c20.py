"""C20 — exports are deterministic and read-only with respect to behaviour.

Read-only (solver): the symbolic K-cycle trace of the block before an export/visualisation/analysis call equals the trace
after it (for output_to_firrtl this is behaviour preservation of its in-place rewrites), and the object fingerprint is
unchanged for the others.
Deterministic (schedules as solver variables): every set of wires/nets the emitters iterate is ordered by symbolic ranks for
a chosen pair of objects (all other objects keep creation ranks); the explorer enumerates every order the code can
distinguish; the emitted bytes must be identical on every path. The reason it should hold — injective sort keys — is
attacked directly by searching key collisions among short names, and collisions become designs."""
import io
import json
import os
import itertools
import contextlib
import z3
import pyrtl
from pyrtl import importexport as ie, simulation as simmod
from pyrtl.core import Block
from .. import designs, simdrv, sym, equiv, spec
from ..simdrv import Vars, run_sim, sym_env
from ..sym import SymInt, explore, to_bv
from . import c11

PROP = 'C20'
LEVEL = 'model_checking'
ASSUMPTIONS = [
    'model restriction: one global total order (symbolic ranks) induces the iteration order of every controlled set (Block.logic, '
    'Block.wirevector_set, results of wirevector_subset/logic_subset, SimulationTrace.wires_to_track, every set()/set comprehension/'
    'set literal evaluated inside pyrtl.simulation/importexport/visualization/analysis during the call - displays are rewritten to '
    'set(...) calls from the current source, see control_set_displays); a set of wire NAMES is ordered like the wires; two (thorough: three) objects get symbolic ranks at a time, all others keep creation order',
    'real cross-process hash-seed behaviour is represented by this order model, not executed',
    'the sort-key collision search is a finite enumeration over names of length <= 4 from {a, b, A, 0, 1, _} (named as such)',
    'read-only: fingerprint as in C11; behaviour compared by the solver from the declared reset state',
]
EMITTERS = ['verilog', 'testbench', 'vcd', 'print_trace']     # the texts the property names as byte-identical
READONLY = ['verilog', 'testbench', 'firrtl', 'trivialgraph', 'graphviz', 'svg', 'net_graph', 'timing', 'area', 'paths', 'print_trace', 'print_vcd']


def bounds(tier):
    return {'read-only calls': READONLY, 'emitters under order exploration': EMITTERS,
            'order exploration': 'every pair of objects gets symbolic ranks (thorough: +sampled triples); designs <= 14 objects',
            'key collision search': 'names of length <= 4 over {a,b,A,0,1,_}',
            'pass order': 'passes %r on 6 designs; two objects at a time keep or swap their places in every set (quick: 40 pairs '
                          'per design, same-kind pairs first); each distinct result vs the source, K=3 from reset' % PASSES20}


def build_det(d):
    k = d['kind']
    if k == 'tie_names':
        n1, n2 = d['names']
        a, b = pyrtl.Input(2, n1), pyrtl.Input(2, n2)
        o = pyrtl.Output(3, 'o')
        o <<= a + b
    elif k == 'bad_names':
        a, b = pyrtl.Input(2, 'x%'), pyrtl.Input(3, 'y.z')
        r = pyrtl.Register(3, 'r!')
        r.next <<= (a + b)[0:3]
        o = pyrtl.Output(3, 'o')
        o <<= r ^ b
    elif k == 'small':
        a, b = pyrtl.Input(2, 'a'), pyrtl.Input(2, 'b')
        r = pyrtl.Register(2, 'r', reset_value=1)
        r.next <<= a ^ r
        o = pyrtl.Output(3, 'o')
        o <<= r + b
        o2 = pyrtl.Output(1, 'p')
        o2 <<= a < b
    elif k == 'mem':
        m = pyrtl.MemBlock(bitwidth=2, addrwidth=2, name='m', asynchronous=True, max_write_ports=None)
        a, d_, we = pyrtl.Input(2, 'a'), pyrtl.Input(2, 'd'), pyrtl.Input(1, 'we')
        a2, we2 = pyrtl.Input(2, 'a2'), pyrtl.Input(1, 'we2')
        m[a] <<= pyrtl.MemBlock.EnabledWrite(d_, we)
        m[a2] <<= pyrtl.MemBlock.EnabledWrite(~d_, we2)
        o = pyrtl.Output(2, 'o')
        o <<= m[a2]
    elif k == 'two_roms':
        # several ROMs (and a memory): whatever the emitters write per memory has an order to get wrong
        a = pyrtl.Input(2, 'a')
        r1 = pyrtl.RomBlock(3, 2, [1, 2, 3, 4], name='rom_b')
        r2 = pyrtl.RomBlock(3, 2, [7, 6, 5, 4], name='rom_a')
        r3 = pyrtl.RomBlock(3, 2, [0, 1, 0, 1], name='rom_c')
        o = pyrtl.Output(3, 'o')
        o <<= r1[a] ^ r2[a] ^ r3[a]
    elif k == 'mem_shared_we':
        # two write ports of one memory gated by the same enable wire (distinct addresses by construction: a and ~a)
        m = pyrtl.MemBlock(bitwidth=2, addrwidth=2, name='m', asynchronous=True, max_write_ports=None)
        a, d_, we = pyrtl.Input(2, 'a'), pyrtl.Input(2, 'd'), pyrtl.Input(1, 'we')
        m[a] <<= pyrtl.MemBlock.EnabledWrite(d_, we)
        m[~a] <<= pyrtl.MemBlock.EnabledWrite(~d_, we)
        o = pyrtl.Output(2, 'o')
        o <<= m[a]
    elif k == 'mem3':
        # three memories, all given initial contents by concrete_trace(): anything emitted per memory has an order to get wrong
        a, d_, we = pyrtl.Input(2, 'a'), pyrtl.Input(3, 'd'), pyrtl.Input(1, 'we')
        acc = None
        for i in range(3):
            m = pyrtl.MemBlock(bitwidth=3, addrwidth=2, name='m%d' % i, asynchronous=True)
            m[a] <<= pyrtl.MemBlock.EnabledWrite(d_ if i != 1 else ~d_, we)
            acc = m[a] if acc is None else acc ^ m[a]
        o = pyrtl.Output(3, 'o')
        o <<= acc
    elif k == 'func_rom':
        # function-backed ROM whose bitwidth is smaller than its addrwidth (output_to_firrtl materialises the data in place)
        rom = pyrtl.RomBlock(bitwidth=2, addrwidth=4, romdata=lambda a: (a * 3 + 1) % 4, name='rom', asynchronous=True)
        a = pyrtl.Input(4, 'a')
        o = pyrtl.Output(2, 'o')
        o <<= rom[a]
    elif k == 'list_rom':
        rom = pyrtl.RomBlock(bitwidth=5, addrwidth=2, romdata=[3, 9, 17, 30], name='rom', asynchronous=True)
        a = pyrtl.Input(2, 'a')
        o = pyrtl.Output(5, 'o')
        o <<= rom[a]
    elif k == 'case_names':
        a, b = pyrtl.Input(2, 'Data'), pyrtl.Input(2, 'data')
        o = pyrtl.Output(3, 'o')
        o <<= a + b
    return pyrtl.working_block()


def build_passd(d):
    """designs on which a transformation pass has a choice to make that depends on set iteration order"""
    k = d['kind']
    a, b = pyrtl.Input(2, 'a'), pyrtl.Input(2, 'b')
    if k == 'dup_regs':
        # registers loading the very same wire, with different reset values
        r1, r2, r3 = pyrtl.Register(2, 'r1', reset_value=0), pyrtl.Register(2, 'r2', reset_value=1), pyrtl.Register(2, 'r3')
        for r in (r1, r2, r3):
            r.next <<= a
        for i, r in enumerate((r1, r2, r3)):
            o = pyrtl.Output(2, 'o%d' % i)
            o <<= r
    elif k == 'dup_exprs':
        x, y, z = a & b, b & a, a & b
        o = pyrtl.Output(2, 'o')
        o <<= x ^ y
        p = pyrtl.Output(3, 'p')
        p <<= z + (a | b)
        q = pyrtl.Output(3, 'q')
        q <<= (a | b) + x
    elif k == 'swap_mux':
        # the same three wires in different roles of several muxes (compare-exchange; permuted 1-bit muxes)
        s_ = a < b
        lo, hi = pyrtl.select(s_, a, b), pyrtl.select(s_, b, a)
        o = pyrtl.Output(2, 'lo')
        o <<= lo
        p = pyrtl.Output(2, 'hi')
        p <<= hi
        x, y, z = a[0], a[1], b[0]
        q = pyrtl.Output(3, 'q')
        q <<= pyrtl.concat(pyrtl.select(x, y, z), pyrtl.select(y, x, z), pyrtl.select(z, y, x))
    elif k == 'dup_consts':
        r = pyrtl.Register(2, 'r', reset_value=2)
        r.next <<= pyrtl.select(a == pyrtl.Const(1, 2), r + pyrtl.Const(1, 2), pyrtl.Const(1, 2))
        o = pyrtl.Output(2, 'o')
        o <<= r ^ pyrtl.Const(1, 2) ^ (b & pyrtl.Const(3, 2))
    elif k == 'dup_mem':
        m = pyrtl.MemBlock(bitwidth=2, addrwidth=2, name='m', asynchronous=True, max_read_ports=None)
        we = pyrtl.Input(1, 'we')
        m[a] <<= pyrtl.MemBlock.EnabledWrite(b, we)
        o = pyrtl.Output(2, 'o')
        o <<= m[a] ^ m[a]
        p = pyrtl.Output(2, 'p')
        p <<= m[b] | m[a]
    else:
        raise ValueError(k)
    return pyrtl.working_block()


designs.register_family('PASSD', build_passd)
designs.register_family('DET', build_det)


# ------------------------------------------------------------------------------------------
# order control

class _SetMeta(type):
    def __instancecheck__(cls, inst):
        return isinstance(inst, set)


_PATCHED = {}


def control_set_displays():
    """Set comprehensions and set literals inside PyRTL functions ({w.name for w in ...}) build builtin sets no module-level
    override can reach. Regenerated from /repo's current source on every run: each function containing one is recompiled from
    its own AST with the display rewritten to a call of the NAME `set` (same meaning while `set` is the builtin), and the live
    function's code object is replaced, so that the order model below also governs those sets. Returns the rewritten sites."""
    import ast
    import importlib
    import inspect
    import pkgutil
    import types
    if _PATCHED:
        return _PATCHED

    class T(ast.NodeTransformer):
        def __init__(self):
            self.lines = []

        def visit_SetComp(self, node):
            self.generic_visit(node)
            self.lines.append(node.lineno)
            gen = ast.copy_location(ast.GeneratorExp(elt=node.elt, generators=node.generators), node)
            return ast.copy_location(ast.Call(func=ast.copy_location(ast.Name(id='set', ctx=ast.Load()), node), args=[gen], keywords=[]), node)

        def visit_Set(self, node):
            self.generic_visit(node)
            self.lines.append(node.lineno)
            lst = ast.copy_location(ast.List(elts=node.elts, ctx=ast.Load()), node)
            return ast.copy_location(ast.Call(func=ast.copy_location(ast.Name(id='set', ctx=ast.Load()), node), args=[lst], keywords=[]), node)

    def codes(co, out):
        for c in co.co_consts:
            if isinstance(c, types.CodeType):
                out[(c.co_name, c.co_firstlineno)] = c
                codes(c, out)
        return out

    names = ['pyrtl.' + m.name for m in pkgutil.iter_modules(pyrtl.__path__)] + \
            ['pyrtl.rtllib.' + m.name for m in pkgutil.iter_modules([pyrtl.__path__[0] + '/rtllib'])]
    for name in names:
        try:
            mod = importlib.import_module(name)
            src = inspect.getsource(mod)
        except Exception:
            continue
        t = T()
        tree = ast.fix_missing_locations(t.visit(ast.parse(src)))
        if not t.lines:
            continue
        table = codes(compile(tree, mod.__file__, 'exec'), {})

        def funcs_of(ns):
            for v in list(ns.values()):
                if isinstance(v, (staticmethod, classmethod)):
                    v = v.__func__
                if isinstance(v, property):
                    for f in (v.fget, v.fset, v.fdel):
                        if f is not None:
                            yield f
                elif isinstance(v, types.FunctionType):
                    yield v
                elif isinstance(v, type) and v.__module__ == mod.__name__:
                    for f in funcs_of(vars(v)):
                        yield f
        for f in funcs_of(vars(mod)):
            if f.__module__ != mod.__name__:
                continue
            co = f.__code__
            last = max([co.co_firstlineno] + [ln for _, _, ln in co.co_lines() if ln] +
                       [ln for c in codes(co, {}).values() for _, _, ln in c.co_lines() if ln])
            hit = [ln for ln in t.lines if co.co_firstlineno <= ln <= last]
            new = table.get((co.co_name, co.co_firstlineno))
            if hit and new is not None and new.co_freevars == co.co_freevars:
                f.__code__ = new
                _PATCHED.setdefault(name, []).extend('%s:%d' % (f.__qualname__, ln) for ln in hit)
    return _PATCHED


class Ranked(set, metaclass=_SetMeta):
    """set whose iteration / pop order follows ranks: symbolic for the chosen objects, creation order for the rest"""
    by_name = {}      # wire name -> wire: a set of NAMES is ordered like the wires that carry them
    sym_rank = {}     # id(obj) -> SymInt
    conc_rank = {}    # id(obj) -> int
    memo = {}
    counter = [0]

    @classmethod
    def setup(cls, objs, chosen):
        cls.sym_rank, cls.conc_rank, cls.memo = {}, {}, {}
        cls.by_name = {o.name: o for o in objs if isinstance(getattr(o, 'name', None), str)}
        for i, o in enumerate(objs):
            cls.conc_rank[id(o)] = 2 * i + 1
        for j, o in enumerate(chosen):
            cls.sym_rank[id(o)] = SymInt(z3.BitVec('rank_%d' % j, 8), False)
        cls.distinct = []
        vals = list(cls.sym_rank.values())
        for x, y in itertools.combinations(vals, 2):
            cls.distinct.append(x.t != y.t)
        for x in vals:      # symbolic ranks fall strictly between the (odd) concrete ranks
            cls.distinct.append(z3.Extract(0, 0, x.t) == 0)

    @classmethod
    def rank(cls, o):
        if isinstance(o, str):
            if o in cls.by_name:
                return cls.rank(cls.by_name[o])
            # other strings: any fixed order (by value, so that equal strings that are distinct objects agree)
            k = ('str', o)
            if k not in cls.conc_rank:
                cls.counter[0] += 1
                cls.conc_rank[k] = 1000 + 2 * cls.counter[0] + 1
            return cls.conc_rank[k]
        r = cls.sym_rank.get(id(o))
        if r is not None:
            return r
        r = cls.conc_rank.get(id(o))
        if r is None:
            cls.counter[0] += 1
            r = 1000 + 2 * cls.counter[0] + 1
            cls.conc_rank[id(o)] = r
        return r

    @classmethod
    def is_chosen(cls, o):
        if isinstance(o, str):
            o = cls.by_name.get(o)
        return id(o) in cls.sym_rank

    @staticmethod
    def ident(o):
        return ('str', o) if isinstance(o, str) else id(o)

    @classmethod
    def less(cls, a, b):
        ra, rb = cls.rank(a), cls.rank(b)
        if not sym.is_sym(ra) and not sym.is_sym(rb):
            return ra < rb
        k = (cls.ident(a), cls.ident(b))
        if k in cls.memo:
            return cls.memo[k]
        r = bool(ra < rb)
        cls.memo[k] = r
        cls.memo[(k[1], k[0])] = not r
        return r

    def _ordered(self):
        items = list(set.__iter__(self))
        conc = sorted([x for x in items if not Ranked.is_chosen(x)], key=lambda x: Ranked.rank(x))
        out = list(conc)
        for x in [x for x in items if Ranked.is_chosen(x)]:
            i = 0
            while i < len(out) and Ranked.less(out[i], x):
                i += 1
            out.insert(i, x)
        return out

    def __iter__(self):
        return iter(self._ordered())

    def pop(self):
        x = self._ordered()[0]
        set.remove(self, x)
        return x

    def copy(self):
        return Ranked(set.__iter__(self))

    def __or__(self, o):
        return Ranked(set.__or__(set(set.__iter__(self)), set(o)))

    def __sub__(self, o):
        return Ranked(set.__sub__(set(set.__iter__(self)), set(o)))

    def union(self, *o):
        return Ranked(set.union(set(set.__iter__(self)), *o))

    def difference(self, *o):
        return Ranked(set.difference(set(set.__iter__(self)), *o))

    def __and__(self, o):
        return Ranked(set.__and__(set(set.__iter__(self)), set(o)))

    def intersection(self, *o):
        return Ranked(set.intersection(set(set.__iter__(self)), *o))


EMIT_MODULES = ['simulation', 'importexport', 'visualization', 'analysis']


@contextlib.contextmanager
def ordered_block(block):
    import importlib
    control_set_displays()
    mods = [importlib.import_module('pyrtl.' + m) for m in EMIT_MODULES]
    for m in mods:
        m.__dict__['set'] = Ranked
    try:
        with _ordered_block(block):
            yield
    finally:
        for m in mods:
            m.__dict__.pop('set', None)


@contextlib.contextmanager
def _ordered_block(block):
    orig_ws, orig_ls = Block.wirevector_subset, Block.logic_subset
    saved_logic, saved_wires = block.logic, block.wirevector_set

    def ws(self, cls=None, exclude=tuple()):
        return Ranked(orig_ws(self, cls, exclude))

    def ls(self, op=None):
        return Ranked(orig_ls(self, op))
    Block.wirevector_subset, Block.logic_subset = ws, ls
    block.logic = Ranked(saved_logic)
    block.wirevector_set = Ranked(saved_wires)
    try:
        yield
    finally:
        Block.wirevector_subset, Block.logic_subset = orig_ws, orig_ls
        block.logic, block.wirevector_set = saved_logic, saved_wires


def emit(kind, block, trace=None):
    buf = io.StringIO()
    if kind == 'verilog':
        pyrtl.output_to_verilog(buf, block=block)
    elif kind == 'testbench':
        pyrtl.output_verilog_testbench(buf, simulation_trace=trace, block=block, vcd=None)
    elif kind == 'vcd':
        trace.print_vcd(buf)
    elif kind == 'print_trace':
        trace.print_trace(buf)
        trace.print_trace(buf, base=16, compact=True)
    elif kind == 'firrtl':
        roms = sorted({n.op_param[1] for n in block.logic_subset('m') if isinstance(n.op_param[1], pyrtl.RomBlock)}, key=lambda m: m.id)
        pyrtl.output_to_firrtl(buf, rom_blocks=roms or None, block=block)
    elif kind == 'trivialgraph':
        pyrtl.output_to_trivialgraph(buf, block=block)
    elif kind == 'graphviz':
        pyrtl.output_to_graphviz(buf, block=block)
    return buf.getvalue()


def concrete_trace(block, K=2):
    mems = sorted({n.op_param[1] for n in block.logic_subset('m@') if not isinstance(n.op_param[1], pyrtl.RomBlock)}, key=lambda m: m.name)
    mvm = {m: {0: (5 + 3 * i) & ((1 << m.bitwidth) - 1), (1 << m.addrwidth) - 1: 1} for i, m in enumerate(mems)}
    sim = pyrtl.Simulation(block=block, memory_value_map=mvm, tracer=pyrtl.SimulationTrace(
        wires_to_track=sorted(block.wirevector_subset((pyrtl.Input, pyrtl.Output, pyrtl.Register)), key=lambda w: w.name), block=block))
    for t in range(K):
        sim.step({w.name: (t + 1) & w.bitmask for w in block.wirevector_subset(pyrtl.Input)})
    return sim.tracer


def run_determinism(case, ob, site):
    kind = case['emitter']
    objs_index = case.get('pair')

    def fresh():
        b = designs.build(case)
        tr = concrete_trace(b) if kind in ('testbench', 'vcd', 'print_trace') else None
        return b, tr
    block, trace = fresh()

    def objects(b):
        mems_ = sorted({id(n.op_param[1]): n.op_param[1] for n in b.logic if n.op in 'm@'}.values(), key=lambda m: m.name)
        return sorted(b.wirevector_set, key=lambda w: w.name) + sorted(b.logic, key=lambda n: (n.dests[0].name if n.dests else '', n.op)) + mems_
    objs = objects(block)
    pairs = list(itertools.combinations(range(len(objs)), 2))
    if case.get('sample') and any(hasattr(o, 'addrwidth') for o in objs):
        # pairs of memories first: a sample of all pairs would rarely pick them
        mi = [i for i, o in enumerate(objs) if hasattr(o, 'addrwidth')]
        front = list(itertools.combinations(mi, 2))
        pairs = front + [p_ for p_ in pairs if p_ not in front]
    else:
        front = []
    if case.get('sample'):
        rest = pairs[len(front):]
        step = max(1, len(rest) // case['sample'])
        pairs = front + rest[::step]
    texts = set()
    npaths = 0
    for (i, j) in pairs:
        # firrtl rewrites the block in place: rebuild for every run
        def body():
            b, tr = fresh() if kind == 'firrtl' else (block, trace)
            ob_list = objects(b)
            Ranked.memo = {}
            if kind == 'firrtl':
                Ranked.setup(ob_list, [ob_list[i], ob_list[j]])
            with ordered_block(b):
                if tr is not None:
                    saved = tr.wires_to_track
                    tr.wires_to_track = Ranked(saved)
                try:
                    return emit(kind, b, tr)
                finally:
                    if tr is not None:
                        tr.wires_to_track = saved
        Ranked.setup(objs, [objs[i], objs[j]])
        try:
            paths = explore(body, assumptions=list(Ranked.distinct), max_paths=4000)
        except sym.HarnessError as e:
            if 'path budget' in str(e):
                ob.notes.append('pair skipped: more than 4000 distinguishable orders')
                continue
            raise
        npaths += len(paths)
        for p in paths:
            if p.exc is not None:
                ob.fact('emitter-accepts-design', False, site + ':raises', detail=repr(p.exc))
            else:
                texts.add(p.result)
    # the interpreter's string-hash seed is part of the environment as well: hash() as seen by PyRTL's modules is replaced by a
    # salted one (two salts besides the process's own) and the text must not move
    import builtins
    import importlib
    hmods = [importlib.import_module('pyrtl.' + m) for m in EMIT_MODULES + ['core', 'wire', 'helperfuncs', 'memory']]
    for salt in (0x5bd1e995, 0x9e3779b97f4a7c15):
        def salted(o, salt=salt):
            h = builtins.hash(o)
            return (h ^ salt) if isinstance(o, str) else h
        for m in hmods:
            m.__dict__['hash'] = salted
        try:
            b, tr = fresh() if kind == 'firrtl' else (block, trace)
            texts.add(emit(kind, b, tr))
            npaths += 1
        except Exception as e:
            ob.fact('emitter-accepts-design', False, site + ':raises', detail=repr(e))
        finally:
            for m in hmods:
                m.__dict__.pop('hash', None)
    ob.paths += npaths
    ob.n += 1
    if len(texts) <= 1:
        ob.unsat += 1
    else:
        ts = sorted(texts)
        diff = next((k for k, (x, y) in enumerate(zip(ts[0], ts[1])) if x != y), min(len(ts[0]), len(ts[1])))
        ob.sat.append({'property': PROP, 'obligation': 'same-bytes-under-every-iteration-order', 'site': site + ':bytes-differ', 'case': case,
                       'structural': True, 'detail': {'distinct_texts': len(texts), 'first': ts[0][max(0, diff - 80):diff + 80],
                                                      'second': ts[1][max(0, diff - 80):diff + 80]}})
    ob.sample = {'obligation': 'bytes identical over %d explored orders (%d object pairs) of %s' % (npaths, len(pairs), kind), 'result': 'unsat' if len(texts) <= 1 else 'sat'}


# ------------------------------------------------------------------------------------------
# "results of transformation passes may differ in internal naming between runs but never in behaviour": the pass runs under the
# order model (every set it iterates ordered by ranks; two objects at a time keep or swap their places), every structurally
# distinct result is compared with the untouched design by the solver (outputs over K cycles from the declared reset state).

PASS_MODULES = ['passes', 'transform', 'core', 'wire', 'helperfuncs', 'memory']
PASSES20 = ['optimize', 'cse', 'synth', 'synth+optimize', 'nand']


def _run_pass(name, b):
    from pyrtl import passes as P
    with pyrtl.set_working_block(b, no_sanity_check=True):
        if name == 'optimize':
            return pyrtl.optimize(block=b)
        if name == 'cse':
            P.common_subexp_elimination(b)
            return b
        if name == 'synth':
            return pyrtl.synthesize(update_working_block=False, block=b)
        if name == 'synth+optimize':
            r = pyrtl.synthesize(update_working_block=False, block=b)
            return pyrtl.optimize(block=r)
        if name == 'nand':
            r = pyrtl.synthesize(update_working_block=False, block=b)
            P.nand_synth(block=r)
            return r
    raise ValueError(name)


def _plain(b):
    """the block with builtin sets again (so that it can be used outside the exploration)"""
    b.logic = set(set.__iter__(b.logic))
    b.wirevector_set = set(set.__iter__(b.wirevector_set))
    return b


def _signature(b):
    """structure of the block up to the names of internal wires (which a pass may choose differently from run to run)"""
    logic = list(set.__iter__(b.logic))
    producer = {}
    for n in logic:
        for d in n.dests:
            producer[d] = n
    canon = {}

    def name(w):
        if isinstance(w, (pyrtl.Input, pyrtl.Output, pyrtl.Register)):
            return w.name
        if isinstance(w, pyrtl.Const):
            return 'const_%d_%d' % (w.val, w.bitwidth)
        if w not in canon:
            canon[w] = 't%d' % len(canon)
        return canon[w]
    seen = set()

    def visit(w):
        stack = [w]
        while stack:
            x = stack.pop()
            if id(x) in seen:
                continue
            seen.add(id(x))
            name(x)
            n = producer.get(x)
            if n is not None and n.op != 'r':
                stack.extend(reversed(n.args))
    roots = sorted([w for w in set.__iter__(b.wirevector_set) if isinstance(w, pyrtl.Output)], key=lambda w: w.name)
    roots += [n.args[0] for n in sorted([n for n in logic if n.op == 'r'], key=lambda n: n.dests[0].name)]
    for n in sorted([n for n in logic if n.op == '@'], key=lambda n: (n.op_param[1].name, [a.name for a in n.args])):
        roots += list(n.args)
    for w in roots:
        visit(w)
    return repr(sorted((n.op, repr(n.op_param) if n.op == 's' else (n.op_param[1].name if n.op in 'm@' else None),
                        tuple((name(a), a.bitwidth) for a in n.args),
                        tuple((name(d), d.bitwidth, getattr(d, 'reset_value', None)) for d in n.dests)) for n in logic))


def run_pass_order(case, ob, site):
    import importlib
    pas = case['pas']
    K = 3
    A = designs.build(case)
    objs0 = sorted(A.wirevector_set, key=lambda w: w.name) + sorted(A.logic, key=lambda n: (n.dests[0].name if n.dests else '', n.op))
    pairs = list(itertools.combinations(range(len(objs0)), 2))
    if case.get('sample'):
        # objects of the same kind first (where a tie is most likely to be broken by iteration order), then a spread of the rest
        def same(i, j):
            x, y = objs0[i], objs0[j]
            return type(x) is type(y) and getattr(x, 'op', None) == getattr(y, 'op', None)
        first = [p_ for p_ in pairs if same(*p_)]
        rest = [p_ for p_ in pairs if not same(*p_)]
        step = max(1, len(rest) // max(1, case['sample'] - len(first)))
        pairs = first[:case['sample']] + (rest[::step] if len(first) < case['sample'] else [])
    results = {}
    npaths = 0
    mods = [importlib.import_module('pyrtl.' + m) for m in PASS_MODULES]
    for (i, j) in pairs:
        def body():
            b = designs.build(case)
            ob_list = sorted(b.wirevector_set, key=lambda w: w.name) + sorted(b.logic, key=lambda n: (n.dests[0].name if n.dests else '', n.op))
            Ranked.memo = {}
            Ranked.setup(ob_list, [ob_list[i], ob_list[j]])
            for m in mods:
                m.__dict__['set'] = Ranked
            try:
                with ordered_block(b):
                    r = _run_pass(pas, b)
                    keep = (b.logic, b.wirevector_set)        # an in-place pass edits these
                b.logic, b.wirevector_set = keep
            finally:
                for m in mods:
                    m.__dict__.pop('set', None)
            _plain(b)
            _plain(r)
            sig = _signature(r)
            results.setdefault(sig, (b if r is not b else None, r))
            return sig
        Ranked.setup(objs0, [objs0[i], objs0[j]])
        ri, rj = Ranked.sym_rank[id(objs0[i])], Ranked.sym_rank[id(objs0[j])]
        swap = [z3.Or(z3.And(ri.t == 2 * i, rj.t == 2 * j), z3.And(ri.t == 2 * j, rj.t == 2 * i))]
        try:
            paths = explore(body, assumptions=list(Ranked.distinct) + swap, max_paths=200)
        except sym.HarnessError as e:
            if 'path budget' in str(e):
                ob.notes.append('pair skipped: path budget')
                continue
            raise
        npaths += len(paths)
        for p in paths:
            if p.exc is not None:
                ob.fact('pass-accepts-design-under-every-order', False, site + ':raises', detail=repr(p.exc))
    Ranked.sym_rank = {}
    ob.paths += npaths
    ob.notes.append('%d structurally distinct results over %d explored orders (%d object pairs)' % (len(results), npaths, len(pairs)))
    for n, (sig, (src, B)) in enumerate(sorted(results.items())):
        # a pass that returns a new block leaves its source as it was: that source is the reference (its maps refer to it)
        A = src if src is not None else designs.build(case)
        rsite = site + ':result-%d' % n
        try:
            B.sanity_check()
        except Exception as e:
            ob.fact('result-well-formed', False, rsite + ':sanity', detail=str(e))
            continue
        v = Vars()
        sp = spec.run(A, K, v, reg_init='reset', mem_init='sym')
        assume = [z3.Not(d) for d in sp.double_write]
        if pas == 'synth':
            from . import c03
            pair, mk = equiv.Pair.from_maps(A, B, B.io_map, B.reg_map, B.mem_map), c03.memkey(A)
        else:
            pair, mk = equiv.Pair.by_name(A, B), None
        equiv.bmc_outputs(ob, pair, K, v, rsite + ':behaviour-from-reset', reg_init='reset', memkeyB=mk, assume=assume,
                          compare_mems=False)


# ------------------------------------------------------------------------------------------
# build-time order: "building the same design twice ... yields byte-identical text". Every set() PyRTL creates WHILE THE DESIGN
# IS BUILT (conditional's predicate sets, Block.logic / wirevector_set, ...) is ordered by ranks keyed on wire creation index;
# two creation indices at a time swap places (symbolic ranks constrained to the transposition), everything else keeps creation
# order. The design is rebuilt from scratch on every explored path and all four texts are emitted from it.

class _BSetMeta(type):
    def __instancecheck__(cls, inst):
        return isinstance(inst, set)


class BRanked(set, metaclass=_BSetMeta):
    """stands in for the builtin `set` inside PyRTL's build-time modules"""
    sym_rank = {}      # creation index -> SymInt
    memo = {}
    constraints = []

    @classmethod
    def setup(cls, i, j):
        cls.memo = {}
        ri, rj = SymInt(z3.BitVec('brank_i', 12), False), SymInt(z3.BitVec('brank_j', 12), False)
        cls.sym_rank = {i: ri, j: rj}
        # the two objects keep their places or swap them (ranks 2*idx are the slots, other objects sit at 2*idx too but are
        # never equal to a chosen index)
        cls.constraints = [z3.Or(z3.And(ri.t == 2 * i, rj.t == 2 * j), z3.And(ri.t == 2 * j, rj.t == 2 * i))]

    @classmethod
    def key(cls, o):
        """(primary wire creation index, tie-break)"""
        extra = ''
        if type(o).__name__ == 'LogicNet':
            w = o.dests[0] if o.dests else (o.args[0] if o.args else None)
            extra = o.op
        elif isinstance(o, tuple):
            w = o[0]
            extra = repr(o[1:])
        else:
            w = o
        idx = getattr(w, '_vf_idx', None)
        if idx is None:
            idx = 100000 + (hash(repr(o)) % 1000)
        return idx, extra

    @classmethod
    def less(cls, a, b):
        (ia, ea), (ib, eb) = cls.key(a), cls.key(b)
        if ia == ib:
            return ea < eb
        ra, rb = cls.sym_rank.get(ia, 2 * ia), cls.sym_rank.get(ib, 2 * ib)
        if not sym.is_sym(ra) and not sym.is_sym(rb):
            return ra < rb
        k = (ia, ib)
        if k not in cls.memo:
            r = bool(ra < rb)
            cls.memo[k] = r
            cls.memo[(ib, ia)] = not r
        return cls.memo[k]

    strrev = None      # when set (a symbolic Bool): sets of strings iterate in sorted or in reverse sorted order

    def _ordered(self):
        import functools
        items = list(set.__iter__(self))
        if len(items) > 1 and all(isinstance(x, str) for x in items):
            # a set of strings (names): its order follows the string hashes, i.e. PYTHONHASHSEED; two representative orders
            base = sorted(items)
            if BRanked.strrev is not None:
                if 'strrev' not in BRanked.memo:
                    BRanked.memo['strrev'] = bool(BRanked.strrev)
                if BRanked.memo['strrev']:
                    base.reverse()
            return base
        return sorted(items, key=functools.cmp_to_key(lambda a, b: -1 if BRanked.less(a, b) else (1 if BRanked.less(b, a) else 0)))

    def __iter__(self):
        return iter(self._ordered())

    def pop(self):
        x = self._ordered()[0]
        set.remove(self, x)
        return x

    def copy(self):
        return BRanked(set.__iter__(self))

    def __or__(self, o):
        return BRanked(set.__or__(set(set.__iter__(self)), set(o)))

    def __sub__(self, o):
        return BRanked(set.__sub__(set(set.__iter__(self)), set(o)))

    def __and__(self, o):
        return BRanked(set.__and__(set(set.__iter__(self)), set(o)))

    def union(self, *o):
        return BRanked(set.union(set(set.__iter__(self)), *o))

    def difference(self, *o):
        return BRanked(set.difference(set(set.__iter__(self)), *o))

    def intersection(self, *o):
        return BRanked(set.intersection(set(set.__iter__(self)), *o))


BUILD_MODULES = ['core', 'wire', 'conditional', 'corecircuits', 'memory', 'helperfuncs', 'simulation', 'importexport', 'passes', 'transform']


@contextlib.contextmanager
def build_order_env():
    import importlib
    from pyrtl import wire as wiremod
    mods = [importlib.import_module('pyrtl.' + m) for m in BUILD_MODULES]
    counter = [0]
    orig_init = wiremod.WireVector.__init__

    def init(self, *a, **k):
        counter[0] += 1
        self._vf_idx = counter[0]
        return orig_init(self, *a, **k)
    wiremod.WireVector.__init__ = init
    # a fresh process starts its name counters from zero: so does every build here
    wiremod._reset_wire_indexers()
    from pyrtl import memory as memmod
    memmod._reset_memory_indexer()
    control_set_displays()
    for m in mods:
        m.__dict__['set'] = BRanked
    try:
        yield counter
    finally:
        wiremod.WireVector.__init__ = orig_init
        for m in mods:
            m.__dict__.pop('set', None)


def build_cond(d):
    """designs whose construction goes through conditional_assignment with several predicate terms per assignment"""
    k = d['kind']
    a, b, c = pyrtl.Input(1, 'a'), pyrtl.Input(1, 'b'), pyrtl.Input(1, 'c')
    x, y = pyrtl.Input(3, 'x'), pyrtl.Input(3, 'y')
    if k == 'cond_chain':
        r = pyrtl.Register(3, 'r')
        o = pyrtl.Output(3, 'o')
        w = pyrtl.WireVector(3, 'w')
        with pyrtl.conditional_assignment:
            with a:
                r.next |= x
            with b:
                r.next |= y
                w |= x
            with c:
                w |= y
            with pyrtl.otherwise:
                r.next |= (x ^ y)
        o <<= r + w
    elif k == 'cond_nested':
        r = pyrtl.Register(3, 'r', reset_value=2)
        o = pyrtl.Output(3, 'o')
        with pyrtl.conditional_assignment:
            with a:
                with b:
                    r.next |= x
                with c:
                    r.next |= y
                with pyrtl.otherwise:
                    o |= x
            with pyrtl.otherwise:
                with c:
                    o |= y
                    r.next |= (x & y)
    elif k == 'cond_mem':
        m = pyrtl.MemBlock(bitwidth=3, addrwidth=1, name='m', asynchronous=True)
        o = pyrtl.Output(3, 'o')
        with pyrtl.conditional_assignment:
            with a:
                m[b] |= x
            with c:
                with b:
                    m[a] |= y
                with pyrtl.otherwise:
                    o |= m[c]
        p = pyrtl.Output(3, 'p')
        p <<= m[a]
    return pyrtl.working_block()


BLIF20 = ('.model top\n.inputs clk a[0] a[1] b[0] b[1] c\n.outputs s[0] s[1] q y\n'
          '.names a[0] b[0] s[0]\n10 1\n01 1\n.names a[0] b[0] n\n11 1\n.names a[1] b[1] n s[1]\n100 1\n010 1\n001 1\n111 1\n'
          '.latch n q re clk 0\n.names c q y\n11 1\n.end\n')


def build_blif20(d):
    """a design built by input_from_blif (several vector ports and scalar ports)"""
    pyrtl.input_from_blif(BLIF20, merge_io_vectors=d.get('merge', True))
    return pyrtl.working_block()


designs.register_family('COND20', build_cond)
designs.register_family('BLIF20', build_blif20)


def all_texts(block):
    tr = concrete_trace(block)
    return tuple(emit(k, block, tr) for k in EMITTERS)


def port_texts(block):
    """after a transformation pass internal names may differ from run to run; the module's interface (the identifiers of its
    ports, which stand for the user's Input/Output names) may not"""
    text = emit('verilog', block)
    keep = [ln for ln in text.split('\n') if ln.startswith('module ') or ln.strip().startswith(('input', 'output'))]
    return ('\n'.join(keep),)


def build_then(case):
    blk = designs.build(case)
    then = case.get('then')
    if then == 'optimize':
        with pyrtl.set_working_block(blk, no_sanity_check=True):
            pyrtl.optimize(block=blk)
        return port_texts(blk)
    if then == 'synth+optimize':
        with pyrtl.set_working_block(blk, no_sanity_check=True):
            pyrtl.synthesize(block=blk)
            pyrtl.optimize()
            return port_texts(pyrtl.working_block())
    return all_texts(blk)


BLIF_TICK = ('.model gated\n.inputs clk tick d\n.outputs q y\n.names tick d n\n11 1\n.latch n q re clk 0\n.names q tick y\n10 1\n.end\n')
BLIF_OTHER = ('.model other\n.inputs tick a\n.outputs o p\n.names tick ck2\n1 1\n.latch a o re ck2 1\n.names a p\n0 1\n.end\n')


def run_rebuild(case, ob, site):
    """building the same design again later in the same process (after other designs were built and imported) gives the same
    texts and the same trace: nothing is carried from one build to the next"""
    def build():
        pyrtl.reset_working_block()
        pyrtl.input_from_blif(BLIF_TICK)
        b = pyrtl.working_block()
        return all_texts(b)
    first = build()
    # other work in between: an import whose clock has another name (the name of a data input of the first design), a design
    # built with the API, an analysis
    pyrtl.reset_working_block()
    pyrtl.input_from_blif(BLIF_OTHER, clock_name='tick')
    pyrtl.reset_working_block()
    designs.build({'fam': 'DET', 'kind': 'small'})
    pyrtl.TimingAnalysis()
    try:
        second = build()
    except Exception as e:
        return ob.fact('same-design-builds-again-later-in-the-process', False, site + ':raises', detail=repr(e))
    names = EMITTERS
    for n_, x, y in zip(names, first, second):
        ob.fact('same-%s-text-when-built-again-later' % n_, x == y, site + ':' + n_)


BACKEND_NAMES = ['table', 'time', 'output', 'block', 'd', 'regs', 'int', 'lambda', 'a$b', 'mems', 'outs', 'reg', 'if']


def _backend_design():
    pyrtl.reset_working_block()
    acc = None
    for i, n in enumerate(BACKEND_NAMES):
        w = pyrtl.WireVector(2, n)          # internal wires: locals of FastSimulation's generated code, wires of the Verilog module
        w <<= pyrtl.Input(2, 'i%d' % i) ^ (acc if acc is not None else 0)
        acc = w
    r = pyrtl.Register(2, 'wire')
    r.next <<= acc
    o = pyrtl.Output(2, 'o')
    o <<= r + acc
    return pyrtl.working_block()


def _backend_fast(b):
    sim = pyrtl.FastSimulation(block=b, tracer=pyrtl.SimulationTrace(
        wires_to_track=sorted(b.wirevector_subset((pyrtl.Input, pyrtl.Output, pyrtl.Register)), key=lambda w: w.name), block=b))
    for t in range(2):
        sim.step({w.name: (t + 1 + i) & w.bitmask for i, w in enumerate(sorted(b.wirevector_subset(pyrtl.Input), key=lambda w: w.name))})
    return sorted((getattr(k, 'name', k), list(v)) for k, v in sim.tracer.trace.items())


def _backend_steps(order):
    got = []
    for step in order:
        b = _backend_design()
        got.append((step, list(all_texts(b)) if step == 'export' else _backend_fast(b)))
    return got


def run_backend_history(case, ob, site):
    """the text of an export does not depend on which other back ends (FastSimulation's Python-identifier rules, the Verilog and
    VCD rules) handled the same names earlier in the process; and each back end still works after the others. Two histories in
    this process, and the opposite one in a fresh interpreter."""
    import subprocess
    import sys
    from ..core import REPO
    runs = []
    for order in (('export', 'fast', 'export'), ('fast', 'export', 'fast')):
        try:
            runs += _backend_steps(order)
        except Exception as e:
            return ob.fact('back-ends-work-in-the-order-%s' % '-'.join(order), False, site + ':raises', detail=repr(e))
    code = 'import json, sys\nfrom vf.props import c20\nprint("RESULT" + json.dumps(c20._backend_steps(("fast", "export"))))'
    env = dict(os.environ, PYTHONPATH=REPO + os.pathsep + os.path.dirname(os.path.dirname(os.path.dirname(os.path.abspath(__file__)))))
    pr = subprocess.run([sys.executable, '-c', code], env=env, capture_output=True, text=True, timeout=600)
    line = [ln for ln in pr.stdout.split('\n') if ln.startswith('RESULT')]
    if not ob.fact('back-ends-work-in-the-order-fast-export-in-a-fresh-interpreter', bool(line), site + ':raises', detail=pr.stderr[-400:]):
        return
    runs += [(st, [list(x) if isinstance(x, list) else x for x in r]) for st, r in json.loads(line[0][6:])]
    exports = [r for st, r in runs if st == 'export']
    fasts = [json.loads(json.dumps(r)) for st, r in runs if st == 'fast']
    for n_, col in zip(EMITTERS, zip(*exports)):
        ob.fact('same-%s-text-whichever-back-end-ran-first' % n_, len(set(col)) == 1, site + ':' + n_)
    ob.fact('same-FastSimulation-trace-whichever-back-end-ran-first', all(f == fasts[0] for f in fasts), site + ':fast')


def run_build_determinism(case, ob, site):
    # number of wires the build creates (deterministic): one plain build
    with build_order_env() as counter:
        BRanked.sym_rank, BRanked.memo, BRanked.constraints = {}, {}, []
        designs.build(case)
        nw = counter[0]
    pairs = list(itertools.combinations(range(1, nw + 1), 2))
    if case.get('sample') and len(pairs) > case['sample']:
        step = len(pairs) / float(case['sample'])
        pairs = [pairs[int(k * step)] for k in range(case['sample'])]
    pairs = pairs[case.get('chunk', 0)::4]
    texts = {}
    with build_order_env():     # the reference: plain creation order
        BRanked.sym_rank, BRanked.memo, BRanked.constraints = {}, {}, []
        texts[build_then(case)] = (0, 0)
    npaths = 0
    for (i, j) in pairs:
        def body():
            with build_order_env():
                BRanked.memo = {}
                return build_then(case)
        BRanked.setup(i, j)
        paths = explore(body, assumptions=list(BRanked.constraints), max_paths=64)
        npaths += len(paths)
        for p in paths:
            if p.exc is not None:
                ob.fact('design-builds-and-exports-under-every-order', False, site + ':raises', detail=repr(p.exc))
            else:
                texts.setdefault(p.result, (i, j))
    # sets of strings (port names, ...): sorted vs reverse sorted iteration
    BRanked.sym_rank, BRanked.memo, BRanked.constraints = {}, {}, []
    BRanked.strrev = sym.SymBool(z3.Bool('brank_strrev'))
    try:
        def body2():
            with build_order_env():
                BRanked.memo = {}
                return build_then(case)
        paths = explore(body2, max_paths=8)
    finally:
        BRanked.strrev = None
    npaths += len(paths)
    for p in paths:
        if p.exc is not None:
            ob.fact('design-builds-and-exports-under-every-order', False, site + ':raises', detail=repr(p.exc))
        else:
            texts.setdefault(p.result, ('strings', 'reversed'))
    BRanked.sym_rank, BRanked.memo = {}, {}
    # the interpreter's string-hash seed is part of the environment as well: the design is built and exported with hash() as
    # seen by PyRTL's modules replaced by a salted one (two salts besides the process's own)
    import builtins
    import importlib
    hmods = [importlib.import_module('pyrtl.' + m) for m in dict.fromkeys(EMIT_MODULES + PASS_MODULES + ['conditional', 'corecircuits'])]
    for salt in (0x5bd1e995, 0x9e3779b97f4a7c15):
        def salted(o, salt=salt):
            h = builtins.hash(o)
            return (h ^ salt) if isinstance(o, str) else h
        for m in hmods:
            m.__dict__['hash'] = salted
        try:
            texts.setdefault(build_then(case), ('hash', hex(salt)))
            npaths += 1
        except Exception as e:
            ob.fact('design-builds-and-exports-under-every-order', False, site + ':raises', detail=repr(e))
        finally:
            for m in hmods:
                m.__dict__.pop('hash', None)
    ob.paths += npaths
    ob.n += 1
    if len(texts) <= 1:
        ob.unsat += 1
    else:
        ts = sorted(texts)
        ta, tb = '\n'.join(ts[0]), '\n'.join(ts[1])
        diff = next((k for k, (x_, y_) in enumerate(zip(ta, tb)) if x_ != y_), min(len(ta), len(tb)))
        ob.sat.append({'property': PROP, 'obligation': 'same-bytes-when-the-design-is-built-under-every-set-order',
                       'site': site + ':bytes-differ', 'case': case, 'structural': True,
                       'detail': {'distinct_texts': len(texts), 'first': ta[max(0, diff - 120):diff + 120],
                                  'second': tb[max(0, diff - 120):diff + 120], 'swapped_creation_indices': list(texts[ts[1]])}})
    ob.sample = {'obligation': 'four texts identical over %d explored build orders (%d creation-index pairs)' % (npaths, len(pairs)),
                 'result': 'unsat' if len(texts) <= 1 else 'sat'}


# ------------------------------------------------------------------------------------------

def run_readonly(case, ob, site):
    call = case['call']
    block = designs.build(case)
    K = 3
    v = Vars()
    sp = spec.run(block, K, v, reg_init='reset', mem_init='sym')
    assume = [z3.Not(d) for d in sp.double_write]
    before = c11.trace_of(block, K, v, assume)
    fp0 = c11.fingerprint(block)
    io_before = sorted((w.name, w.bitwidth, type(w).__name__) for w in block.wirevector_subset((pyrtl.Input, pyrtl.Output)))
    tr = concrete_trace(block) if call in ('testbench', 'print_trace', 'print_vcd') else None
    buf = io.StringIO()
    decoy = None
    if case.get('wb') == 'foreign':      # the block is passed as block= while an unrelated block is the working block
        decoy = c11.decoy_block()
        pyrtl.set_working_block(decoy, no_sanity_check=True)
        fpd = c11.fingerprint(decoy)
    try:
        with contextlib.redirect_stdout(io.StringIO()):
            if call in ('verilog', 'testbench', 'firrtl', 'trivialgraph', 'graphviz'):
                emit(call, block, tr)
            elif call == 'svg':
                pyrtl.output_to_svg(buf, block=block)
            elif call == 'net_graph':
                pyrtl.net_graph(block)
            elif call == 'timing':
                ta = pyrtl.TimingAnalysis(block=block)
                ta.max_length()
                ta.critical_path(print_cp=False)
            elif call == 'area':
                pyrtl.area_estimation(block=block)
            elif call == 'paths':
                pyrtl.paths(block=block)
            elif call == 'print_trace':
                tr.print_trace(buf)
            elif call == 'print_vcd':
                tr.print_vcd(buf)
    except Exception as e:
        if call in ('svg', 'graphviz') and 'graphviz' in str(e).lower():
            return ob.fact('skipped-no-graphviz', True)
        return ob.fact('call-accepts-design', False, site + ':raises', detail='%s: %s' % (type(e).__name__, e))
    if decoy is not None:
        ob.fact('unrelated-working-block-untouched', c11.fingerprint(decoy) == fpd, site + ':foreign-working-block')
        pyrtl.set_working_block(block, no_sanity_check=True)
    if call != 'firrtl':
        ob.fact('block-fingerprint-unchanged', c11.fingerprint(block) == fp0, site + ':fingerprint')
    io_after = sorted((w.name, w.bitwidth, type(w).__name__) for w in block.wirevector_subset((pyrtl.Input, pyrtl.Output)))
    ob.fact('same-inputs-and-outputs', io_before == io_after, site + ':io')
    try:
        block.sanity_check()
    except Exception as e:
        return ob.fact('block-still-well-formed', False, site + ':sanity', detail=str(e))
    after = c11.trace_of(block, K, v, assume)
    ob.paths += len(before) + len(after)
    # behaviour: Inputs/Outputs/registers by name (firrtl may rename internal constants)
    for pa in before:
        for pb in after:
            if pa.exc or pb.exc:
                ob.fact('same-exception-behaviour', type(pa.exc) is type(pb.exc), site + ':exception')
                continue
            goals = []
            for w in block.wirevector_subset((pyrtl.Input, pyrtl.Output, pyrtl.Register)):
                if w.name in pa.trace and w.name in pb.trace:
                    for t in range(K):
                        goals.append(('same-trace:%s@%d' % (w.name, t), to_bv(pa.trace[w.name][t], w.bitwidth) == to_bv(pb.trace[w.name][t], w.bitwidth),
                                      site + ':behaviour'))
                else:
                    ob.fact('wire-still-present:%s' % w.name, False, site + ':missing-wire')
            for name, arr in pa.mems.items():
                goals.append(('same-mem:%s' % name, arr == pb.mems[name], site + ':behaviour'))
            ob.prove_all(goals, assume + pa.pc + pb.pc, v)


# ------------------------------------------------------------------------------------------

def key_collisions():
    """pairs of distinct legal names with equal sort keys (finite enumeration)"""
    alphabet = 'abA01_'
    names = []
    for n in range(1, 5):
        for tup in itertools.product(alphabet, repeat=n):
            s = ''.join(tup)
            if s[0] in 'abA_':
                names.append(s)
    out = {}
    for fn_name, fn in (('importexport._natural_sort_key', ie._natural_sort_key), ('simulation._trace_sort_key', simmod._trace_sort_key)):
        seen = {}
        coll = []
        for s in names:
            k = repr(fn(s))
            if k in seen:
                coll.append((seen[k], s))
            else:
                seen[k] = s
        out[fn_name] = coll
    return out


def run_keys(case, ob, site):
    coll = key_collisions()
    for fn, pairs in coll.items():
        ob.fact('sort-key-injective:%s' % fn, not pairs, site + ':' + fn, detail=pairs[:5])
    ob.sample = {'obligation': 'sort keys injective over %d names' % 780, 'result': 'unsat' if not any(coll.values()) else 'sat'}


def cases(tier, seed):
    out = [{'k': 'keys'}, {'k': 'rebuild'}, {'k': 'backend_history'}]
    dets = [{'fam': 'DET', 'kind': 'small'}, {'fam': 'DET', 'kind': 'bad_names'}, {'fam': 'DET', 'kind': 'tie_names', 'names': ['a1', 'a01']},
            {'fam': 'DET', 'kind': 'mem'}, {'fam': 'DET', 'kind': 'case_names'}, {'fam': 'DET', 'kind': 'mem3'},
            {'fam': 'DET', 'kind': 'mem_shared_we'}, {'fam': 'DET', 'kind': 'two_roms'}]
    for d in dets:
        for e in EMITTERS:
            if e == 'firrtl' and d['kind'] in ('bad_names', 'mem'):
                continue
            out.append(dict(d, k='determinism', emitter=e, sample=None if tier != 'quick' else 30))
    for d in [{'fam': 'COND20', 'kind': 'cond_chain'}, {'fam': 'COND20', 'kind': 'cond_nested'}, {'fam': 'COND20', 'kind': 'cond_mem'},
              {'fam': 'DET', 'kind': 'small'}, {'fam': 'DET', 'kind': 'mem'}, {'fam': 'DET', 'kind': 'bad_names'},
              {'fam': 'DET', 'kind': 'mem3'}, {'fam': 'BLIF20', 'kind': 'blif', 'merge': True}, {'fam': 'BLIF20', 'kind': 'blif_bits', 'merge': False}]:
        for ch in range(4):
            out.append(dict(d, k='build', sample=120 if tier == 'quick' else None, chunk=ch))
    # export AFTER a pass: the identifiers of the ports (they stand for the user's names) are the same in every run
    for d in [{'fam': 'DET', 'kind': 'bad_names'}, {'fam': 'DET', 'kind': 'small'}, {'fam': 'COND20', 'kind': 'cond_chain'}]:
        for then in ('optimize', 'synth+optimize'):
            for ch in range(4):
                out.append(dict(d, k='build', then=then, sample=120 if tier == 'quick' else None, chunk=ch))
    for d in [{'fam': 'PASSD', 'kind': 'dup_regs'}, {'fam': 'PASSD', 'kind': 'dup_exprs'}, {'fam': 'PASSD', 'kind': 'dup_consts'},
              {'fam': 'PASSD', 'kind': 'dup_mem'}, {'fam': 'PASSD', 'kind': 'swap_mux'}, {'fam': 'DET', 'kind': 'small'}]:
        for pas in PASSES20:
            out.append(dict(d, k='pass_order', pas=pas, sample=40 if tier == 'quick' else None))
    ro = designs.expr_cases(6 if tier == 'quick' else 150, seed + 51, n=6, maxw=4, nrom=0, ops=['+', '-', '&', '|', '^', '~', '<', 'x', 'c', 's', 'trunc', 'const']) + \
        [c for c in designs.seq_cases(widths=(3,)) if c['kind'] != 'rom_reg'] + designs.misc_cases()[:8] + [{'fam': 'DET', 'kind': 'small'},
                                                                                                       {'fam': 'DET', 'kind': 'func_rom'}, {'fam': 'DET', 'kind': 'list_rom'}]
    for i, c in enumerate(ro):
        calls = READONLY if (tier != 'quick' or i % 4 == 0 or c['fam'] == 'DET') else [READONLY[i % len(READONLY)], 'firrtl']
        for call in dict.fromkeys(calls):
            if call == 'firrtl' and (c['fam'] == 'SEQ' and 'mem' in c['kind'] or c['fam'] == 'MISC' and 'mem' in c['kind']):
                continue
            out.append(dict(c, k='readonly', call=call, wb='foreign' if (i + len(out)) % 2 else 'same'))
    return out


def site_of(c):
    if c['k'] == 'keys':
        return 'C20:sort-keys'
    if c['k'] == 'determinism':
        return 'C20:determinism:%s:%s' % (c['emitter'], c['kind'])
    if c['k'] == 'build':
        return 'C20:build-determinism:%s%s' % (c['kind'], ':then-' + c['then'] if c.get('then') else '')
    if c['k'] == 'pass_order':
        return 'C20:pass-order:%s:%s' % (c['pas'], c['kind'])
    if c['k'] == 'backend_history':
        return 'C20:back-ends-one-after-the-other'
    if c['k'] == 'rebuild':
        return 'C20:rebuild-later-in-the-process'
    return 'C20:readonly:%s' % c['call']


def run_case(case, ob, tier):
    {'keys': run_keys, 'determinism': run_determinism, 'readonly': run_readonly, 'build': run_build_determinism,
     'pass_order': run_pass_order, 'rebuild': run_rebuild, 'backend_history': run_backend_history}[case['k']](case, ob, site_of(case))


def replay(cex):
    c = cex['case']
    from ..core import Obligations
    ob = Obligations(PROP, c, 30000)
    run_case(c, ob, 'quick')
    bad = [x['obligation'] for x in ob.sat]
    if c['k'] in ('determinism', 'build') and bad:
        d = ob.sat[0].get('detail', {})
        return True, 'the same design exported under two iteration orders gives different text:\n--- A ---\n%s\n--- B ---\n%s' % (d.get('first'), d.get('second'))
    return cex['obligation'] in bad or (bool(bad) and not cex.get('structural')), 'failing on re-execution against the real code: %r' % bad[:6]
