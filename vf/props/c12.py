"""C12 — imported BLIF and ISCAS netlists compute the function the file defines.

Real code: input_from_blif (pyparsing grammar, extract_inputs/outputs/commands/cover/latch/flop/model_reference, flop_next
table, Subcircuit) and input_from_iscas_bench run concretely on generated texts; the imported block then runs on the real
Simulation symbolically (inputs per cycle and unspecified flop initial values are solver variables) against the
independent reader vf/bliftrans.py."""
import itertools
import random
import re
import z3
import pyrtl
from pyrtl import importexport as ie
from .. import simdrv, bliftrans
from ..simdrv import Vars, run_sim, sym_env
from ..sym import to_bv, SymInt

PROP = 'C12'
LEVEL = 'translation_validation'
ASSUMPTIONS = [
    'oracle: vf/bliftrans.py (cover = OR of cubes; Yosys cell semantics derived from the cell name, table in its docstring)',
    'flip-flops whose initial value BLIF leaves unspecified (latch init 2/3, Yosys cells) start from the SAME arbitrary bit on both sides; '
    'latch init 0/1/absent start from that value (absent = 0, as the importer documents)',
    'registers are matched through a wrapper around Subcircuit.add_reg (records the Register created for each Q); asynchronous pins are '
    'observed at clock edges',
    'an empty cover that lists inputs, off-set rows and multi-clock designs are outside the supported subset',
    'Simulation is the semantics of the imported block (C01); stubs/merge points of vf/simdrv.py',
]
DFFS = ['$_DFF_P_', '$_DFFE_PN_', '$_DFFE_PP_', '$_DFF_PP0_', '$_DFF_PP1_', '$_DFFE_PP0N_', '$_DFFE_PP0P_', '$_DFFE_PP1N_', '$_DFFE_PP1P_',
        '$_DFFSR_PPP', '$_DFFSRE_PPPN_', '$_DFFSRE_PPPP_', '$_SDFF_PN0_', '$_SDFF_PN1_', '$_SDFF_PP0_', '$_SDFF_PP1_', '$_SDFFE_PN0N_',
        '$_SDFFE_PN0P_', '$_SDFFE_PN1N_', '$_SDFFE_PN1P_', '$_SDFFE_PP0N_', '$_SDFFE_PP0P_', '$_SDFFE_PP1N_', '$_SDFFE_PP1P_', '$_SDFFCE_PN0N_',
        '$_SDFFCE_PN0P_', '$_SDFFCE_PN1N_', '$_SDFFCE_PN1P_', '$_SDFFCE_PP0N_', '$_SDFFCE_PP0P_', '$_SDFFCE_PP1N_', '$_SDFFCE_PP1P_']


def bounds(tier):
    return {'covers': 'every cover over 1-2 inputs (all subsets of the 3^n cubes, special-cased patterns in both row orders); seeded covers '
                      'over 3-4 inputs: %d' % (150 if tier == 'quick' else 6000),
            'flops': 'all 32 listed cell types + .latch with every init code', 'hierarchy': 'two-level .subckt, a model instantiated twice',
            'vectors': 'bit-indexed ports up to 12 bits, merge_io_vectors in {True, False}', 'bench': 'gate arity 1..4', 'K': 4}


def cover_text(nin, rows, name='o'):
    ins = ['i%d' % k for k in range(nin)]
    t = '.model top\n.inputs %s\n.outputs %s\n.names %s %s\n' % (' '.join(ins), name, ' '.join(ins), name)
    for cube in rows:
        t += '%s 1\n' % cube if nin else '1\n'
    return t + '.end\n'


def cases(tier, seed):
    out = []
    rng = random.Random(seed + 31)
    # exhaustive covers over 1 and 2 inputs
    for nin in (1, 2):
        cubes = [''.join(c) for c in itertools.product('01-', repeat=nin)]
        for k in range(0, len(cubes) + 1):
            for rows in itertools.combinations(cubes, k):
                if not rows:
                    continue        # an empty cover that lists inputs is outside the supported subset
                out.append({'k': 'blif', 'text': cover_text(nin, rows), 'K': 1, 'tag': 'cover%d' % nin})
                if 2 <= k <= 2:
                    out.append({'k': 'blif', 'text': cover_text(nin, rows[::-1]), 'K': 1, 'tag': 'cover%d' % nin})
    out.append({'k': 'blif', 'text': '.model top\n.inputs x\n.outputs o p q\n.names o\n1\n.names p\n.names x q\n1 1\n.end\n', 'K': 1, 'tag': 'const'})
    for _ in range(150 if tier == 'quick' else 6000):
        nin = rng.choice([3, 3, 4])
        rows = []
        for _r in range(rng.randint(1, 5)):
            rows.append(''.join(rng.choice('01-') for _c in range(nin)))
        out.append({'k': 'blif', 'text': cover_text(nin, rows), 'K': 1, 'tag': 'cover%d' % nin})
    # latches
    for init in ('', '0', '1', '2', '3'):
        t = ('.model top\n.inputs clk d e\n.outputs q o\n.latch n1 q re clk %s\n.names d e n1\n11 1\n.names q d o\n10 1\n01 1\n.end\n' % init)
        out.append({'k': 'blif', 'text': t, 'K': 4, 'tag': 'latch'})
    # every flip-flop flavour with every pin wired to an input
    for cell in DFFS:
        pins = 'C=clk D=d'
        if 'E_' in cell or cell.startswith('$_DFFSRE') or 'CE_' in cell:
            pins += ' E=e'
        pins += ' Q=q'
        if 'SR' in cell:
            pins += ' S=s'
        if re.search(r'_P[PN][01]|SR|SDFF', cell):
            pins += ' R=r'
        t = '.model top\n.inputs clk d e s r\n.outputs q o\n.subckt %s %s\n.names q d o\n11 1\n.end\n' % (cell, pins)
        out.append({'k': 'blif', 'text': t, 'K': 4, 'tag': 'cell:' + cell})
    # hierarchy: a model instantiated twice, two levels, outputs read internally
    hier = ('.model top\n.inputs clk a b c\n.outputs y z\n.subckt cell clk=clk p=a q=b r=n1\n.subckt cell clk=clk p=n1 q=c r=y\n'
            '.subckt wrap clk=clk u=y v=a w=z\n.end\n'
            '.model cell\n.inputs clk p q\n.outputs r\n.names p q t\n10 1\n.latch t s re clk 2\n.names s q r\n011 1\n1-0 1\n.names q r\n0 1\n.end\n')
    hier = hier.replace('.names s q r\n011 1\n1-0 1\n.names q r\n0 1\n', '.names s q t r\n011 1\n1-0 1\n')
    hier += '.model wrap\n.inputs clk u v\n.outputs w\n.subckt cell clk=clk p=u q=v r=m\n.names m u w\n01 1\n10 1\n.end\n'
    out.append({'k': 'blif', 'text': hier, 'K': 4, 'tag': 'hier'})
    # port names are local to a model: a data input of one model named like the clock port of another model (instantiated
    # earlier in the same file, or in an earlier import of the same process)
    regmaj = ('.model top\n.inputs clk a b sel\n.outputs y\n.subckt dreg d=a c=clk q=ra\n.subckt maj a=ra b=b c=sel y=y\n.end\n'
              '.model dreg\n.inputs d c\n.outputs q\n.latch d q re c 0\n.end\n'
              '.model maj\n.inputs a b c\n.outputs y\n.names a b c y\n11- 1\n1-1 1\n-11 1\n.end\n')
    out.append({'k': 'blif', 'text': regmaj, 'K': 3, 'tag': 'hier:clock-formal-name-reused-as-data'})
    out.append({'k': 'blif', 'text': regmaj.replace('.subckt dreg d=a c=clk q=ra\n.subckt maj a=ra b=b c=sel y=y\n',
                                                    '.subckt maj a=ra b=b c=sel y=y\n.subckt dreg d=a c=clk q=ra\n'),
                'K': 3, 'tag': 'hier:clock-formal-name-reused-as-data:reversed'})
    shift2 = ('.model shift2\n.inputs clk d[0] d[1]\n.outputs q[0] q[1]\n.subckt ff d=d[0] ck=clk q=q[0]\n.subckt ff d=d[1] ck=clk q=q[1]\n'
              '.end\n.model ff\n.inputs d ck\n.outputs q\n.latch d q re ck 1\n.end\n')
    gated = ('.model gated\n.inputs ck d[0] d[1]\n.outputs o[0] o[1]\n.subckt gate ck=ck d=d[0] y=o[0]\n.subckt gate ck=ck d=d[1] y=o[1]\n'
             '.end\n.model gate\n.inputs ck d\n.outputs y\n.names ck d y\n11 1\n.end\n')
    for merge in (True, False):
        out.append({'k': 'blif', 'text': shift2, 'K': 3, 'merge': merge, 'tag': 'hier:shift2'})
        out.append({'k': 'blif', 'text': gated, 'pre': shift2, 'K': 1, 'merge': merge, 'tag': 'hier:second-import-after-clocked-one'})
        out.append({'k': 'blif', 'text': shift2, 'pre': gated, 'K': 3, 'merge': merge, 'tag': 'hier:clocked-import-after-gated-one'})
    # top_model= names the model to build (not the first one listed); the models share their port names
    two = ('.model wrapper\n.inputs a b\n.outputs y\n.subckt core a=a b=b y=n\n.names n y\n0 1\n.end\n'
           '.model core\n.inputs a b\n.outputs y\n.names a b y\n11 1\n.end\n')
    for top in (None, 'core', 'wrapper'):
        for wb in ('same', 'foreign'):
            out.append({'k': 'blif', 'text': two, 'K': 1, 'top': top, 'wb': wb, 'tag': 'top_model:%s%s' % (top, ':block=' if wb == 'foreign' else '')})
    # without top_model the FIRST model of the file is the design, also when a later model instantiates it
    cellfirst = ('.model core\n.inputs a b\n.outputs y\n.names a b y\n11 1\n.end\n'
                 '.model wrapper\n.inputs a b\n.outputs y\n.subckt core a=a b=b y=n\n.names n y\n0 1\n.end\n')
    for top in (None, 'core', 'wrapper'):
        out.append({'k': 'blif', 'text': cellfirst, 'K': 1, 'top': top, 'tag': 'top_model:%s:cell-listed-first' % top})
    # an empty cover is the constant 0 whether or not the .names line lists inputs
    t = '.model top\n.inputs a b\n.outputs y z\n.names a b n\n.names n a y\n01 1\n10 1\n.names z\n.end\n'
    out.append({'k': 'blif', 'text': t, 'K': 1, 'tag': 'cover:empty-with-inputs'})
    t = '.model top\n.inputs a b\n.outputs y\n.names a y\n.end\n'
    out.append({'k': 'blif', 'text': t, 'K': 1, 'tag': 'cover:empty-with-one-input'})
    # the order of the lines is free: a plain buffer cover defined after the gates, latches and sub-circuits that read it
    t = ('.model top\n.inputs clk a b\n.outputs y q z\n.names n b y\n11 1\n.latch n q re clk 0\n.subckt inv i=n o=z\n.names a n\n1 1\n.end\n'
         '.model inv\n.inputs i\n.outputs o\n.names i o\n0 1\n.end\n')
    out.append({'k': 'blif', 'text': t, 'K': 3, 'tag': 'order:buffer-after-readers'})
    t = '.model top\n.inputs a b\n.outputs y\n.names m b y\n11 1\n.names n m\n1 1\n.names a n\n1 1\n.end\n'
    out.append({'k': 'blif', 'text': t, 'K': 1, 'tag': 'order:buffer-chain-after-reader'})
    # the bits of a vector port need not be listed next to each other
    for merge in (True, False):
        t = ('.model top\n.inputs x[0] y[0] x[1] y[1] c\n.outputs lo[0] hi[0] lo[1] s[0] hi[1] cout s[1]\n'
             '.names x[0] y[0] lo[0]\n11 1\n.names x[1] y[1] lo[1]\n11 1\n.names x[0] y[1] hi[0]\n1- 1\n-1 1\n.names x[1] y[0] hi[1]\n10 1\n01 1\n'
             '.names x[0] c s[0]\n10 1\n01 1\n.names x[1] c s[1]\n11 1\n.names y[0] y[1] cout\n11 1\n.end\n')
        out.append({'k': 'blif', 'text': t, 'K': 1, 'merge': merge, 'tag': 'vector:interleaved-bits'})
    # several latches fed by the same next-state signal, with different initial values
    for inits in (('0', '1'), ('1', '0'), ('1', '2', '0'), ('', '1'), ('3', '1', '1')):
        qs = ['q%d' % i for i in range(len(inits))]
        t = '.model top\n.inputs clk a b\n.outputs %s y\n.names a b n1\n11 1\n' % ' '.join(qs)
        for q, ini in zip(qs, inits):
            t += '.latch n1 %s re clk %s\n' % (q, ini)
        t += '.names %s y\n%s 1\n.end\n' % (' '.join(qs), '1' * len(qs))
        out.append({'k': 'blif', 'text': t, 'K': 3, 'tag': 'latch-shared-d'})
    # signal names that collide with names the importer makes up (the register of latch output q is internally 'q_reg')
    t = ('.model top\n.inputs clk a b\n.outputs o p\n.latch n1 q re clk 0\n.names a q n1\n10 1\n01 1\n.names a b q_reg\n11 1\n'
         '.names q q_reg o\n11 1\n.names q_reg p\n1 1\n.end\n')
    out.append({'k': 'blif', 'text': t, 'K': 4, 'tag': 'names:q_reg'})
    t2 = t.replace('.names a b q_reg', '.names a b tmp0').replace('q_reg', 'tmp0')
    out.append({'k': 'blif', 'text': t2, 'K': 4, 'tag': 'names:tmp0'})
    # vector ports
    for n in (1, 2, 3, 12):
        for merge in (True, False):
            ins = ' '.join('a[%d]' % i for i in range(n))
            outs = ' '.join('y[%d]' % i for i in range(n))
            body = ''
            for i in range(n):
                j = (i * 7 + 3) % n
                body += '.names a[%d] a[%d] y[%d]\n10 1\n' % (i, j, i) if i != j else '.names a[%d] y[%d]\n0 1\n' % (i, i)
            body += '.names a[%d] a[%d] hi\n10 1\n' % (n - 1, 1 % n) if n > 1 else ''
            t = '.model top\n.inputs %s x\n.outputs %s%s w\n%s.names y[0] x w\n11 1\n.end\n' % (ins, outs, ' hi' if n > 1 else '', body)
            out.append({'k': 'blif', 'text': t, 'K': 1, 'merge': merge, 'tag': 'vector%d' % n})
    # ISCAS .bench gates of arity 1..4
    for gate in ('AND', 'OR', 'NAND', 'NOR', 'XOR'):
        for ar in (1, 2, 3, 4) if tier != 'quick' else (2, 3, 4):
            if ar == 1:
                continue
            srcs = ', '.join('i%d' % k for k in range(ar))
            t = ''.join('INPUT(i%d)\n' % k for k in range(ar)) + 'OUTPUT(o)\nOUTPUT(p)\no = %s(%s)\nn = NOT(o)\np = BUFF(n)\n' % (gate, srcs)
            out.append({'k': 'bench', 'text': t, 'K': 1, 'tag': 'bench:%s/%d' % (gate, ar)})
    # gates whose operands are the same signal
    for gate in ('AND', 'OR', 'NAND', 'NOR', 'XOR'):
        t = 'INPUT(a)\nINPUT(b)\nOUTPUT(o)\nOUTPUT(p)\nt = %s(a, a)\no = BUFF(t)\nu = %s(t, t)\np = OR(u, b)\n' % (gate, gate)
        out.append({'k': 'bench', 'text': t, 'K': 1, 'tag': 'bench:%s/tied' % gate})
    t = 'INPUT(a)\nINPUT(b)\nOUTPUT(q)\nOUTPUT(o)\nq = DFF(n)\nn = XOR(a, q)\no = NAND(q, b)\n'
    out.append({'k': 'bench', 'text': t, 'K': 4, 'tag': 'bench:DFF'})
    # the order of the lines of a .bench file is free: a DFF defined after / before the gates that read it, its output an
    # OUTPUT or an internal signal
    for order in ('after', 'before'):
        for q_is_output in (False, True):
            dff = 'q = DFF(n)\n'
            gates = 'n = XOR(q, en)\ny = AND(q, a)\n'
            t = 'INPUT(en)\nINPUT(a)\nOUTPUT(y)\n' + ('OUTPUT(q)\n' if q_is_output else '') + (gates + dff if order == 'after' else dff + gates)
            out.append({'k': 'bench', 'text': t, 'K': 4, 'tag': 'bench:DFF-%s-readers%s' % (order, ':output' if q_is_output else '')})
    # two flip-flops in a ring, each defined before the other is
    t = 'INPUT(a)\nOUTPUT(y)\np = DFF(q2)\nq2 = XOR(q, a)\nq = DFF(p)\ny = OR(p, q)\n'
    out.append({'k': 'bench', 'text': t, 'K': 4, 'tag': 'bench:DFF-ring'})
    out += repo_texts()
    # invocation scope: a sample of the texts again through the documented block= argument under a foreign working block
    pick = [c for c in out if c['tag'] in ('hier', 'names:q_reg', 'bench:DFF', 'vector3', 'latch-shared-d', 'cell:$_DFFE_PP0P_',
                                           'bench:XOR/2', 'hier:shift2')]
    out += [dict(c, wb='foreign', tag=c['tag'] + ':block=') for c in pick]
    return out


def repo_texts():
    """the BLIF / .bench texts embedded in the repository's own tests (Yosys-generated netlists): real-world inputs for both the
    importer and the independent reader. .bench texts containing a gate with more than two inputs are left out (they hit the
    open known finding on gate arity at a site that would name the whole file)."""
    import ast
    import os
    from ..core import REPO
    path = os.path.join(REPO, 'tests', 'test_importexport.py')
    out = []
    try:
        tree = ast.parse(open(path).read())
    except Exception:
        return out
    for node in tree.body:
        if not (isinstance(node, ast.Assign) and len(node.targets) == 1 and isinstance(node.targets[0], ast.Name)
                and isinstance(node.value, ast.Constant) and isinstance(node.value.value, str)):
            continue
        name, text = node.targets[0].id, node.value.value
        if name.endswith('_blif'):
            for merge in (True, False):
                out.append({'k': 'blif', 'text': text, 'K': 3, 'merge': merge, 'tag': 'repo:%s' % name})
        elif '_bench' in name:
            ar = max([len(m.group(1).split(',')) for m in re.finditer(r'=\s*\w+\(([^)]*)\)', text)] or [0])
            if ar <= 2:
                out.append({'k': 'bench', 'text': text, 'K': 3, 'tag': 'repo:%s' % name})
    return out


def site_of(c):
    return 'C12:%s:%s' % (c['k'], c['tag'])


def import_block(case, rec):
    pyrtl.reset_working_block()
    orig = ie.Subcircuit.add_reg

    def add_reg(self, original_name, wire):
        rec.append((original_name, wire))
        return orig(self, original_name, wire)
    ie.Subcircuit.add_reg = add_reg
    target = None
    if case.get('wb') == 'foreign':
        # the documented block= form: the netlist goes into the given block while another block is the working block
        target = pyrtl.Block()
        decoy = pyrtl.working_block()
        with pyrtl.set_working_block(decoy, no_sanity_check=True):
            x_ = pyrtl.Input(1, 'vf_decoy_in')
            y_ = pyrtl.Output(1, 'vf_decoy_out')
            y_ <<= ~x_
        ndecoy = (len(decoy.logic), len(decoy.wirevector_set))
    kwb = {'block': target} if target is not None else {}
    try:
        if case['k'] == 'blif':
            if case.get('pre'):
                # a history: another netlist was imported earlier in this process
                pyrtl.input_from_blif(case['pre'], merge_io_vectors=case.get('merge', True))
                pyrtl.reset_working_block()
                del rec[:]
            if case.get('top'):
                kwb['top_model'] = case['top']
            pyrtl.input_from_blif(case['text'], merge_io_vectors=case.get('merge', True), **kwb)
        else:
            import io
            import contextlib
            with contextlib.redirect_stdout(io.StringIO()):
                pyrtl.input_from_iscas_bench(case['text'], **kwb)
    finally:
        ie.Subcircuit.add_reg = orig
    if target is not None:
        if (len(decoy.logic), len(decoy.wirevector_set)) != ndecoy:
            raise pyrtl.PyrtlError('the import added hardware to the working block although block= named another block')
        pyrtl.set_working_block(target, no_sanity_check=True)
        return target
    return pyrtl.working_block()


def port_value(getvar, name, block):
    """value of the BLIF-level signal `name` given block-level port variables (bit-indexed vectors may be merged)"""
    m = re.match(r'(.+)\[(\d+)\]$', name)
    if name in block.wirevector_by_name or not m:
        return getvar(name, None)
    return getvar(m.group(1), int(m.group(2)))


def run_case(case, ob, tier):
    site = site_of(case)
    rec = []
    try:
        block = import_block(case, rec)
    except Exception as e:
        ob.fact('importer-accepts-supported-text', False, site + ':raises', detail='%s: %s' % (type(e).__name__, e))
        return
    K = case['K']
    v = Vars()
    if case['k'] == 'blif' and case['tag'].startswith('repo:'):
        # a text whose signals are not all driven (flops commented out) defines no function: nothing to compare
        models_, top_ = bliftrans.parse_blif(case['text'])
        flat_ = bliftrans.Flat(models_, case.get('top') or top_)
        try:
            flat_.eval_cycle({n: False for n in flat_.inputs}, {q: False for q, _k, _d in flat_.state})
        except KeyError as e:
            if 'undriven' in str(e):
                ob.notes.append('repository text %s leaves signals undriven: skipped' % case['tag'])
                return
            raise
    regs = sorted(block.wirevector_subset(pyrtl.Register), key=lambda r: r.name)
    unspecified = {r.name: SymInt.mk(v.reg(r.name, 1), False) for r in regs if r.reset_value is None}
    with sym_env([block]):
        rs = run_sim(block, K, v, reg_init=unspecified, mem_init='default', track='io')
    ob.paths += len(rs)
    if len(rs) == 1 and rs[0].exc is not None and not rs[0].pc:
        # the imported block cannot be simulated at all (undriven / doubly driven wires ...): the import did not produce
        # the function the file defines
        ob.fact('imported-block-simulates', False, site + ':unsimulable', detail='%s: %s' % (type(rs[0].exc).__name__, rs[0].exc))
        return
    r = simdrv.single_path(rs)

    def invar(t):
        def get(name, bit):
            w = block.wirevector_by_name[name]
            x = v.inp(name, t, w.bitwidth)
            return z3.Extract(bit, bit, x) == 1 if bit is not None else (x == 1)
        return get
    goals = []
    if case['k'] == 'blif':
        models, top = bliftrans.parse_blif(case['text'])
        flat = bliftrans.Flat(models, case.get('top') or top)
        # initial state per Q in the oracle, matched to the Register recorded for that Q (creation order = text order)
        state = {}
        regq = {}
        for (qname, kind, data), (orig_name, reg) in zip(flat.state, rec):
            regq[qname] = reg
        ob.fact('one-register-per-flop', len(flat.state) == len(rec) == len(regs), site + ':registers')
        for qname, kind, data in flat.state:
            reg = regq.get(qname)
            if kind == 'latch' and data[1] in ('0', '1'):
                state[qname] = data[1] == '1'
            else:
                state[qname] = v.reg(reg.name, 1) == 1 if reg is not None else False
        for t in range(K):
            ins = {n: port_value(invar(t), n, block) for n in flat.inputs}
            outs, state = flat.eval_cycle(ins, state)
            goals += out_goals(block, r, outs, t, site)
    else:
        parsed = bliftrans.parse_bench(case['text'])
        dffs = [g[0] for g in parsed[2] if g[1] == 'DFF']
        state = {q: (v.reg(reg.name, 1) == 1) for q, reg in zip(dffs, regs)}
        for t in range(K):
            ins = {n: invar(t)(n, None) for n in parsed[0]}
            outs, state = bliftrans.bench_eval(parsed, ins, state)
            goals += out_goals(block, r, outs, t, site)
    ob.prove_all(goals, r.pc, v)


def out_goals(block, r, outs, t, site):
    goals = []
    for name, val in outs.items():
        m = re.match(r'(.+)\[(\d+)\]$', name)
        if name in r.trace:
            got = to_bv(r.trace[name][t], 1) == 1
        elif m and m.group(1) in r.trace:
            w = block.wirevector_by_name[m.group(1)]
            got = z3.Extract(int(m.group(2)), int(m.group(2)), to_bv(r.trace[m.group(1)][t], w.bitwidth)) == 1
        else:
            goals.append(('output-present:%s' % name, z3.BoolVal(False), site + ':missing-output'))
            continue
        val = val if isinstance(val, z3.ExprRef) else z3.BoolVal(bool(val))
        goals.append(('output:%s@%d' % (name, t), got == val, site + ':value'))
    return goals


def replay(cex):
    case = cex['case']
    rec = []
    try:
        block = import_block(case, rec)
    except Exception as e:
        return True, 'importer raised %s: %s' % (type(e).__name__, e)
    if cex.get('structural') and cex.get('obligation') == 'imported-block-simulates':
        try:
            sim = pyrtl.Simulation(block=block)
            sim.step({w.name: 0 for w in block.wirevector_subset(pyrtl.Input)})
            return False, 'the imported block simulates'
        except Exception as e:
            return True, 'the imported block cannot be simulated: %s: %s\ntext:\n%s' % (type(e).__name__, e, case['text'])
    if cex.get('structural'):
        return True, 'structural fact failed: %r' % (cex.get('detail'),)
    mv = cex.get('model', {})
    K = case['K']
    regs = sorted(block.wirevector_subset(pyrtl.Register), key=lambda r: r.name)
    rmap = {r: mv.get('regs', {}).get(r.name, 0) for r in regs if r.reset_value is None}
    sim = pyrtl.Simulation(block=block, register_value_map=rmap)

    def inp(name, t):
        x = mv.get('inputs', {}).get(name, {})
        return x.get(str(t), x.get(t, 0))
    if case['k'] == 'blif':
        models, top = bliftrans.parse_blif(case['text'])
        flat = bliftrans.Flat(models, case.get('top') or top)
        state = {}
        for (qname, kind, data), (orig_name, reg) in zip(flat.state, rec):
            state[qname] = (data[1] == '1') if (kind == 'latch' and data[1] in ('0', '1')) else bool(mv.get('regs', {}).get(reg.name, 0))
        names = flat.inputs
    else:
        parsed = bliftrans.parse_bench(case['text'])
        dffs = [g[0] for g in parsed[2] if g[1] == 'DFF']
        state = {q: bool(mv.get('regs', {}).get(reg.name, 0)) for q, reg in zip(dffs, regs)}
        names = parsed[0]
    bad = []
    for t in range(K):
        step = {w.name: inp(w.name, t) for w in block.wirevector_subset(pyrtl.Input)}
        sim.step(step)

        def get(name, bit):
            return bool((step[name] >> bit) & 1) if bit is not None else bool(step[name])
        ins = {n: port_value(get, n, block) for n in names}
        if case['k'] == 'blif':
            outs, state = flat.eval_cycle(ins, state)
        else:
            outs, state = bliftrans.bench_eval(parsed, ins, state)
        for name, val in outs.items():
            m = re.match(r'(.+)\[(\d+)\]$', name)
            if name in block.wirevector_by_name:
                got = sim.inspect(name)
            elif m:
                got = (sim.inspect(m.group(1)) >> int(m.group(2))) & 1
            else:
                continue
            if bool(got) != bool(val):
                bad.append('cycle %d: %s = %d, the file defines %d' % (t, name, got, int(bool(val))))
    return bool(bad), 'text:\n%s\ninputs=%r\n%s' % (case['text'], mv, '\n'.join(bad[:8]))
