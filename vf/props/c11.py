"""C11 — copying and non-updating passes never disturb the source block.

Real code: copy_block/_clone_block_and_wires/clone_wire/_copy_net/MemBlock._make_copy/RomBlock._make_copy,
optimize(update_working_block=False), synthesize(update_working_block=False), set_working_block. The source's
symbolic K-cycle trace before the call is compared (solver) with its trace after; the result is compared with the
source from the declared reset state and from arbitrary corresponding states; then API edits / simulations on one
block are followed by re-checking the other."""
import z3
import pyrtl
from pyrtl.memory import RomBlock
from .. import designs, equiv, simdrv, spec
from ..simdrv import Vars, run_sim, sym_env
from ..sym import to_bv
from . import c03

PROP = 'C11'
LEVEL = 'model_checking'
ASSUMPTIONS = [
    'fingerprint = nets (op, op_param ids, arg/dest wire identities), wires (identity, class, name, bitwidth, reset_value, '
    'Const value), memories (identity, id, name, widths, asynchronous flag, recorded read/write port nets), ROM data identity, '
    'legal_ops, rtl_assert_dict',
    'mutating a user-owned romdata list in place is not a block edit (not asserted)',
    'two enabled writes to one address in a cycle excluded (undefined)',
    'stubs/merge points of vf/simdrv.py',
]
FUNCS = ['copy', 'synth', 'synth_unmerged', 'opt']
EDITS = ['add_logic', 'rename', 'simulate_write', 'add_read_port', 'edit_result', 'rename_result', 'rename_source_foreign',
         'legal_ops_result', 'legal_ops_source']


def bounds(tier):
    return {'functions': FUNCS, 'edit scripts': EDITS, 'K': 3, 'EXPR designs': 20 if tier == 'quick' else 300}


def cases(tier, seed):
    out = []
    if tier == 'quick':
        base = designs.op_cases([1, 3], ops='w+-*<xcsm', mul_max=3) + designs.op_cases([3], ops='w+', dests=('reg',))
        base += [dict(c, reset=5 % (1 << c['wd'])) for c in designs.op_cases([3], ops='w', dests=('reg',))]
        base += [dict(c, reset=0) for c in designs.op_cases([1, 3], ops='w+', dests=('reg',))]
        base += designs.expr_cases(20, seed, n=6, maxw=4) + designs.seq_cases() + designs.misc_cases()[:10] + designs.misc_cases()[-4:] + [{'fam': 'MISC', 'kind': 'rtl_assert', 'w': 2}]
    else:
        base = designs.op_cases([1, 2, 3, 4, 8], ops='w~&|^n+-*<>=xcsm', mul_max=4) + designs.op_cases([1, 3, 8], ops='w+-', dests=('reg',))
        base += [dict(c, reset=(1 << c['wd']) - 1) for c in designs.op_cases([1, 3, 8], ops='w', dests=('reg',))]
        base += [dict(c, reset=0) for c in designs.op_cases([1, 3, 8], ops='w+x', dests=('reg',))]
        base += designs.expr_cases(300, seed, n=8, maxw=5) + designs.seq_cases(widths=(1, 4, 8)) + designs.misc_cases()
        base += [{'fam': 'MISC', 'kind': 'rtl_assert', 'w': 2}, {'fam': 'MISC', 'kind': 'rtl_assert', 'w': 3}]
    base += [{'fam': 'C11X', 'kind': 'same_name_roms'}, {'fam': 'C11X', 'kind': 'generator_twice'}]
    # designs in which constant propagation has something to fold into NEW constants (which belong to the result, not the source)
    cop = designs.constop_cases()
    base += [{'fam': 'MISC', 'kind': 'const_folds'}] + (cop[::max(1, len(cop) // 14)] if tier == 'quick' else cop)
    # declared but unconnected Inputs are part of the interface
    base += [dict(c, spare=1 + i % 2) for i, c in enumerate(designs.op_cases([3], ops='w+x', mul_max=0))]
    for i, c in enumerate(base):
        for f in FUNCS:
            # 'foreign': the source is passed as block= while an unrelated block is the working block
            out.append(dict(c, K=3, func=f, edit=EDITS[(i + FUNCS.index(f)) % len(EDITS)], wb='foreign' if (i + FUNCS.index(f)) % 3 == 0 else 'same'))
    return out


def build_c11x(d):
    """designs in which distinct memories share a name (legal: a generator that names its internal memory, instantiated twice)"""
    k = d['kind']
    a = pyrtl.Input(2, 'a')
    if k == 'same_name_roms':
        r1 = pyrtl.RomBlock(bitwidth=4, addrwidth=2, romdata=[1, 7, 12, 3], name='tbl', asynchronous=True)
        r2 = pyrtl.RomBlock(bitwidth=4, addrwidth=2, romdata=[9, 2, 5, 14], name='tbl', asynchronous=True)
        o1, o2 = pyrtl.Output(4, 'o1'), pyrtl.Output(4, 'o2')
        o1 <<= r1[a]
        o2 <<= r2[a]
    else:
        def unit(tag, data):
            rom = pyrtl.RomBlock(bitwidth=3, addrwidth=2, romdata=data, name='lut', asynchronous=True)
            r = pyrtl.Register(3, 'acc_' + tag)
            r.next <<= (r + rom[a])[0:3]
            return r
        o1, o2 = pyrtl.Output(3, 'o1'), pyrtl.Output(3, 'o2')
        o1 <<= unit('x', {0: 1, 1: 2, 2: 3, 3: 4})
        o2 <<= unit('y', lambda i: (5 * i + 2) % 8)
    return pyrtl.working_block()


designs.register_family('C11X', build_c11x)


def fingerprint(b):
    wires = sorted((id(w), type(w).__name__, w.name, w.bitwidth, getattr(w, 'reset_value', None),
                    getattr(w, 'val', None)) for w in b.wirevector_set)
    nets = sorted((n.op, tuple(id(x) if not isinstance(x, int) else x for x in (n.op_param or ())),
                   tuple(id(a) for a in n.args), tuple(id(d) for d in n.dests)) for n in b.logic)
    def ports(lst):
        # a memory's own record of its ports (area/path analysis read it): the nets by identity of their wires
        return tuple((n.op, tuple(id(a) for a in n.args), tuple(id(d) for d in n.dests)) for n in lst)
    mems = sorted((id(n.op_param[1]), n.op_param[1].id, n.op_param[1].name, n.op_param[1].bitwidth,
                   n.op_param[1].addrwidth, n.op_param[1].asynchronous,
                   id(n.op_param[1].data) if isinstance(n.op_param[1], RomBlock) else None,
                   ports(getattr(n.op_param[1], 'readport_nets', ())), ports(getattr(n.op_param[1], 'writeport_nets', ())),
                   getattr(n.op_param[1], 'num_ports', None))
                  for n in b.logic_subset('m@'))
    byname = sorted((k, id(v)) for k, v in b.wirevector_by_name.items())
    membyname = sorted((k, id(v)) for k, v in getattr(b, 'memblock_by_name', {}).items())
    asserts = sorted((id(k), id(v)) for k, v in getattr(b, 'rtl_assert_dict', {}).items())
    return (wires, nets, mems, byname, membyname, tuple(sorted(b.legal_ops)), asserts)


def decoy_block():
    b = pyrtl.Block()
    with pyrtl.set_working_block(b, no_sanity_check=True):
        x = pyrtl.Input(2, 'x_other')
        r = pyrtl.Register(2, 'r_other')
        r.next <<= x
        y = pyrtl.Output(2, 'y_other')
        y <<= ~r
    return b


def mems_registered(B):
    """every name used by a memory of B resolves, in B.memblock_by_name, to one of B's own memories of that name (several
    distinct memories may share a name)"""
    byname = {}
    for n in B.logic_subset('m@'):
        byname.setdefault(n.op_param[1].name, set()).add(id(n.op_param[1]))
    return all(id(B.memblock_by_name.get(k)) in ids for k, ids in byname.items())


def call(case, A):
    f = case['func']
    if f == 'copy':
        return pyrtl.copy_block(A, update_working_block=False)
    if f == 'synth':
        return pyrtl.synthesize(update_working_block=False, block=A)
    if f == 'synth_unmerged':
        return pyrtl.synthesize(update_working_block=False, merge_io_vectors=False, block=A)
    if f == 'opt':
        return pyrtl.optimize(update_working_block=False, block=A)
    raise ValueError(f)


def make_pair(case, A, B):
    if case['func'] in ('synth', 'synth_unmerged'):
        return equiv.Pair.from_maps(A, B, B.io_map, B.reg_map, B.mem_map), c03.memkey(A)
    return equiv.Pair.by_name(A, B), None


def trace_of(block, K, v, assume):
    with sym_env([block]):
        rs = run_sim(block, K, v, reg_init='reset', mem_init='sym', track='all', assumptions=assume)
    return rs


def same_trace(ob, A, before, after, assume, v, site):
    for pa in before:
        for pb in after:
            if (len(before) > 1 or len(after) > 1) and not equiv._compatible(assume, pa, pb):
                continue        # the two runs took contradictory decisions (ROM hole vs. no hole ...): no common input
            goals = []
            if pa.exc or pb.exc:
                ob.fact('same-exception-behaviour', type(pa.exc) is type(pb.exc), site + ':exception')
                continue
            for name in sorted(pa.trace):
                w = A.wirevector_by_name.get(name)
                if name not in pb.trace or w is None:
                    ob.fact('wire-still-traced:%s' % name, False, site + ':trace-shape')
                    continue
                for t in range(len(pa.trace[name])):
                    goals.append(('src-trace:%s@%d' % (name, t),
                                  to_bv(pa.trace[name][t], w.bitwidth) == to_bv(pb.trace[name][t], w.bitwidth), site + ':trace'))
            for m, arr in pa.mems.items():
                goals.append(('src-mem:%s' % m, arr == pb.mems[m], site + ':mem'))
            ob.prove_all(goals, list(assume) + pa.pc + pb.pc, v)


def apply_edit(case, A, B):
    """a PyRTL-API edit or simulation on one block; returns the block that must be unaffected"""
    e = case['edit']
    if e in ('edit_result', 'rename_result', 'legal_ops_result'):
        target, other = B, A
    else:
        target, other = A, B
    # 'rename_result' / 'rename_source_foreign': the edit is made through the object's own API while the OTHER block is the
    # working block (as it is right after a call with update_working_block=False)
    wb = other if e in ('rename_result', 'rename_source_foreign') else target
    with pyrtl.set_working_block(wb, no_sanity_check=True):
        if e in ('add_logic', 'edit_result'):
            ins = sorted(target.wirevector_subset(pyrtl.Input), key=lambda w: w.name)
            if ins:
                x = ins[0]
                o = pyrtl.Output(len(x), 'vf_extra_out')
                o <<= ~x
        elif e in ('rename', 'rename_result', 'rename_source_foreign'):
            outs = sorted(target.wirevector_subset(pyrtl.Output), key=lambda w: w.name)
            if outs:
                outs[0].name = 'vf_renamed'
            regs = sorted(target.wirevector_subset(pyrtl.Register), key=lambda w: w.name)
            if regs and e != 'rename':
                regs[0].name = 'vf_renamed_reg'
        elif e == 'add_read_port':
            mems = list(simdrv.mems_of(target).values())
            if mems:
                m = mems[0]
                ra = pyrtl.Input(m.addrwidth, 'vf_ra')
                o = pyrtl.Output(m.bitwidth, 'vf_rd')
                try:
                    o <<= m[ra]
                except pyrtl.PyrtlError:   # port limit reached: the edit is refused, nothing changes
                    o <<= 0
        elif e in ('legal_ops_result', 'legal_ops_source'):
            # the documented legal_ops member edited in place (as before lowering one block to simpler primitives)
            target.legal_ops.discard('*')
            target.legal_ops.add('q')
        elif e == 'simulate_write':
            sim = pyrtl.Simulation(block=target)
            for t in range(3):
                sim.step({w.name: (w.bitmask if t % 2 else 1 & w.bitmask) for w in target.wirevector_subset(pyrtl.Input)})
    return other


def site_of(case):
    return 'C11:%s:%s' % (case['func'], c03.site_of(dict(case, merge=True)).split(':', 2)[2])


def run_case(case, ob, tier):
    site = site_of(case)
    A = designs.build(case)
    K = case['K']
    v = Vars()
    sp = spec.run(A, K, v, reg_init='reset', mem_init='sym')
    assume = [z3.Not(d) for d in sp.double_write]
    before = trace_of(A, K, v, assume)
    fp0 = fingerprint(A)
    decoy = None
    if case.get('wb') == 'foreign':
        decoy = decoy_block()
        pyrtl.set_working_block(decoy, no_sanity_check=True)
        fpd = fingerprint(decoy)
    wb0 = pyrtl.working_block()
    try:
        B = call(case, A)
    except Exception as e:
        ob.fact('call-accepts-design', False, site + ':raises', detail='%s: %s' % (type(e).__name__, e))
        return
    if decoy is not None:
        ob.fact('unrelated-working-block-untouched', fingerprint(decoy) == fpd, site + ':foreign-working-block')
    ob.fact('source-fingerprint-unchanged', fingerprint(A) == fp0, site + ':fingerprint')
    ob.fact('working-block-left-as-it-was', pyrtl.working_block() is wb0, site + ':working_block')
    ob.fact('result-is-a-different-block', B is not A, site + ':same-object')
    shared = set(map(id, A.wirevector_set)) & set(map(id, B.wirevector_set))
    ob.fact('no-shared-wire-objects', not shared, site + ':shared-wires')
    amems = {id(n.op_param[1]) for n in A.logic_subset('m@')}
    bmems = {id(n.op_param[1]) for n in B.logic_subset('m@')}
    ob.fact('no-shared-memory-objects', not (amems & bmems), site + ':shared-mems')
    if case['func'] in ('copy', 'opt', 'synth'):
        sig = lambda blk: sorted((w.name, w.bitwidth, type(w).__name__) for w in blk.wirevector_subset((pyrtl.Input, pyrtl.Output)))
        ob.fact('result-has-the-interface-of-the-source', sig(A) == sig(B), site + ':interface', detail=[sig(A), sig(B)])
    # rtl_assert is part of what the design does when simulated: the result asserts what the source asserts
    if A.rtl_assert_dict:
        bn = {w.name: (w, e) for w, e in B.rtl_assert_dict.items()}
        ok = all(w.name in bn and bn[w.name][1] is e and bn[w.name][0] in B.wirevector_set for w, e in A.rtl_assert_dict.items())
        ob.fact('assertions-of-the-source-are-assertions-of-the-result', ok, site + ':rtl_assert',
                detail={'source': sorted(w.name for w in A.rtl_assert_dict), 'result': sorted(bn)})
    # the result's memories are registered with the result (and only there)
    ob.fact('result-memories-registered-with-result', mems_registered(B), site + ':memblock_by_name')
    if case['func'] in ('copy', 'opt'):
        ra = {r.name: r.reset_value for r in A.wirevector_subset(pyrtl.Register)}
        rb = {r.name: r.reset_value for r in B.wirevector_subset(pyrtl.Register)}
        ob.fact('register-reset-values-preserved', all(rb.get(k, v_) == v_ for k, v_ in ra.items() if k in rb),
                site + ':reset_value', detail=[ra, rb])
    after = trace_of(A, K, v, assume)
    ob.paths += len(before) + len(after)
    same_trace(ob, A, before, after, assume, v, site + ':source-after-call')
    # result behaves like the source (reset values and ROM contents count)
    pair, mk = make_pair(case, A, B)
    if case['func'] == 'opt':
        gone = {r.name for r in A.wirevector_subset(pyrtl.Register)} - {r.name for r in B.wirevector_subset(pyrtl.Register)}
        nxt = {n.dests[0].name: n.args[0] for n in A.logic_subset('r')}
        vs = Vars('k_')
        sps = spec.run(A, 1, vs, reg_init='sym', mem_init='sym')

        def const_next(g):
            # the register's next-value is a compile-time constant: its term over arbitrary inputs and state folds to a numeral
            w_ = nxt.get(g)
            return w_ is not None and z3.is_bv_value(z3.simplify(sps.trace[w_.name][0]))
        if gone and all(const_next(g) for g in gone):
            # optimize() removed registers whose next-value is a constant: the result may differ from the source until the
            # steady state (the sanctioned difference decided under C04); only the source-side claims are checked here.
            # (registers that disappear for any other reason get no such allowance)
            ob.notes.append('optimize eliminated constant registers: result-vs-source comparison left to C04')
            return
    equiv.bmc_outputs(ob, pair, K, v, site + ':result-vs-source:bmc-from-reset', reg_init='reset', memkeyB=mk, assume=assume)
    # an explicit reset_value (including 0) must win over a non-zero default_value in the copy as in the source
    regsA = A.wirevector_subset(pyrtl.Register)
    # (a register WITHOUT reset_value takes Simulation's default_value, which a synthesized block applies per bit:
    #  that is a Simulation parameter, not block behaviour, so it is only compared for copy/optimize)
    if regsA and (case['func'] in ('copy', 'opt') or all(r.reset_value is not None for r in regsA)):
        sp1 = spec.run(A, 2, v, reg_init='reset', mem_init='sym', default_value=1)
        equiv.bmc_outputs(ob, pair, 2, v, site + ':result-vs-source:bmc-from-reset(default_value=1)', reg_init='reset',
                          default_value=1, memkeyB=mk, assume=[z3.Not(d) for d in sp1.double_write], compare_mems=False)
    if case['func'] != 'opt':
        v2 = Vars('s_')
        sp2 = spec.run(A, 1, v2, reg_init='sym', mem_init='sym')
        equiv.inductive_step(ob, pair, v2, site + ':result-vs-source:step', memkeyB=mk, assume=[z3.Not(d) for d in sp2.double_write])
    # later edits / simulation of one block do not affect the other
    fpA, fpB = fingerprint(A), fingerprint(B)
    other = apply_edit(case, A, B)
    if other is B:
        ob.fact('result-unaffected-by-edit-of-source', fingerprint(B) == fpB, site + ':edit:' + case['edit'])
        # the result still behaves like the (pre-edit) source: compare with the source's recorded trace
        with sym_env([B]):
            rb = run_sim(B, K, v, reg_init='reset', mem_init='sym', track='io', assumptions=assume, memmap_key=mk,
                         inputs_override=lambda t: pair.b_inputs_sym(v, t))
        for pa in before:
            for pb in rb:
                if pa.exc or pb.exc:
                    continue
                if (len(before) > 1 or len(rb) > 1) and not equiv._compatible(assume, pa, pb):
                    continue
                goals = []
                for aname in sorted(pair.out_map):
                    aw_bits = len(before[0].trace[aname]) and None
                    for t in range(K):
                        wa = [w for w in A.wirevector_set if w.name in (aname, 'vf_renamed')]
                        width = pair.b_output_term(pb, aname, t).size()
                        goals.append(('result-after-edit:%s@%d' % (aname, t),
                                      to_bv(pa.trace[aname][t], width) == pair.b_output_term(pb, aname, t),
                                      site + ':edit:' + case['edit']))
                ob.prove_all(goals, assume + pa.pc + pb.pc, v)
    else:
        ob.fact('source-unaffected-by-edit-of-result', fingerprint(A) == fpA, site + ':edit:' + case['edit'])
        again = trace_of(A, K, v, assume)
        same_trace(ob, A, before, again, assume, v, site + ':edit:' + case['edit'])


def replay(cex):
    case = cex['case']
    site = cex.get('site', '')
    A = designs.build(case)
    fp0 = fingerprint(A)
    decoy = None
    if case.get('wb') == 'foreign':
        decoy = decoy_block()
        pyrtl.set_working_block(decoy, no_sanity_check=True)
        fpd = fingerprint(decoy)
    wb0 = pyrtl.working_block()
    try:
        B = call(case, A)
    except Exception as e:
        return True, 'call raised %s: %s' % (type(e).__name__, e)
    if cex.get('structural') and cex.get('obligation') == 'unrelated-working-block-untouched':
        return fingerprint(decoy) != fpd, 'the unrelated working block was modified'
    if cex.get('structural'):
        checks = {'source-fingerprint-unchanged': fingerprint(A) == fp0,
                  'working-block-left-as-it-was': pyrtl.working_block() is wb0,
                  'result-is-a-different-block': B is not A,
                  'no-shared-wire-objects': not (set(map(id, A.wirevector_set)) & set(map(id, B.wirevector_set))),
                  'no-shared-memory-objects': not ({id(n.op_param[1]) for n in A.logic_subset('m@')}
                                                   & {id(n.op_param[1]) for n in B.logic_subset('m@')}),
                  'result-memories-registered-with-result': mems_registered(B),
                  'result-has-the-interface-of-the-source': sorted((w.name, w.bitwidth, type(w).__name__) for w in A.wirevector_subset((pyrtl.Input, pyrtl.Output)))
                  == sorted((w.name, w.bitwidth, type(w).__name__) for w in B.wirevector_subset((pyrtl.Input, pyrtl.Output))),
                  'assertions-of-the-source-are-assertions-of-the-result': all(
                      any(w2.name == w.name and e2 is e for w2, e2 in B.rtl_assert_dict.items()) for w, e in A.rtl_assert_dict.items()),
                  'register-reset-values-preserved': all(
                      {r.name: r.reset_value for r in B.wirevector_subset(pyrtl.Register)}.get(r.name, r.reset_value) == r.reset_value
                      for r in A.wirevector_subset(pyrtl.Register))}
        name = cex['obligation']
        if name in checks:
            return (not checks[name]), '%s: %s on the real code (working block is %s)' % (
                name, checks[name], 'unchanged' if pyrtl.working_block() is wb0 else 'CHANGED')
        fpA, fpB = fingerprint(A), fingerprint(B)
        other = apply_edit(case, A, B)
        if other is B:
            return fingerprint(B) != fpB, 'result fingerprint changed by an edit of the source'
        return fingerprint(A) != fpA, 'source fingerprint changed by an edit of the result'
    pair, mk = make_pair(case, A, B)
    if ':edit:' in site and case['edit'] not in ('edit_result', 'rename_result'):
        ta, _, _ = __import__('vf.concrete', fromlist=['x']).sim_concrete(A, case['K'], cex['model'], reg_init='reset', track='io')
        apply_edit(case, A, B)
    step = ':step' in site
    dv = 1 if 'default_value=1' in site else 0
    differs, text = equiv.replay_pair(pair, 1 if step else (2 if dv else case['K']), cex.get('model', {}),
                                      reg_init='sym' if step else 'reset', memkeyB=mk, default_value=dv)
    return differs, 'case=%r\n%s' % (case, text)
