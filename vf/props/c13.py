"""C13 — rtllib adders and multipliers are exact for all widths and values.

Real code: adders.* (kogge_stone, ripple_add, cla_adder, carrysave_adder, fast_group_adder, wallace/dada reducers),
multipliers.* (tree_multiplier, signed_tree_multiplier, fused_multiply_adder, generalized_fma, simple_mult,
complex_mult), libutils.match_bitwidth/_shifted_reg_next: elaborated concretely, then simulated symbolically."""
import itertools
import z3
import pyrtl
from pyrtl.rtllib import adders, multipliers
from .. import gencheck, simdrv, sym
from ..gencheck import I, signed_val, unsigned_enc
from ..simdrv import Vars, run_sim, sym_env
from ..sym import SymInt, to_bv

PROP = 'C13'
LEVEL = 'model_checking'
ASSUMPTIONS = [
    'operand values are solver variables (all values); widths and generator parameters are enumerated',
    'oracle: integer + and *, two\'s complement for signed_tree_multiplier',
    'sequential multipliers: registers arbitrary at cycle 0, start=1 at cycle 0 then 0, operands held stable',
    'fused_multiply_adder/generalized_fma(signed=True) are documented "currently not supported": outside the claim',
    'Simulation is the semantics of the built netlist (C01); stubs/merge points of vf/simdrv.py',
]
ADD2 = {'kogge_stone': adders.kogge_stone, 'ripple_add': adders.ripple_add, 'cla_adder': adders.cla_adder}
REDUCERS = {'wallace': adders.wallace_reducer, 'dada': adders.dada_reducer}


def it_add2(c):
    a = I(c['wa'], 'a')
    b = a if c.get('same') else I(c['wb'], 'b')
    if c.get('same'):
        def fix(o):
            return lambda ins: o(dict(ins, b=ins['a']))
    else:
        fix = lambda o: o
    f = ADD2[c['gen']]
    kw = {}
    if c['gen'] == 'cla_adder' and c.get('la'):
        kw['la_unit_len'] = c['la']
    if c.get('cin') == 'wire':
        ci = I(1, 'cin')
        r = f(a, b, ci, **kw)
        orc = lambda ins: {'r': ins['a'] + ins['b'] + ins['cin']}
    elif c.get('cin') == 'one':
        r = f(a, b, 1, **kw)
        orc = lambda ins: {'r': ins['a'] + ins['b'] + 1}
    else:
        r = f(a, b, **kw)
        orc = lambda ins: {'r': ins['a'] + ins['b']}
    return {'outs': {'r': r}, 'widths': {'r': max(c['wa'], c['wb']) + 1}, 'oracle': fix(orc)}


def it_csa(c):
    a, b, d = I(c['wa'], 'a'), I(c['wb'], 'b'), I(c['wc'], 'c')
    r = adders.carrysave_adder(a, b, d, final_adder=ADD2[c.get('final', 'ripple_add')])
    return {'outs': {'r': r}, 'widths': {'r': max(c['wa'], c['wb'], c['wc']) + 2},
            'oracle': lambda ins: {'r': ins['a'] + ins['b'] + ins['c']}}


def it_group(c):
    ws = c['ws']
    wires = [I(w, 'a%d' % i) for i, w in enumerate(ws)]
    r = adders.fast_group_adder(wires, reducer=REDUCERS[c['red']], final_adder=ADD2[c.get('final', 'kogge_stone')])

    def orc(ins):
        s = 0
        for i in range(len(ws)):
            s = s + ins['a%d' % i]
        return {'r': s}
    return {'outs': {'r': r}, 'oracle': orc}


def _ab(c):
    """the two operands; `same`: ONE WireVector object passed as both (squaring, doubling)"""
    a = I(c['wa'], 'a')
    if c.get('same'):
        return a, a
    return a, I(c['wb'], 'b')


def _b(c, ins):
    return ins['a'] if c.get('same') else ins['b']


def it_tree(c):
    a, b = _ab(c)
    r = multipliers.tree_multiplier(a, b, reducer=REDUCERS[c['red']], adder_func=ADD2[c.get('final', 'kogge_stone')])
    return {'outs': {'r': r}, 'widths': {'r': c['wa'] + c['wb']}, 'oracle': lambda ins: {'r': ins['a'] * _b(c, ins)}}


def it_stree(c):
    wa, wb = c['wa'], c['wb']
    a, b = _ab(c)
    if wa == 1 or wb == 1:
        c['expect_error'] = True
    r = multipliers.signed_tree_multiplier(a, b, reducer=REDUCERS[c['red']])
    return {'outs': {'r': r}, 'widths': {'r': wa + wb},
            'oracle': lambda ins: {'r': unsigned_enc(signed_val(ins['a'], wa) * signed_val(_b(c, ins), wb), wa + wb)}}


def it_fma(c):
    a, b = _ab(c)
    d = I(c['wc'], 'c')
    r = multipliers.fused_multiply_adder(a, b, d, reducer=REDUCERS[c['red']])
    return {'outs': {'r': r}, 'oracle': lambda ins: {'r': ins['a'] * _b(c, ins) + ins['c']}}


def it_gfma(c):
    pairs = [(I(wa, 'm%da' % i), I(wb, 'm%db' % i)) for i, (wa, wb) in enumerate(c['pairs'])]
    adds = [I(w, 'c%d' % i) for i, w in enumerate(c['adds'])]
    # the documented way to say "no products" / "nothing else to add" is None (an empty list works too)
    none = c.get('none')
    r = multipliers.generalized_fma(pairs if (pairs or not none) else None, adds if (adds or not none) else None,
                                    reducer=REDUCERS[c['red']])

    def orc(ins):
        s = 0
        for i in range(len(pairs)):
            s = s + ins['m%da' % i] * ins['m%db' % i]
        for i in range(len(adds)):
            s = s + ins['c%d' % i]
        return {'r': s}
    return {'outs': {'r': r}, 'oracle': orc}


ITEMS = {'add2': it_add2, 'csa': it_csa, 'group': it_group, 'tree': it_tree, 'stree': it_stree, 'fma': it_fma,
         'gfma': it_gfma}


def bounds(tier):
    if tier == 'quick':
        return {'adders': 'all (wa,wb) in {1,2,3,4,5,8,16}^2, cin in {none,1,wire}, la_unit_len 1..5',
                'multipliers': 'wa,wb <= 6 (tree), <= 5 (signed), fma <= 4x4+6', 'sequential': 'W <= 5, shifts 1..min'}
    return {'adders': 'all (wa,wb) in {1..16}^2 + {32,64}', 'multipliers': 'wa,wb <= 8', 'sequential': 'W <= 8'}


def cases(tier, seed):
    out = []
    WA = [1, 2, 3, 4, 5, 8, 16] if tier == 'quick' else list(range(1, 17)) + [32, 64]
    for gen in ADD2:
        for wa, wb in itertools.product(WA, WA):
            if tier != 'quick' and wa > 16 and wb < 16:
                continue
            for cin in (None, 'one', 'wire'):
                if gen == 'cla_adder':
                    las = [None, 1, 2, 3, 5] if tier == 'quick' and max(wa, wb) <= 8 else [None, 3]
                    for la in las:
                        out.append({'item': 'add2', 'gen': gen, 'wa': wa, 'wb': wb, 'cin': cin, 'la': la})
                else:
                    out.append({'item': 'add2', 'gen': gen, 'wa': wa, 'wb': wb, 'cin': cin})
    W3 = [1, 2, 3, 5, 8] if tier == 'quick' else [1, 2, 3, 4, 5, 8, 16]
    for wa, wb, wc in itertools.product(W3, repeat=3):
        out.append({'item': 'csa', 'wa': wa, 'wb': wb, 'wc': wc, 'final': 'ripple_add' if (wa + wb + wc) % 2 else 'kogge_stone'})
    groups = [[3, 3], [1, 2, 3], [4, 4, 4, 4], [1, 5, 2, 5, 3], [2] * 7, [8, 1, 8, 1, 8, 1], [3] * 9]
    if tier != 'quick':
        groups += [[16] * 5, [1] * 12, [7, 9, 11, 13], [4] * 9]
    for ws in groups:
        for red in REDUCERS:
            for fin in ('kogge_stone', 'ripple_add', 'cla_adder'):
                out.append({'item': 'group', 'ws': ws, 'red': red, 'final': fin})
    for pairs, adds in (([(1, 1)] * 3, [1]), ([(1, 1)], []), ([], [1, 1, 1]), ([(1, 1), (1, 1)], [1, 1]), ([(1, 2)], [1]), ([], [2]),
                        ([(2, 2)], []), ([(1, 1)] * 4, [])):
        for red in REDUCERS:
            out.append({'item': 'gfma', 'pairs': [list(p) for p in pairs], 'adds': adds, 'red': red})
            if not pairs or not adds:
                out.append({'item': 'gfma', 'pairs': [list(p) for p in pairs], 'adds': adds, 'red': red, 'none': True})
    # every small group shape (one operand, all-1-bit operands, ...): the reducers' corner cases
    for k in range(1, 5 if tier == 'quick' else 7):
        for ws in itertools.combinations_with_replacement((1, 2, 3) if tier == 'quick' else (1, 2, 3, 5), k):
            for red in REDUCERS:
                out.append({'item': 'group', 'ws': list(ws), 'red': red, 'final': ('kogge_stone', 'ripple_add')[(k + sum(ws)) % 2]})
    # the same WireVector object as both operands (squaring, doubling)
    for w in ((1, 2, 3, 4, 5) if tier == 'quick' else range(1, 9)):
        for red in REDUCERS:
            out.append({'item': 'tree', 'wa': w, 'wb': w, 'red': red, 'final': 'kogge_stone', 'same': True})
            out.append({'item': 'fma', 'wa': w, 'wb': w, 'wc': w + 1, 'red': red, 'same': True})
            if w > 1:
                out.append({'item': 'stree', 'wa': w, 'wb': w, 'red': red, 'same': True})
        for gen in ADD2:
            out.append({'item': 'add2', 'gen': gen, 'wa': w, 'wb': w, 'cin': None, 'same': True})
    M = 6 if tier == 'quick' else 8
    for wa, wb in itertools.product(range(1, M + 1), repeat=2):
        for red in REDUCERS:
            out.append({'item': 'tree', 'wa': wa, 'wb': wb, 'red': red, 'final': 'kogge_stone' if (wa + wb) % 2 else 'ripple_add'})
    MS = 5 if tier == 'quick' else 7
    for wa, wb in itertools.product(range(1, MS + 1), repeat=2):
        out.append({'item': 'stree', 'wa': wa, 'wb': wb, 'red': 'wallace' if (wa + wb) % 2 else 'dada'})
    MF = 4 if tier == 'quick' else 6
    for wa, wb in itertools.product(range(1, MF + 1), repeat=2):
        for wc in (1, wa + wb - 1, wa + wb + 2):
            out.append({'item': 'fma', 'wa': wa, 'wb': wb, 'wc': wc, 'red': 'wallace' if wc % 2 else 'dada'})
    for pairs, adds in (([(2, 2), (3, 3)], [4]), ([(3, 2), (2, 3), (1, 4)], [2, 6]), ([(4, 4)], []), ([], [3, 3, 3]),
                        ([(2, 3), (3, 2)], [1, 1, 1])):
        for red in REDUCERS:
            out.append({'item': 'gfma', 'pairs': pairs, 'adds': adds, 'red': red})
    WS = [1, 2, 3, 4, 5] if tier == 'quick' else [1, 2, 3, 4, 5, 6, 7, 8]
    for wa, wb in itertools.product(WS, repeat=2):
        if tier != 'quick' and wa + wb > 13:
            continue
        out.append({'item': 'seq', 'gen': 'simple', 'wa': wa, 'wb': wb})
        for sh in range(1, min(wa, wb) + 1):
            out.append({'item': 'seq', 'gen': 'complex', 'wa': wa, 'wb': wb, 'shifts': sh})
    return out


def site_of(c):
    s = 'C13:%s' % c['item']
    for k in ('gen', 'red', 'cin'):
        if c.get(k):
            s += ':%s=%s' % (k, c[k])
    return s


def build_seq(c):
    pyrtl.reset_working_block()
    A, B, start = I(c['wa'], 'A'), I(c['wb'], 'B'), I(1, 'start')
    if c['gen'] == 'simple':
        res, done = multipliers.simple_mult(A, B, start)
    else:
        res, done = multipliers.complex_mult(A, B, c['shifts'], start)
    o = pyrtl.Output(len(res), 'product')
    o <<= res
    d = pyrtl.Output(1, 'done')
    d <<= done
    return pyrtl.working_block()


def seq_len(c):
    return c['wa'] + 2


def run_seq(ob, c, site):
    block = build_seq(c)
    K = seq_len(c)
    v = Vars()
    a0, b0 = v.inp('A', 0, c['wa']), v.inp('B', 0, c['wb'])

    def ins(t):
        return {'A': SymInt.mk(a0, False), 'B': SymInt.mk(b0, False), 'start': 1 if t == 0 else 0}
    with sym_env([block]):
        rs = run_sim(block, K, v, reg_init='sym', mem_init='default', track='io', inputs_override=ins)
    ob.paths += len(rs)
    W = c['wa'] + c['wb'] + 1
    prod = z3.ZeroExt(W - c['wa'], a0) * z3.ZeroExt(W - c['wb'], b0)
    for r in rs:
        if r.exc is not None:
            ob.prove('no-exception', z3.Not(r.cond()), [], v, site=site + ':exception')
            continue
        done = [to_bv(x, 1) == 1 for x in r.trace['done']]
        p = [to_bv(x, W) for x in r.trace['product']]
        goals = [('done-within-len(A)+1-cycles-of-start', z3.Or(*done[1:c['wa'] + 2]), site + ':done-timing')]
        for t in range(1, K):
            goals.append(('product-exact-when-done@%d' % t, z3.Implies(done[t], p[t] == prod), site + ':product'))
            if t + 1 < K:
                goals.append(('done-stays@%d' % t, z3.Implies(done[t], done[t + 1]), site + ':done-holds'))
        ob.prove_all(goals, r.pc, v)


def run_case(case, ob, tier):
    if case['item'] == 'seq':
        if len(pyrtl.as_wires(0)) and (case['wa'] == 1 or case['wb'] == 1) and case['gen'] == 'simple':
            pass
        return run_seq(ob, case, site_of(case))
    gencheck.check_item(ob, case, ITEMS[case['item']], site_of(case))


def replay(cex):
    c = cex['case']
    if c['item'] != 'seq':
        return gencheck.replay_item(cex, ITEMS[c['item']])
    block = build_seq(c)
    mv = cex.get('model', {})
    a = mv['inputs'].get('A', {}).get('0', 0)
    b = mv['inputs'].get('B', {}).get('0', 0)
    regs = {r: mv.get('regs', {}).get(r.name, 0) for r in block.wirevector_subset(pyrtl.Register)}
    sim = pyrtl.Simulation(block=block, register_value_map=regs)
    K = seq_len(c)
    dones, prods = [], []
    for t in range(K):
        sim.step({'A': a, 'B': b, 'start': 1 if t == 0 else 0})
        dones.append(sim.inspect('done'))
        prods.append(sim.inspect('product'))
    bad = []
    if not any(dones[1:c['wa'] + 2]):
        bad.append('done not raised within len(A)+1 cycles: %r' % dones)
    for t in range(1, K):
        if dones[t] and prods[t] != a * b:
            bad.append('cycle %d: done with product %d != %d*%d' % (t, prods[t], a, b))
        if t + 1 < K and dones[t] and not dones[t + 1]:
            bad.append('done dropped at cycle %d' % (t + 1))
    return bool(bad), 'case=%r A=%d B=%d regs=%r\n%s' % (c, a, b, mv.get('regs'), '\n'.join(bad))
