"""C18 — AES and PRNG generators implement their published algorithms.

Real code: rtllib/aes.py (encryption, decryption, encrypt_state_m, decryption_statem and all helpers, ROM tables) and
rtllib/prngs.py (prng_lfsr, prng_xoroshiro128, csprng_trivium): elaborated concretely, then the real Simulation runs
symbolically (keys, blocks, seeds, pre-load register state are solver variables). References: vf/refs.py (FIPS-197
from GF(2^8) arithmetic, xoroshiro128+, Trivium, Fibonacci LFSR), validated on the repository's known-answer vectors."""
import math
import z3
import pyrtl
from pyrtl.rtllib import aes as aeslib, prngs
from .. import refs, simdrv, sym
from ..simdrv import Vars, run_sim, sym_env
from ..sym import SymInt, SymTable, to_bv

PROP = 'C18'
TIMEOUT_MS = {'quick': 60000, 'thorough': 1500000}    # the two full-circuit AES queries need minutes
LEVEL = 'model_checking'
ASSUMPTIONS = [
    'lemma (1): every AES ROM table equals its GF(2^8) definition for all 256 addresses (rcon: indices 1..10) — proved per '
    'run through the real RomBlock read path; the 128-bit obligations then abstract ROM reads to shared uninterpreted '
    'functions (one per table content)',
    'state machines: one inductive step from an arbitrary (text, key, counter<=10) state against "FIPS round counter+1 with the '
    'FIPS key schedule", reset loads, counter=10 holds and ready=1; the composition over 10 rounds is the FIPS loop itself',
    'PRNGs: BMC from a load cycle with symbolic seed and arbitrary pre-load register state under the documented protocol '
    '(load, then req, no load during generation); reseed-anytime/interleavings by one inductive step of the LFSR and by '
    'repeated requests in the BMC',
    'references validated on tests/rtllib vectors at start-up (bit order: Trivium K1 = LSB of key, MSB-first output)',
    'AES key sizes other than 128 and statistical quality are outside the claim',
    'Simulation is the semantics of the built netlist (C01); stubs/merge points of vf/simdrv.py',
]

ROMS = [('sbox', '_sbox_data'), ('inv_sbox', '_inv_sbox_data'), ('GM2', '_GM2_data'), ('GM3', '_GM3_data'), ('GM9', '_GM9_data'),
        ('GM11', '_GM11_data'), ('GM13', '_GM13_data'), ('GM14', '_GM14_data'), ('rcon', '_rcon_data')]


def bounds(tier):
    return {'AES': 'ROM lemmas (all addresses), per-stage lemmas and state-machine steps (all 2^256+ states)' +
                   ('; full single-cycle encryption/decryption for all keys/blocks' if tier != 'quick' else ''),
            'xoroshiro bitwidths': XORO_W[tier], 'lfsr bitwidths': LFSR_W[tier],
            'trivium': 'BMC for bits_per_cycle %r; data-path step for every bits_per_cycle in {1,2,4,8,16,32,64}' % (TRIV_BPC[tier],)}


XORO_W = {'quick': [1, 32, 63, 64, 65, 128, 129, 192], 'thorough': [1, 32, 63, 64, 65, 127, 128, 129, 160, 192, 200, 256]}
LFSR_W = {'quick': [1, 32, 126, 127, 128, 200], 'thorough': [1, 2, 32, 63, 64, 65, 126, 127, 128, 129, 200, 256]}
TRIV_BPC = {'quick': [64], 'thorough': [64, 32, 16]}
TRIV_W = {'quick': [1, 64, 100, 128], 'thorough': [1, 32, 63, 64, 65, 127, 128, 200, 256]}


def cases(tier, seed):
    out = [{'k': 'selftest'}, {'k': 'rom'}]
    for st in ('sub', 'inv_sub', 'shift', 'inv_shift', 'mix', 'inv_mix', 'addkey'):
        out.append({'k': 'stage', 'stage': st})
    for r in range(10):
        out.append({'k': 'stage', 'stage': 'keyexp', 'round': r})
    out.append({'k': 'stage', 'stage': 'keyexp_wire'})
    for r in (1, 2, 10):
        out.append({'k': 'stage', 'stage': 'keygen_second', 'round': r})
    out.append({'k': 'statem', 'dir': 'enc'})
    out.append({'k': 'statem', 'dir': 'dec'})
    if tier != 'quick':
        out.append({'k': 'full', 'dir': 'enc'})
        out.append({'k': 'full', 'dir': 'dec'})
    for w in LFSR_W[tier]:
        out.append({'k': 'lfsr', 'w': w})
    for w in XORO_W[tier]:
        out.append({'k': 'xoro', 'w': w, 'reqs': 2})
        out.append({'k': 'xoro', 'w': w, 'reqs': 0, 'variant': 'reload_done'})
        out.append({'k': 'xoro', 'w': w, 'reqs': 0, 'variant': 'reload_inflight'})
    for bpc in (1, 2, 4, 8, 16, 32, 64):
        out.append({'k': 'trivium_step', 'bpc': bpc, 'w': 64 if bpc > 1 else 8})
    for w, bpc in ((64, 64), (1, 64), (32, 32), (8, 8), (1, 1), (128, 64), (9, 8)):
        out.append({'k': 'trivium_idle', 'bpc': bpc, 'w': w})
    for bpc in TRIV_BPC[tier]:
        for w in TRIV_W[tier]:
            out.append({'k': 'trivium', 'bpc': bpc, 'w': w})
    return out


def site_of(c):
    s = 'C18:%s' % c['k']
    for k in ('stage', 'dir', 'bpc'):
        if k in c:
            s += ':%s' % c[k]
    return s


# ------------------------------------------------------------------------------------------

def uf_funcs(A):
    """byte functions for the reference built from the shared UFs of the repository's own tables (justified by lemma 1)"""
    def uf(attr):
        f = SymTable.uf_for(tuple(getattr(A, attr)), 8, 8)
        return lambda b: f(b if not isinstance(b, int) else z3.BitVecVal(b, 8))
    gm = {2: uf('_GM2_data'), 3: uf('_GM3_data'), 9: uf('_GM9_data'), 11: uf('_GM11_data'), 13: uf('_GM13_data'), 14: uf('_GM14_data')}
    rc = uf('_rcon_data')
    return {'sbox': uf('_sbox_data'), 'inv_sbox': uf('_inv_sbox_data'), 'gm': lambda b, k: gm[k](b),
            'rcon': lambda i: z3.BitVecVal(refs.RCON[i], 8) if isinstance(i, int) else rc(i)}


def table_lemmas():
    """facts tying every UF used to its table: T(a) = table[a] for all a — conjunction added as an assumption"""
    lem = []
    for f, tab, aw, bw in SymTable.uf_tables():
        for a, v in enumerate(tab):
            if v is not None:
                lem.append(f(z3.BitVecVal(a, aw)) == z3.BitVecVal(v, bw))
    return lem


def sim1(block, v, K=1, uf=True, **kw):
    with sym_env([block], rom_uf=uf):
        rs = run_sim(block, K, v, track='io', **kw)
    return simdrv.single_path(rs)


def run_case(case, ob, tier):
    k = case['k']
    site = site_of(case)
    if k == 'selftest':
        ob.fact('reference-aes-reproduces-FIPS-vectors', refs.aes_selftest(), site)
        ob.fact('reference-lfsr-reproduces-repo-generator', refs.lfsr_selftest(), site)
        ob.fact('reference-xoroshiro-reproduces-repo-generator', refs.xoroshiro_selftest(), site)
        ob.fact('reference-trivium-reproduces-test-vectors', refs.trivium_selftest(), site)
        return
    fn = {'rom': do_rom, 'stage': do_stage, 'statem': do_statem, 'full': do_full, 'lfsr': do_lfsr, 'xoro': do_xoro,
          'trivium': do_trivium, 'trivium_step': do_trivium_step, 'trivium_idle': do_trivium_idle}[k]
    pyrtl.reset_working_block()
    SymTable._uf_cache.clear()
    fn(case, ob, site)


def build_rom_reader():
    pyrtl.reset_working_block()
    A = aeslib.AES()
    A._build_memories()
    a = pyrtl.Input(8, 'a')
    for name, _ in ROMS:
        o = pyrtl.Output(8, 'o_' + name)
        o <<= getattr(A, name)[a]
    return A, pyrtl.working_block()


def rom_reference(name, a):
    if name == 'sbox':
        return refs.sbox_bv(a)
    if name.startswith('GM'):
        return refs.gmul_bv_const(a, int(name[2:]))
    if name == 'rcon':
        acc = z3.BitVecVal(0, 8)
        for i in range(1, 11):
            acc = z3.If(a == i, z3.BitVecVal(refs.RCON[i], 8), acc)
        return acc
    return None


def do_rom(case, ob, site):
    A, block = build_rom_reader()
    v = Vars()
    r = sim1(block, v, uf=False)
    a = v.inp('a', 0, 8)
    goals = []
    outs = {name: to_bv(r.trace['o_' + name][0], 8) for name, _ in ROMS}
    for name, _ in ROMS:
        if name == 'inv_sbox':
            continue
        g = outs[name] == rom_reference(name, a)
        if name == 'rcon':
            g = z3.Implies(z3.And(z3.UGE(a, 1), z3.ULE(a, 10)), g)
        goals.append(('rom:%s[a]=definition' % name, g, site + ':' + name))
    for name, g, s in goals:
        ob.prove(name, g, [], v, site=s)
    # inverse S-box: inv_sbox[sbox[a]] == a through the real read path (second read at the first one's output)
    pyrtl.reset_working_block()
    A2 = aeslib.AES()
    A2._build_memories()
    a2 = pyrtl.Input(8, 'a')
    o = pyrtl.Output(8, 'o')
    o <<= A2.inv_sbox[A2.sbox[a2]]
    v2 = Vars()
    r2 = sim1(pyrtl.working_block(), v2, uf=False)
    ob.prove('rom:inv_sbox[sbox[a]]=a', to_bv(r2.trace['o'][0], 8) == v2.inp('a', 0, 8), [], v2, site=site + ':inv_sbox')


def _stage_circuit(stage, rnd=None):
    pyrtl.reset_working_block()
    A = aeslib.AES()
    x = pyrtl.Input(128, 'x')
    if stage == 'sub':
        y = A._sub_bytes(x)
    elif stage == 'inv_sub':
        y = A._sub_bytes(x, True)
    elif stage == 'shift':
        y = A._shift_rows(x)
    elif stage == 'inv_shift':
        y = A._inv_shift_rows(x)
    elif stage == 'mix':
        y = A._mix_columns(x)
    elif stage == 'inv_mix':
        y = A._mix_columns(x, True)
    elif stage == 'addkey':
        y = A._add_round_key(x, pyrtl.Input(128, 'k'))
    elif stage == 'keyexp':
        y = A._key_expansion(x, rnd)
    elif stage == 'keyexp_wire':
        y = A._key_expansion(x, pyrtl.Input(4, 'c'))
    elif stage == 'keygen_second':
        # ONE AES object used for two units with different keys: the round keys of the second key must be its own
        A._key_gen(pyrtl.Input(128, 'k'))
        y = A._key_gen(x)[rnd]
    o = pyrtl.Output(128, 'y')
    o <<= y
    return A, pyrtl.working_block()


def _stage_reference(stage, A, v, rnd=None):
    F = uf_funcs(A)
    xb = refs.bytes_of(v.inp('x', 0, 128))
    if stage == 'sub':
        return refs.sub_bytes(xb, F), []
    if stage == 'inv_sub':
        return refs.sub_bytes(xb, F, inv=True), []
    if stage == 'shift':
        return refs.shift_rows(xb), []
    if stage == 'inv_shift':
        return refs.shift_rows(xb, inv=True), []
    if stage == 'mix':
        return refs.mix_columns(xb, F), []
    if stage == 'inv_mix':
        return refs.mix_columns(xb, F, inv=True), []
    if stage == 'addkey':
        return refs.xor_bytes(xb, refs.bytes_of(v.inp('k', 0, 128))), []
    if stage == 'keyexp':
        return refs.key_expand_step(xb, refs.RCON[rnd + 1], F), []
    if stage == 'keygen_second':
        return refs.key_schedule(xb, F)[rnd], []
    if stage == 'keyexp_wire':
        c = v.inp('c', 0, 4)
        idx = z3.ZeroExt(4, c) + 1
        return refs.key_expand_step(xb, F['rcon'](idx), F), [z3.ULE(c, 9)]


def do_stage(case, ob, site):
    st = case['stage']
    A, block = _stage_circuit(st, case.get('round'))
    v = Vars()
    r = sim1(block, v)
    exp, assume = _stage_reference(st, A, v, case.get('round'))
    got = to_bv(r.trace['y'][0], 128)
    goals = [('stage:%s:byte%d' % (st, i), z3.Extract(8 * (15 - i) + 7, 8 * (15 - i), got) == (e if not isinstance(e, int) else z3.BitVecVal(e, 8)),
              site) for i, e in enumerate(exp)]
    ob.prove_all(goals, assume, v, lemmas=table_lemmas())


def _statem_circuit(direction):
    pyrtl.reset_working_block()
    A = aeslib.AES()
    text_in, key_in, reset = pyrtl.Input(128, 'text_in'), pyrtl.Input(128, 'key_in'), pyrtl.Input(1, 'reset')
    if direction == 'enc':
        ready, out = A.encrypt_state_m(text_in, key_in, reset)
    else:
        ready, out = A.decryption_statem(text_in, key_in, reset)
    o = pyrtl.Output(128, 'out')
    o <<= out
    rd = pyrtl.Output(1, 'ready')
    rd <<= ready
    block = pyrtl.working_block()
    regs = {r.name: r for r in block.wirevector_subset(pyrtl.Register)}
    text_reg = out
    key_reg = [r for r in regs.values() if r.bitwidth == 128 and r is not text_reg][0]
    return A, block, text_reg.name, key_reg.name


def do_statem(case, ob, site):
    d = case['dir']
    A, block, tname, kname = _statem_circuit(d)
    F = uf_funcs(A)
    v = Vars()
    text, key, counter = v.reg(tname, 128), v.reg(kname, 128), v.reg('counter', 4)
    tin, kin, reset = v.inp('text_in', 0, 128), v.inp('key_in', 0, 128), v.inp('reset', 0, 1)
    r = sim1(block, v, reg_init='sym', mem_init='default')
    assume = [z3.ULE(counter, 10)]
    lem = table_lemmas()
    nt, nk, nc = to_bv(r.regs_next[tname], 128), to_bv(r.regs_next[kname], 128), to_bv(r.regs_next['counter'], 4)
    tb, kb = refs.bytes_of(text), refs.bytes_of(key)
    J = refs.join_bytes
    is_reset = reset == 1
    done = counter == 10
    last = counter == 9
    if d == 'enc':
        nkey = refs.key_expand_step(kb, F['rcon'](z3.ZeroExt(4, counter) + 1), F)
        s = refs.shift_rows(refs.sub_bytes(tb, F))
        full = refs.xor_bytes(refs.mix_columns(s, F), nkey)
        fin = refs.xor_bytes(s, nkey)
        exp_t = z3.If(is_reset, tin ^ kin, z3.If(done, text, z3.If(last, J(fin), J(full))))
        exp_k = z3.If(is_reset, kin, z3.If(done, key, J(nkey)))
    else:
        ks_in = refs.key_schedule(refs.bytes_of(kin), F)
        ks = refs.key_schedule(kb, F)
        x = refs.sub_bytes(refs.shift_rows(tb, inv=True), F, inv=True)
        # round r = counter+1 uses round key ks[10 - r]
        rk = J(ks[0])
        for c in range(0, 10):
            rk = z3.If(counter == c, J(ks[10 - (c + 1)]), rk)
        y = refs.xor_bytes(x, refs.bytes_of(rk))
        exp_t = z3.If(is_reset, tin ^ J(ks_in[10]), z3.If(done, text, z3.If(last, J(y), J(refs.mix_columns(y, F, inv=True)))))
        exp_k = z3.If(is_reset, kin, key)
    exp_c = z3.If(is_reset, z3.BitVecVal(0, 4), z3.If(done, counter, counter + 1))
    goals = [('step:counter', nc == exp_c, site + ':counter'),
             ('step:ready', to_bv(r.trace['ready'][0], 1) == z3.If(done, z3.BitVecVal(1, 1), z3.BitVecVal(0, 1)), site + ':ready'),
             ('step:output-is-text-register', to_bv(r.trace['out'][0], 128) == text, site + ':out'),
             ('step:key', nk == exp_k, site + ':key'),
             ('step:text', nt == exp_t, site + ':text')]
    for name, g, s in goals:
        if name in ('step:text', 'step:key'):
            # case split on the (bounded) round counter: 11 easier queries instead of one with an 11-way mux
            for cval in range(11):
                for rs_ in (0, 1):
                    ob.prove('%s[counter=%d,reset=%d]' % (name, cval, rs_), g, assume + [counter == cval, reset == rs_], v, site=s,
                             lemmas=lem)
        else:
            ob.prove(name, g, assume, v, site=s, lemmas=lem)


def do_full(case, ob, site):
    pyrtl.reset_working_block()
    A = aeslib.AES()
    x, key = pyrtl.Input(128, 'x'), pyrtl.Input(128, 'key')
    o = pyrtl.Output(128, 'y')
    o <<= A.encryption(x, key) if case['dir'] == 'enc' else A.decryption(x, key)
    block = pyrtl.working_block()
    F = uf_funcs(A)
    v = Vars()
    r = sim1(block, v)
    xb, kb = refs.bytes_of(v.inp('x', 0, 128)), refs.bytes_of(v.inp('key', 0, 128))
    exp = refs.aes_encrypt(xb, kb, F) if case['dir'] == 'enc' else refs.aes_decrypt(xb, kb, F)
    ob.prove('full:%s' % case['dir'], to_bv(r.trace['y'][0], 128) == refs.join_bytes(exp), [], v, site=site, lemmas=table_lemmas())


# ------------------------------------------------------------------------------------------
# PRNGs

def do_lfsr(case, ob, site):
    w = case['w']
    load, req, seed = pyrtl.Input(1, 'load'), pyrtl.Input(1, 'req'), pyrtl.Input(127, 'seed')
    o = pyrtl.Output(w, 'rand')
    o <<= prngs.prng_lfsr(w, load, req, seed)
    block = pyrtl.working_block()
    reg = list(block.wirevector_subset(pyrtl.Register))[0]
    rw = reg.bitwidth
    ob.fact('lfsr-register-width', rw == max(127, w), site + ':width')
    v = Vars()
    r = sim1(block, v, uf=False, reg_init='sym', mem_init='default')
    s = v.reg(reg.name, rw)
    ld, rq, sd = v.inp('load', 0, 1) == 1, v.inp('req', 0, 1) == 1, v.inp('seed', 0, 127)
    leap = refs.lfsr_leap(s, rw, w)
    exp = z3.If(ld, z3.ZeroExt(rw - 127, sd) if rw > 127 else sd, z3.If(rq, leap, s))
    ob.prove('lfsr:step(load/req/hold)', to_bv(r.regs_next[reg.name], rw) == exp, [], v, site=site + ':state')
    ob.prove('lfsr:output-is-low-bits', to_bv(r.trace['rand'][0], w) == z3.Extract(w - 1, 0, s), [], v, site=site + ':output')


def build_xoro(w):
    pyrtl.reset_working_block()
    load, req, seed = pyrtl.Input(1, 'load'), pyrtl.Input(1, 'req'), pyrtl.Input(128, 'seed')
    ready, rand = prngs.prng_xoroshiro128(w, load, req, seed)
    o = pyrtl.Output(w, 'rand')
    o <<= rand
    rd = pyrtl.Output(1, 'ready')
    rd <<= ready
    return pyrtl.working_block()


def xoro_schedule(w, reqs, variant=None):
    """documented protocol: load; then `reqs` times (req, wait gen_cycles cycles). Variants with a second load: after a number
    has been delivered ('reload_done'), or one cycle after a req, while the generation is in flight ('reload_inflight').
    returns (schedule of (load, req), cycles at which ready must be 1, gen_cycles, [(cycle, seed index the number comes from)])"""
    gen = int(math.ceil(w / 64))
    sched = [(1, 0)]
    ready_at = []
    numbers = []
    if variant == 'reload_done':
        sched += [(0, 1)] + [(0, 0)] * gen
        ready_at.append(len(sched) - 1)
        numbers.append((len(sched) - 1, 0, 0))
        sched += [(1, 0), (0, 0), (0, 0)]
        sched += [(0, 1)] + [(0, 0)] * gen
        ready_at.append(len(sched) - 1)
        numbers.append((len(sched) - 1, 1, 0))
        return sched, ready_at, gen, numbers
    if variant == 'reload_inflight':
        sched += [(0, 1), (1, 0), (0, 0), (0, 0), (0, 0)]
        sched += [(0, 1)] + [(0, 0)] * gen
        ready_at.append(len(sched) - 1)
        numbers.append((len(sched) - 1, 1, 0))
        return sched, ready_at, gen, numbers
    for i in range(reqs):
        sched.append((0, 1))
        sched += [(0, 0)] * gen
        ready_at.append(len(sched) - 1)
        numbers.append((len(sched) - 1, 0, i))
    return sched, ready_at, gen, numbers


def do_xoro(case, ob, site):
    from pyrtl.rtllib import adders
    from ..cuts import CallRecorder, Cuts
    w = case['w']
    with CallRecorder(adders, 'kogge_stone') as rec:
        block = build_xoro(w)
    (args, kw, res) = rec.calls[0]
    an, bn, rn = args[0].name, args[1].name, res.name
    sched, ready_at, gen, numbers = xoro_schedule(w, case['reqs'], case.get('variant'))
    v = Vars()
    loads = [t for t, (ld, rq) in enumerate(sched) if ld]
    seeds = [v.inp('seed', t, 128) for t in loads]

    def ins(t):
        return {'load': sched[t][0], 'req': sched[t][1], 'seed': SymInt.mk(seeds[loads.index(t)], False) if t in loads else 0}
    with sym_env([block]):
        rs = run_sim(block, len(sched), v, reg_init='sym', mem_init='default', track='all', inputs_override=ins)
    r = simdrv.single_path(rs)
    # cut points: the 64-bit Kogge-Stone adder instance, once per cycle, replaced by its proved specification a + b
    cuts = Cuts()
    for t in range(len(sched)):
        T = r.trace[rn][t]
        if not sym.is_sym(T):
            continue
        ar, br = sym._lift(r.trace[an][t]), sym._lift(r.trace[bn][t])
        a, b = sym._ext(ar.t, ar.s, 65), sym._ext(br.t, br.s, 65)
        cuts.cut(ob, 'kogge_stone@%d' % t, sym._lift(T).t, z3.Extract(sym._lift(T).n - 1, 0, a + b), r.pc, v, site,
                 generalize=[ar.t, br.t])
    goals = []
    for t in range(len(sched)):
        rdy = to_bv(r.trace['ready'][t], 1)
        if t >= 1:   # before the load has taken effect the (arbitrary) pre-load state decides ready
            goals.append(('xoro:ready@%d' % t, cuts.rewrite(rdy == (1 if t in ready_at else 0)), site + ':ready'))
    for t, si, skip in numbers:
        s0, s1 = z3.Extract(63, 0, seeds[si]), z3.Extract(127, 64, seeds[si])
        for _ in range(skip * gen):     # numbers delivered earlier from the same seed
            _wd, s0, s1 = refs.xoroshiro_next(s0, s1)
        words = []
        for _ in range(gen):
            wd, s0, s1 = refs.xoroshiro_next(s0, s1)
            words.append(wd)
        full = z3.Concat(*words) if len(words) > 1 else words[0]
        exp = z3.Extract(64 * gen - 1, 64 * gen - w, full)   # MSBs of the generated words
        goals.append(('xoro:rand@%d' % t, cuts.rewrite(to_bv(r.trace['rand'][t], w) == exp), site + ':rand'))
    ob.prove_all(goals, r.pc + cuts.defs, v)


def build_trivium(w, bpc):
    pyrtl.reset_working_block()
    load, req, seed = pyrtl.Input(1, 'load'), pyrtl.Input(1, 'req'), pyrtl.Input(160, 'seed')
    ready, rand = prngs.csprng_trivium(w, load, req, seed, bits_per_cycle=bpc)
    o = pyrtl.Output(w, 'rand')
    o <<= rand
    rd = pyrtl.Output(1, 'ready')
    rd <<= ready
    return pyrtl.working_block()


def trivium_schedule(w, bpc):
    init = 1152 // bpc
    gen = int(math.ceil(w / bpc))
    sched = [(1, 0)] + [(0, 0)] * (init + 1)
    init_ready = len(sched) - 1
    sched.append((0, 1))
    sched += [(0, 0)] * gen
    return sched, init_ready, len(sched) - 1, gen


def do_trivium(case, ob, site):
    from ..cuts import Cuts
    w, bpc = case['w'], case['bpc']
    block = build_trivium(w, bpc)
    sched, init_ready, gen_ready, gen = trivium_schedule(w, bpc)
    regs = {r.bitwidth: r for r in block.wirevector_subset(pyrtl.Register) if r.bitwidth in (93, 84, 111)}
    an, bn, cn = regs[93].name, regs[84].name, regs[111].name
    v = Vars()
    seed = v.inp('seed', 0, 160)

    def ins(t):
        return {'load': sched[t][0], 'req': sched[t][1], 'seed': SymInt.mk(seed, False) if t == 0 else 0}
    with sym_env([block]):
        rs = run_sim(block, len(sched), v, reg_init='sym', mem_init='default', track='all', inputs_override=ins)
    r = simdrv.single_path(rs)
    key, iv = z3.Extract(159, 80, seed), z3.Extract(79, 0, seed)
    kb = [z3.Extract(i, i, key) for i in range(80)]
    ib = [z3.Extract(i, i, iv) for i in range(80)]
    init = 1152 // bpc

    def pack(bits):
        return z3.Concat(*bits[::-1])

    def unpack(terms):
        a, b, c = terms
        return ([z3.Extract(i, i, a) for i in range(93)] + [z3.Extract(i, i, b) for i in range(84)]
                + [z3.Extract(i, i, c) for i in range(111)])
    # documented protocol: the state advances on cycles 1..init (initialisation: 1152 clocks), on the req cycle and on the
    # gen-1 cycles after it. Per cycle one lemma (circuit next state == bpc reference clocks of the previous state, the
    # previous state being a cut variable, i.e. arbitrary) — the chain of proved equalities is the induction.
    cuts = Cuts()
    prev = None      # cut variables standing for (a, b, c) visible at cycle t-1
    zs = []
    for t in range(1, len(sched)):
        if t == 1:
            S = refs.trivium_init(kb, ib)
        else:
            S = unpack(prev)
            if 2 <= t <= init + 1 or (init_ready + 1 < t <= init_ready + 1 + gen):
                gen_phase = t > init_ready + 1
                for _ in range(bpc):
                    z, S = refs.trivium_step(S)
                    if gen_phase:
                        zs.append(z)
        cur = []
        for nm, lo, hi in ((an, 0, 93), (bn, 93, 177), (cn, 177, 288)):
            val = r.trace[nm][t]
            term = sym._lift(val).t if sym.is_sym(val) else None
            spec = pack(S[lo:hi])
            if term is None:
                ob.prove('trivium-state:%s@%d' % (nm, t), z3.BitVecVal(val, hi - lo) == spec, [], v, site=site + ':state')
                cur.append(z3.BitVecVal(val, hi - lo))
                continue
            full = to_bv(val, hi - lo)
            ok = cuts.cut(ob, 'trivium-state:%s@%d' % (nm, t), term, z3.Extract(term.size() - 1, 0, spec), [], v, site)
            # the bits above term.size() are zero by the engine's interval invariant; assert that the spec agrees
            if term.size() < hi - lo:
                ob.prove('trivium-state-hi:%s@%d' % (nm, t), z3.Extract(hi - lo - 1, term.size(), cuts.rewrite(spec)) == 0,
                         cuts.defs[-3:], v, site=site + ':state')
            cur.append(cuts.rewrite(full) if ok else full)
        prev = cur
    stream = z3.Concat(*zs) if len(zs) > 1 else zs[0]          # earliest bit most significant
    exp = z3.Extract(w - 1, 0, stream) if gen * bpc >= w else stream
    goals = []
    for t in range(1, len(sched)):
        want = 1 if t in (init_ready, gen_ready) else 0
        goals.append(('trivium:ready@%d' % t, cuts.rewrite(to_bv(r.trace['ready'][t], 1) == want), site + ':ready'))
    goals.append(('trivium:rand', cuts.rewrite(to_bv(r.trace['rand'][gen_ready], w) == exp), site + ':rand'))
    ob.prove_all(goals, r.pc, v)


def do_trivium_idle(case, ob, site):
    """power-on, before any load: nothing has been seeded or produced, so ready stays 0 (whatever sits on the seed input)"""
    w, bpc = case['w'], case['bpc']
    block = build_trivium(w, bpc)
    K = 3
    v = Vars()

    def ins(t):
        return {'load': 0, 'req': 0, 'seed': SymInt.mk(v.inp('seed', t, 160), False)}
    with sym_env([block]):
        rs = run_sim(block, K, v, reg_init='reset', mem_init='default', track='io', inputs_override=ins)
    r = simdrv.single_path(rs)
    ob.prove_all([('trivium:ready-stays-0-before-any-load@%d' % t, to_bv(r.trace['ready'][t], 1) == 0, site + ':ready')
                  for t in range(K)], r.pc, v)


def do_trivium_step(case, ob, site):
    """data path for every bits_per_cycle: one generation cycle from an arbitrary (a, b, c) = bpc reference clocks"""
    w, bpc = case['w'], case['bpc']
    block = build_trivium(w, bpc)
    regs = {r.bitwidth: r for r in block.wirevector_subset(pyrtl.Register) if r.bitwidth in (93, 84, 111)}
    v = Vars()
    a, b, c = v.reg(regs[93].name, 93), v.reg(regs[84].name, 84), v.reg(regs[111].name, 111)
    rand_reg = [r for r in block.wirevector_subset(pyrtl.Register) if r.bitwidth == w and r.name not in
                (regs[93].name, regs[84].name, regs[111].name, 'counter')]
    rr = rand_reg[0]

    def ins(t):
        return {'load': 0, 'req': 1, 'seed': 0}
    with sym_env([block]):
        rs = run_sim(block, 1, v, reg_init='sym', mem_init='default', track='io', inputs_override=ins)
    r = simdrv.single_path(rs)
    s = [z3.Extract(i, i, a) for i in range(93)] + [z3.Extract(i, i, b) for i in range(84)] + [z3.Extract(i, i, c) for i in range(111)]
    zs = []
    for _ in range(bpc):
        z, s = refs.trivium_step(s)
        zs.append(z)
    na = z3.Concat(*s[0:93][::-1])
    nb = z3.Concat(*s[93:177][::-1])
    nc = z3.Concat(*s[177:288][::-1])
    old = v.reg(rr.name, w)
    stream = z3.Concat(old, *zs)
    goals = [('trivium-step:a', to_bv(r.regs_next[regs[93].name], 93) == na, site + ':state'),
             ('trivium-step:b', to_bv(r.regs_next[regs[84].name], 84) == nb, site + ':state'),
             ('trivium-step:c', to_bv(r.regs_next[regs[111].name], 111) == nc, site + ':state'),
             ('trivium-step:rand-shifts-in-keystream-msb-first', to_bv(r.regs_next[rr.name], w) == z3.Extract(w - 1, 0, stream), site + ':rand')]
    ob.prove_all(goals, r.pc, v)


# ------------------------------------------------------------------------------------------

def replay(cex):
    """replay on the real code with plain ints; expected values from the concrete references"""
    c = cex['case']
    k = c['k']
    mv = cex.get('model', {})

    def inp(name, t=0):
        x = mv.get('inputs', {}).get(name, {})
        return x.get(str(t), x.get(t, 0))
    F = refs.concrete_funcs()
    if k == 'selftest':
        return False, 'reference self-test failure is a harness problem, not a finding'
    if k == 'rom':
        A, block = build_rom_reader()
        a = inp('a')
        sim = pyrtl.Simulation(block=block)
        sim.step({'a': a})
        bad = []
        for name, _ in ROMS:
            got = sim.inspect('o_' + name)
            exp = {'sbox': refs.SBOX[a], 'inv_sbox': refs.INV_SBOX[a], 'rcon': refs.RCON[a] if 1 <= a <= 10 else got}.get(name)
            if exp is None:
                exp = refs.gmul_int(a, int(name[2:]))
            if got != exp:
                bad.append('%s[%d] = %d, definition gives %d' % (name, a, got, exp))
        if not bad and 'inv_sbox' in cex.get('site', ''):
            for x in range(256):
                if A._inv_sbox_data[A._sbox_data[x]] != x:
                    bad.append('inv_sbox[sbox[%d]] = %d' % (x, A._inv_sbox_data[A._sbox_data[x]]))
                    break
        return bool(bad), '\n'.join(bad)
    if k == 'stage':
        st = c['stage']
        A, block = _stage_circuit(st, c.get('round'))
        ins = {w.name: inp(w.name) for w in block.wirevector_subset(pyrtl.Input)}
        sim = pyrtl.Simulation(block=block)
        sim.step(ins)
        xb = refs.bytes_of(ins['x'])
        exp = {'sub': lambda: refs.sub_bytes(xb, F), 'inv_sub': lambda: refs.sub_bytes(xb, F, True), 'shift': lambda: refs.shift_rows(xb),
               'inv_shift': lambda: refs.shift_rows(xb, True), 'mix': lambda: refs.mix_columns(xb, F),
               'inv_mix': lambda: refs.mix_columns(xb, F, True), 'addkey': lambda: refs.xor_bytes(xb, refs.bytes_of(ins.get('k', 0))),
               'keyexp': lambda: refs.key_expand_step(xb, refs.RCON[c.get('round', 0) + 1], F),
               'keyexp_wire': lambda: refs.key_expand_step(xb, refs.RCON[ins.get('c', 0) + 1], F),
               'keygen_second': lambda: refs.key_schedule(xb, F)[c.get('round', 1)]}[st]()
        got = sim.inspect('y')
        e = refs.join_bytes(exp)
        return got != e, 'stage %s(%x) = %x, FIPS-197 gives %x' % (st, ins['x'], got, e)
    if k == 'full':
        pyrtl.reset_working_block()
        A = aeslib.AES()
        x, key = pyrtl.Input(128, 'x'), pyrtl.Input(128, 'key')
        o = pyrtl.Output(128, 'y')
        o <<= A.encryption(x, key) if c['dir'] == 'enc' else A.decryption(x, key)
        sim = pyrtl.Simulation()
        sim.step({'x': inp('x'), 'key': inp('key')})
        f = refs.aes_encrypt if c['dir'] == 'enc' else refs.aes_decrypt
        e = refs.join_bytes(f(refs.bytes_of(inp('x')), refs.bytes_of(inp('key')), F))
        return sim.inspect('y') != e, '%s(%x, key %x) = %x, FIPS-197 gives %x' % (c['dir'], inp('x'), inp('key'), sim.inspect('y'), e)
    if k == 'statem':
        # replay as a protocol run: reset with (text_in, key_in) then 11 cycles; compare with FIPS when ready
        A, block, tname, kname = _statem_circuit(c['dir'])
        regs = mv.get('regs', {})
        cnt = regs.get('counter', 0)
        sim = pyrtl.Simulation(block=block, register_value_map={block.wirevector_by_name[n]: x for n, x in regs.items()
                                                                if n in block.wirevector_by_name})
        ins = {'text_in': inp('text_in'), 'key_in': inp('key_in'), 'reset': inp('reset')}
        sim.step(ins)
        nt = sim.regvalue[block.wirevector_by_name[tname]]
        nk = sim.regvalue[block.wirevector_by_name[kname]]
        nc = sim.regvalue[block.wirevector_by_name['counter']]
        tb, kb = refs.bytes_of(regs.get(tname, 0)), refs.bytes_of(regs.get(kname, 0))
        J = refs.join_bytes
        if ins['reset']:
            if c['dir'] == 'enc':
                et, ek, ec = ins['text_in'] ^ ins['key_in'], ins['key_in'], 0
            else:
                et, ek, ec = ins['text_in'] ^ J(refs.key_schedule(refs.bytes_of(ins['key_in']), F)[10]), ins['key_in'], 0
        elif cnt == 10:
            et, ek, ec = regs.get(tname, 0), regs.get(kname, 0), 10
        elif c['dir'] == 'enc':
            nkey = refs.key_expand_step(kb, refs.RCON[cnt + 1], F)
            s = refs.shift_rows(refs.sub_bytes(tb, F))
            et = J(refs.xor_bytes(s if cnt == 9 else refs.mix_columns(s, F), nkey))
            ek, ec = J(nkey), cnt + 1
        else:
            ks = refs.key_schedule(kb, F)
            y = refs.xor_bytes(refs.sub_bytes(refs.shift_rows(tb, True), F, True), ks[10 - (cnt + 1)])
            et = J(y if cnt == 9 else refs.mix_columns(y, F, True))
            ek, ec = regs.get(kname, 0), cnt + 1
        bad = []
        if nt != et:
            bad.append('text register: %x, FIPS round gives %x' % (nt, et))
        if nk != ek:
            bad.append('key register: %x, expected %x' % (nk, ek))
        if nc != ec:
            bad.append('counter: %d, expected %d' % (nc, ec))
        if sim.inspect('ready') != (1 if cnt == 10 else 0):
            bad.append('ready=%d at counter=%d' % (sim.inspect('ready'), cnt))
        return bool(bad), 'state=%r inputs=%r\n%s' % (regs, ins, '\n'.join(bad))
    if k == 'trivium_idle':
        block = build_trivium(c['w'], c['bpc'])
        sim = pyrtl.Simulation(block=block)
        bad = []
        for t in range(3):
            sim.step({'load': 0, 'req': 0, 'seed': mv.get('inputs', {}).get('seed', [0, 0, 0])[t] if isinstance(mv.get('inputs', {}).get('seed'), list) else 0})
            if sim.inspect('ready') != 0:
                bad.append('cycle %d after power-on, no load yet: ready=1 (rand=%d)' % (t, sim.inspect('rand')))
        return bool(bad), '\n'.join(bad)
    if k == 'lfsr':
        w = c['w']
        pyrtl.reset_working_block()
        load, req, seed = pyrtl.Input(1, 'load'), pyrtl.Input(1, 'req'), pyrtl.Input(127, 'seed')
        o = pyrtl.Output(w, 'rand')
        o <<= prngs.prng_lfsr(w, load, req, seed)
        block = pyrtl.working_block()
        reg = list(block.wirevector_subset(pyrtl.Register))[0]
        s = mv.get('regs', {}).get(reg.name, 0)
        sim = pyrtl.Simulation(register_value_map={reg: s})
        ins = {'load': inp('load'), 'req': inp('req'), 'seed': inp('seed')}
        sim.step(ins)
        exp = ins['seed'] if ins['load'] else (refs.lfsr_leap(s, reg.bitwidth, w) if ins['req'] else s)
        bad = []
        if sim.regvalue[reg] != exp:
            bad.append('next state %x, LFSR gives %x' % (sim.regvalue[reg], exp))
        if sim.inspect('rand') != s & ((1 << w) - 1):
            bad.append('rand %x != low bits of state %x' % (sim.inspect('rand'), s))
        return bool(bad), '\n'.join(bad)
    if k in ('xoro', 'trivium'):
        w = c['w']
        numbers = []
        if k == 'xoro':
            block = build_xoro(w)
            sched, ready_at, gen, numbers = xoro_schedule(w, c['reqs'], c.get('variant'))
        else:
            block = build_trivium(w, c['bpc'])
            sched, init_ready, gen_ready, gen = trivium_schedule(w, c['bpc'])
            ready_at = [init_ready, gen_ready]
        regs = {block.wirevector_by_name[n]: x for n, x in mv.get('regs', {}).items() if n in block.wirevector_by_name}
        sim = pyrtl.Simulation(block=block, register_value_map=regs)
        seedmap = mv.get('inputs', {}).get('seed', {})
        loads = [t for t, (ld, rq) in enumerate(sched) if ld]
        seed_at = {t: int(seedmap.get(str(t), seedmap.get(t, 0))) for t in loads}
        seed = seed_at[0]
        bad = []
        for t, (ld, rq) in enumerate(sched):
            sim.step({'load': ld, 'req': rq, 'seed': seed_at.get(t, 0)})
            rdy = sim.inspect('ready')
            if t >= 1 and rdy != (1 if t in ready_at else 0):
                bad.append('ready=%d at cycle %d' % (rdy, t))
            for (tn, si, skip) in numbers:
                if k == 'xoro' and tn == t:
                    sd = seed_at[loads[si]]
                    s0, s1 = sd & refs.M64, sd >> 64
                    for _ in range(skip * gen):
                        _wd, s0, s1 = refs.xoroshiro_next(s0, s1)
                    val = 0
                    for _ in range(gen):
                        wd, s0, s1 = refs.xoroshiro_next(s0, s1)
                        val = (val << 64) | wd
                    exp = val >> (64 * gen - w)
                    if sim.inspect('rand') != exp:
                        bad.append('rand=%x at cycle %d, xoroshiro128+ from the seed loaded at cycle %d gives %x' % (sim.inspect('rand'), t, loads[si], exp))
            if k == 'trivium' and t == ready_at[-1]:
                key, iv = seed >> 80, seed & ((1 << 80) - 1)
                ks = refs.trivium_keystream([(key >> i) & 1 for i in range(80)], [(iv >> i) & 1 for i in range(80)], gen * c['bpc'])
                val = 0
                for b in ks:
                    val = (val << 1) | b
                exp = val & ((1 << w) - 1)
                if sim.inspect('rand') != exp:
                    bad.append('rand=%x, Trivium gives %x' % (sim.inspect('rand'), exp))
        return bool(bad), 'seed=%x\n%s' % (seed, '\n'.join(bad[:5]))
    if k == 'trivium_step':
        w, bpc = c['w'], c['bpc']
        block = build_trivium(w, bpc)
        regs = {r.bitwidth: r for r in block.wirevector_subset(pyrtl.Register) if r.bitwidth in (93, 84, 111)}
        rv = mv.get('regs', {})
        sim = pyrtl.Simulation(block=block, register_value_map={block.wirevector_by_name[n]: x for n, x in rv.items()
                                                                if n in block.wirevector_by_name})
        sim.step({'load': 0, 'req': 1, 'seed': 0})
        a, b, cc = rv.get(regs[93].name, 0), rv.get(regs[84].name, 0), rv.get(regs[111].name, 0)
        s = [(a >> i) & 1 for i in range(93)] + [(b >> i) & 1 for i in range(84)] + [(cc >> i) & 1 for i in range(111)]
        for _ in range(bpc):
            z, s = refs.trivium_step(s)
        na = sum(bit << i for i, bit in enumerate(s[0:93]))
        nb = sum(bit << i for i, bit in enumerate(s[93:177]))
        nc = sum(bit << i for i, bit in enumerate(s[177:288]))
        got = (sim.regvalue[regs[93]], sim.regvalue[regs[84]], sim.regvalue[regs[111]])
        return got != (na, nb, nc), 'next (a,b,c) = %r, Trivium gives %r' % (got, (na, nb, nc))
    return False, 'no replay for %r' % (k,)
