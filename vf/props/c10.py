"""C10 — malformed netlists are rejected; API-built designs iterate in dependency order.

Part 1 (solver, all bitwidths): the real Block.sanity_check_net runs on LogicNets whose wires' .bitwidth attributes (and
MemBlock addrwidth/bitwidth) are symbolic integers in 1..4095; it must raise PyrtlInternalError exactly when the documented
well-formedness predicate is false.
Part 2 (schedules as solver variables): the real Block.__iter__ runs with every set it iterates/pops ordered by symbolic
ranks; the explorer enumerates exactly the orders the code can distinguish; on every path each net is yielded once and after
the producers of its non-register arguments; a combinational loop raises PyrtlError on every path.
Part 3 (fault enumeration): every (fault kind, site) injected into well-formed designs is rejected by sanity_check and by the
three simulator constructors; the unfaulted design is accepted by all four."""
import itertools
import z3
import pyrtl
from pyrtl import LogicNet
from pyrtl.core import Block
from .. import designs, sym
from ..sym import SymInt, explore, to_cond, is_sym

PROP = 'C10'
LEVEL = 'fault_enumeration'
RULE = ('part 1: one evaluation = (op, arity, destination/operand class pattern) with all bitwidths symbolic — decided by the '
        'solver for every width in 1..4095; part 2: one evaluation = one design, all distinguishable tie-break orders explored '
        '(each path = one class of hash seeds / allocation orders); part 3: one evaluation = one (design, fault kind, site); a case '
        'is non-trivial when the real checking code ran on it and at least one obligation/fact was produced')
ASSUMPTIONS = [
    'documented predicate transcribed from the Block docstring (core.py) + "result truncated to the destination": operands of '
    'equal width for 2-input ops, mux select 1 bit, destination no wider than the natural result, comparisons exactly 1 bit, memory '
    'port widths equal to the MemBlock\'s',
    'part 2 model restriction: one global total order (symbolic ranks) induces the order of every controlled set',
    'part 3: faults are injected by editing block.logic / wirevector_set directly (bypassing add_net), one fault per case',
]
W = 12   # symbolic bitwidths are W-bit variables constrained to 1..4095


def bounds(tier):
    return {'part1': 'every op x arity 0..4 x symbolic bitwidths 1..4095; select index tuples from a fixed list',
            'part2': 'API-built designs with <= %d nets' % (5 if tier == 'quick' else 7),
            'part3': 'fault kinds %r x every applicable site of %d designs' % (FAULTS, 12 if tier == 'quick' else 90)}


# ------------------------------------------------------------------------------------------
# part 1

OPS = 'w~&|^n+-*<>=xcsrm@'
ARITY = {'w': 1, '~': 1, 'r': 1, 's': 1, 'm': 1, '&': 2, '|': 2, '^': 2, 'n': 2, '+': 2, '-': 2, '*': 2, '<': 2, '>': 2, '=': 2,
         'x': 3, '@': 3}


def documented(op, aw, dw, param, mem):
    """documented well-formedness of a net with argument widths aw (SymInts), destination widths dw, as a z3 Bool"""
    c = []

    def C(x):
        c.append(to_cond(x))
    if op in ARITY and len(aw) != ARITY[op]:
        return z3.BoolVal(False)
    if op == '@':
        if len(dw) != 0:
            return z3.BoolVal(False)
        C(aw[0] == mem[0])
        C(aw[1] == mem[1])
        C(aw[2] == 1)
        return z3.And(*c)
    if len(dw) != 1:
        return z3.BoolVal(False)
    d = dw[0]
    if op in 'w~r':
        C(d <= aw[0])
    elif op in '&|^n':
        C(aw[0] == aw[1])
        C(d <= aw[0])
    elif op in '+-':
        C(aw[0] == aw[1])
        C(d <= aw[0] + 1)
    elif op == '*':
        C(aw[0] == aw[1])
        C(d <= 2 * aw[0])
    elif op in '<>=':
        C(aw[0] == aw[1])
        C(d == 1)
    elif op == 'x':
        C(aw[0] == 1)
        C(aw[1] == aw[2])
        C(d <= aw[1])
    elif op == 'c':
        tot = 0
        for a in aw:
            tot = tot + a
        C(d <= tot)
    elif op == 's':
        for p in param:
            C(p < aw[0])
            if p < 0:
                return z3.BoolVal(False)
        C(d <= len(param))
    elif op == 'm':
        C(aw[0] == mem[0])
        C(d == mem[1])
    return z3.And(*c) if c else z3.BoolVal(True)


def part1_cases():
    out = []
    for op in OPS:
        ar = ARITY.get(op)
        arities = range(0, 5)
        for n in arities:
            if op == 'c' and n == 0:
                continue
            for nd in ((0, 1, 2) if op in '@w+' else (1,)) if op != '@' else (0, 1):
                if op == 's':
                    for param in ((0,), (0, 1, 2), (3, 0), (5,), (2, 2, 2, 2), (-1,)):
                        out.append({'part': 1, 'op': op, 'nargs': n, 'ndests': nd, 'param': list(param)})
                else:
                    out.append({'part': 1, 'op': op, 'nargs': n, 'ndests': nd})
    # parameter-shape faults (op_param present where it should be None, wrong types)
    for op in 'w+x':
        out.append({'part': 1, 'op': op, 'nargs': ARITY[op], 'ndests': 1, 'bad_param': 'not_none'})
    out.append({'part': 1, 'op': 's', 'nargs': 1, 'ndests': 1, 'bad_param': 'list'})
    out.append({'part': 1, 'op': 's', 'nargs': 1, 'ndests': 1, 'bad_param': 'str_index'})
    out.append({'part': 1, 'op': 'm', 'nargs': 1, 'ndests': 1, 'bad_param': 'no_mem'})
    out.append({'part': 1, 'op': 'm', 'nargs': 1, 'ndests': 1, 'bad_param': 'short'})
    out.append({'part': 1, 'op': '?', 'nargs': 1, 'ndests': 1})
    # wire-class faults per position
    for op in '&x':
        for fault in ('input_dest', 'const_dest', 'output_arg', 'foreign_arg', 'foreign_dest', 'unknown_arg', 'not_a_wire',
                      'reg_dest_for_w', 'nonreg_dest_for_r'):
            out.append({'part': 1, 'op': op if fault != 'nonreg_dest_for_r' else 'r', 'nargs': ARITY[op] if fault != 'nonreg_dest_for_r' else 1,
                        'ndests': 1, 'wire_fault': fault, 'pos': 0})
            if fault.endswith('_arg') and ARITY[op] > 1:
                out.append({'part': 1, 'op': op, 'nargs': ARITY[op], 'ndests': 1, 'wire_fault': fault, 'pos': ARITY[op] - 1})
    # an Output / foreign wire as an argument: every op, every argument position, plain and Output destinations
    for op in OPS:
        if op == '@':
            continue
        ar = ARITY.get(op, 2)
        for pos in range(ar):
            for dk in ('wire', 'output') if op != 'r' else ('wire',):
                for fault in ('output_arg', 'foreign_arg'):
                    out.append({'part': 1, 'op': op, 'nargs': ar, 'ndests': 1, 'wire_fault': fault, 'pos': pos, 'dest_kind': dk})
    return out


def run_part1(case, ob, site):
    pyrtl.reset_working_block()
    b = pyrtl.working_block()
    op, na, nd = case['op'], case['nargs'], case['ndests']
    widths = []
    cons = []

    def symw(name):
        t = z3.BitVec(name, W)
        cons.append(z3.And(z3.UGE(t, 1)))
        x = SymInt(t, False, 1, (1 << W) - 1)
        widths.append(x)
        return x
    args = []
    for i in range(na):
        w = pyrtl.WireVector(4, 'a%d' % i)
        w.bitwidth = symw('wa%d' % i)
        args.append(w)
    dests = []
    for i in range(nd):
        if op == 'r':
            w = pyrtl.Register(4, 'd%d' % i)
        elif case.get('dest_kind') == 'output':
            w = pyrtl.Output(4, 'd%d' % i)
        else:
            w = pyrtl.WireVector(4, 'd%d' % i)
        w.bitwidth = symw('wd%d' % i)
        dests.append(w)
    mem = None
    param = None
    if op in 'm@':
        mem = pyrtl.MemBlock(bitwidth=4, addrwidth=4, name='mem', asynchronous=True)
        mem.addrwidth = symw('maw')
        mem.bitwidth = symw('mbw')
        param = (mem.id, mem)
    if op == 's':
        param = tuple(case.get('param', (0,)))
    bp = case.get('bad_param')
    expect_static = None
    if bp == 'not_none':
        param, expect_static = (1,), False
    elif bp == 'list':
        param, expect_static = [0], False
    elif bp == 'str_index':
        param, expect_static = ('0',), False
    elif bp == 'no_mem':
        param, expect_static = (1, 'mem'), False
    elif bp == 'short':
        param, expect_static = (mem.id,), False
    wf = case.get('wire_fault')
    if wf:
        expect_static = False
        pos = case['pos']
        other = Block()
        if wf == 'input_dest':
            dests[0] = pyrtl.Input(4, 'bad')
        elif wf == 'const_dest':
            dests[0] = pyrtl.Const(1, bitwidth=4)
        elif wf == 'output_arg':
            args[pos] = pyrtl.Output(4, 'bad')
        elif wf == 'foreign_arg':
            args[pos] = pyrtl.WireVector(4, 'bad', block=other)
        elif wf == 'foreign_dest':
            dests[0] = pyrtl.WireVector(4, 'bad', block=other)
        elif wf == 'unknown_arg':
            x = pyrtl.WireVector(4, 'bad')
            b.remove_wirevector(x)
            args[pos] = x
        elif wf == 'not_a_wire':
            args[pos] = 3
        elif wf == 'reg_dest_for_w':
            # a Register may only be written by a next ('r') op: with any other op the three simulators give the register
            # three different meanings (found on the pinned tree, fixed in /repo c7ac00d)
            dests[0] = pyrtl.Register(4, 'badr')
            dests[0].bitwidth = symw('wdr')
        elif wf == 'nonreg_dest_for_r':
            dests[0] = pyrtl.WireVector(4, 'bad')
        for w in args + dests:
            if isinstance(w, pyrtl.WireVector) and not is_sym(w.bitwidth) and not isinstance(w, pyrtl.Const):
                w.bitwidth = symw('wx%d' % len(widths))
    net = LogicNet(op, param, tuple(args), tuple(dests))
    paths = explore(lambda: b.sanity_check_net(net), assumptions=cons)
    ob.paths += len(paths)
    if op not in OPS:
        pred = z3.BoolVal(False)
    elif expect_static is False:
        pred = z3.BoolVal(False)
    else:
        aw = [w.bitwidth for w in args]
        dw = [w.bitwidth for w in dests]
        mw = (mem.addrwidth, mem.bitwidth) if mem is not None else None
        pred = documented(op, aw, dw, param, mw)
    for p in paths:
        ex = lambda m: {'widths': {str(x.t): m.eval(x.t, model_completion=True).as_long() for x in widths}}
        if p.exc is None:
            ob.prove('accepted-only-if-well-formed', pred, cons + p.pc, None, site=site + ':accepts-malformed', extract=ex)
        elif isinstance(p.exc, (pyrtl.PyrtlInternalError, pyrtl.PyrtlError)):
            ob.prove('rejected-only-if-malformed', z3.Not(pred), cons + p.pc, None, site=site + ':rejects-well-formed', extract=ex)
        else:
            ob.prove('raises-only-Pyrtl-errors(%s)' % type(p.exc).__name__, z3.Not(p.cond()), cons, None,
                     site=site + ':wrong-exception', extract=ex)


# ------------------------------------------------------------------------------------------
# part 2: iteration order under every tie-break

class RankedSet(set):
    """a set whose iteration / pop order is the order of per-element symbolic ranks (all distinct)"""
    ranks = {}
    counter = [0]
    constraints = []

    @classmethod
    def reset(cls):
        cls.ranks = {}
        cls.counter = [0]
        cls.constraints = []
        cls.memo = {}

    @classmethod
    def rank(cls, x):
        k = id(x) if not isinstance(x, tuple) else hash(x)
        r = cls.ranks.get(k)
        if r is None:
            cls.counter[0] += 1
            t = z3.BitVec('rank_%d' % cls.counter[0], 8)
            for o in cls.ranks.values():
                cls.constraints.append(o[1] != t)
            r = (x, t)
            cls.ranks[k] = r
        return SymInt(r[1], False)

    memo = {}

    @classmethod
    def less(cls, a, b):
        """rank(a) < rank(b): a solver-pruned fork the first time a pair is compared on a path, memoised afterwards"""
        k = (id(a), id(b))
        if k in cls.memo:
            return cls.memo[k]
        r = bool(cls.rank(a) < cls.rank(b))
        cls.memo[k] = r
        cls.memo[(id(b), id(a))] = not r
        return r

    def _concrete(self):
        return sorted(set.__iter__(self), key=lambda x: getattr(x, 'name', ''))

    def __iter__(self):
        # plain iteration keeps a concrete (name) order: only pop(), the tie-break of Block.__iter__, is symbolic
        return iter(self._concrete())

    def pop(self):
        items = self._concrete()
        best = items[0]
        for x in items[1:]:
            if RankedSet.less(x, best):
                best = x
        set.remove(self, best)
        return best

    def copy(self):
        return RankedSet(set.__iter__(self))

    def union(self, *o):
        return RankedSet(set.union(set(set.__iter__(self)), *o))


def part2_designs(tier, seed):
    out = []
    n = 5 if tier == 'quick' else 7
    for c in designs.expr_cases(12 if tier == 'quick' else 60, seed + 3, n=3, maxw=3, nrom=0):
        out.append(dict(c, part=2, n=2 + (c['seed'] % (n - 2))))
    out += [dict(c, part=2) for c in designs.seq_cases(widths=(2,)) if c['kind'] in ('chain', 'counter', 'reg_out', 'mem_rdw')]
    out.append({'part': 2, 'fam': 'LOOP', 'kind': 'ring'})
    out.append({'part': 2, 'fam': 'LOOP', 'kind': 'fed_loop'})
    out.append({'part': 2, 'fam': 'LOOP', 'kind': 'reg_loop'})
    out.append({'part': 2, 'fam': 'LOOP', 'kind': 'repeat_args'})
    out.append({'part': 2, 'fam': 'LOOP', 'kind': 'repeat_args_mem'})
    return out


def build_loop(d):
    k = d['kind']
    if k == 'ring':       # free-running combinational ring, not reachable from any Input/Const/Register
        a, b = pyrtl.WireVector(1, 'ra'), pyrtl.WireVector(1, 'rb')
        a <<= ~b
        b <<= ~a
        o = pyrtl.Output(1, 'o')
        o <<= a
        x = pyrtl.Input(1, 'x')
        o2 = pyrtl.Output(1, 'o2')
        o2 <<= x
    elif k == 'fed_loop':  # loop through slices/concats fed by an input
        x = pyrtl.Input(2, 'x')
        a = pyrtl.WireVector(2, 'la')
        t = pyrtl.concat(a[0], x[0])
        a <<= t & x
        o = pyrtl.Output(2, 'o')
        o <<= a
    elif k == 'mem_loop':  # loop through an asynchronous memory read
        m = pyrtl.MemBlock(bitwidth=2, addrwidth=2, name='m', asynchronous=True)
        a = pyrtl.WireVector(2, 'la')
        a <<= m[a]
        o = pyrtl.Output(2, 'o')
        o <<= a
    elif k == 'reg_loop':  # a loop broken by a register is legal
        r = pyrtl.Register(2, 'r')
        r.next <<= r + 1
        o = pyrtl.Output(2, 'o')
        o <<= r
    elif k == 'repeat_args':
        # nets that read one wire in several, non-adjacent, argument positions (legal; each is still one net)
        x, y = pyrtl.Input(1, 'x'), pyrtl.Input(1, 'y')
        t = x & y
        o = pyrtl.Output(3, 'o')
        o <<= pyrtl.concat(t, y, t)
        p = pyrtl.Output(1, 'p')
        p <<= pyrtl.select(t, t, y)
    elif k == 'repeat_args_mem':
        x, y = pyrtl.Input(1, 'x'), pyrtl.Input(2, 'y')
        t = x & y[0]
        m = pyrtl.MemBlock(bitwidth=2, addrwidth=1, name='m', asynchronous=True)
        m[t] <<= pyrtl.MemBlock.EnabledWrite(y, t)        # the enable is also the address
        o = pyrtl.Output(2, 'o')
        o <<= m[t]
    return pyrtl.working_block()


designs.register_family('LOOP', build_loop)


def run_part2(case, ob, site):
    block = designs.build(case)
    looped = case.get('fam') == 'LOOP' and case['kind'] in ('ring', 'fed_loop', 'mem_loop')
    nclear = len(block.wirevector_subset((pyrtl.Input, pyrtl.Const, pyrtl.Register)))
    if len(block.logic) > 9 or nclear > 3:
        ob.notes.append('design outside the part-2 size bound (nets > 9 or initially-ready wires > 3): skipped')
        ob.fact('skipped-too-large', True)
        return
    RankedSet.reset()
    orig_subset = Block.wirevector_subset
    nets = list(block.logic)

    def subset(self, cls=None, exclude=tuple()):
        return RankedSet(orig_subset(self, cls, exclude))

    class FixedOrder(set):
        """block.logic iterated in a concrete, chosen order (the order of dest_dict lists); varied over a few permutations"""
        order = []

        def __iter__(self):
            return iter([n for n in FixedOrder.order if set.__contains__(self, n)])

        def copy(self):
            return FixedOrder(set.__iter__(self))
    base_order = sorted(nets, key=lambda n: (n.dests[0].name if n.dests else '', n.op))
    perms = [base_order, base_order[::-1], base_order[1:] + base_order[:1]]
    paths = []
    try:
        for perm in perms:
            FixedOrder.order = perm

            def body():
                RankedSet.memo = {}
                Block.wirevector_subset = subset
                saved = block.logic
                block.logic = FixedOrder(saved)
                try:
                    return list(block)
                finally:
                    Block.wirevector_subset = orig_subset
                    block.logic = saved
            import io
            import contextlib
            with contextlib.redirect_stdout(io.StringIO()):     # find_and_print_loop prints the loop it finds
                try:
                    paths += explore(body, assumptions=[], max_paths=3000)
                except sym.HarnessError as e:
                    if 'path budget' not in str(e):
                        raise
                    # too many distinguishable tie-break orders for this design: outside the part-2 bound, stated as such
                    ob.notes.append('design skipped: more than 3000 distinguishable tie-break orders (outside the part-2 bound)')
                    ob.fact('skipped-order-budget', True)
                    return
    finally:
        Block.wirevector_subset = orig_subset
    ob.paths += len(paths)
    producers = {}
    for n in nets:
        for d in n.dests:
            producers[d] = n
    orders = set()
    for p in paths:
        if looped:
            ob.fact('combinational-loop-raises-PyrtlError-on-every-order', isinstance(p.exc, pyrtl.PyrtlError), site + ':loop-not-detected',
                    detail=repr(p.exc))
            continue
        if p.exc is not None:
            ob.fact('iteration-accepts-well-formed-design', False, site + ':raises', detail=repr(p.exc))
            continue
        order = p.result
        orders.add(tuple(id(n) for n in order))
        ok_once = len(order) == len(nets) and len(set(map(id, order))) == len(nets)
        pos = {id(n): i for i, n in enumerate(order)}
        dep_ok = True
        for n in order:
            for a in n.args:
                pr = producers.get(a)
                if pr is not None and pr.op != 'r' and pos.get(id(pr), 1 << 30) > pos[id(n)]:
                    dep_ok = False
        ob.fact('each-net-yielded-exactly-once', ok_once, site + ':not-once')
        ob.fact('net-after-producers-of-non-register-arguments', dep_ok, site + ':order')
    ob.notes.append('distinct yield orders explored for one design: %d (paths %d)' % (len(orders), len(paths)))
    # the tie-break variables really are free: the distinctness constraints are satisfiable (vacuity witness)
    s = z3.Solver()
    s.add(*RankedSet.constraints)
    ob.fact('rank-constraints-satisfiable', s.check() == z3.sat, site + ':vacuity')


# ------------------------------------------------------------------------------------------
# part 3: block-level faults

FAULTS = ['second_driver', 'undriven', 'undriven_register', 'undriven_output', 'reg_driven_by_gate', 'cycle_into_sync_mem', 'unconnected', 'foreign_wire', 'foreign_dest', 'duplicate_name', 'duplicate_name_const', 'stale_by_name', 'missing_by_name',
          'sync_mem_comb_addr', 'comb_cycle', 'isolated_ring', 'mem_cycle', 'bad_arity', 'bad_width', 'bad_memid', 'write_to_rom', 'undriven_sync_addr']
CYCLES = ('comb_cycle', 'isolated_ring', 'mem_cycle', 'cycle_into_sync_mem')   # detected by iteration (simulator construction), not by sanity_check alone


def part3_cases(tier, seed):
    base = designs.expr_cases(8 if tier == 'quick' else 80, seed + 11, n=5, maxw=4, nrom=0) + \
        [c for c in designs.seq_cases(widths=(3,)) if c['kind'] in ('chain', 'mem_rdw', 'counter', 'rom_reg')] + \
        [{'fam': 'LOOP', 'kind': 'repeat_args'}, {'fam': 'LOOP', 'kind': 'repeat_args_mem'}]
    out = []
    out.append({'part': 3, 'fam': 'SESSIONS', 'fault': None, 'mode': 'foreign_wb'})
    for ci, c in enumerate(base):
        for mode in MODES:
            out.append(dict(c, part=3, fault=None, mode=mode))
        for fi, f in enumerate(FAULTS):
            for site in range((5 if f == 'unconnected' else 3) if tier == 'quick' else 6):
                modes = MODES if (site == 0 or tier != 'quick') else [MODES[(ci + fi + site) % len(MODES)]]
                for mode in modes:
                    out.append(dict(c, part=3, fault=f, fsite=site, mode=mode))
    return out


# how the checks are invoked: 'fresh' = on the faulty block, which is also the working block; 'after_check' = the same block
# object was checked and simulated while still well formed, then the fault is injected, then it is checked again (a history:
# anything remembered from the first check must not mask the fault); 'foreign_wb' = the faulty block is passed as block= while a
# different, well-formed block is the working block; 'post_synth' = the design is synthesized first and the fault is injected
# into the PostSynthBlock (the documented Simulation(block=<synthesized block>) form)
MODES = ['fresh', 'after_check', 'foreign_wb', 'post_synth']


def other_block():
    b = pyrtl.Block()
    with pyrtl.set_working_block(b, no_sanity_check=True):
        x = pyrtl.Input(2, 'x_other')
        y = pyrtl.Output(2, 'y_other')
        y <<= ~x
    return b


def checked(case, block):
    """acceptors under the invocation mode of the case"""
    if case.get('mode') == 'foreign_wb':
        with pyrtl.set_working_block(other_block(), no_sanity_check=True):
            return acceptors(block)
    with pyrtl.set_working_block(block, no_sanity_check=True):
        return acceptors(block)


def inject(block, fault, fsite):
    """returns False when the fault is not applicable at that site"""
    with pyrtl.set_working_block(block, no_sanity_check=True):
        nets = sorted(block.logic, key=lambda n: (n.op, n.dests[0].name if n.dests else ''))
        wires = sorted(block.wirevector_set, key=lambda w: w.name)
        inner = [n for n in nets if n.dests and not isinstance(n.dests[0], (pyrtl.Output, pyrtl.Register))]
        if fault == 'second_driver':
            cand = [n for n in nets if n.dests]
            if fsite >= len(cand):
                return False
            n = cand[fsite]
            src = [w for w in wires if isinstance(w, pyrtl.Input) and w.bitwidth >= n.dests[0].bitwidth]
            if not src:
                return False
            extra = LogicNet('w', None, (src[0],), (n.dests[0],))
            if extra in block.logic:       # the very same net already exists: adding it again is not a second driver
                return False
            block.logic.add(extra)
        elif fault == 'undriven':
            readers = set()
            for n in nets:
                readers.update(n.args)
            cand = [n for n in inner if n.dests[0] in readers]
            if fsite >= len(cand):
                return False
            block.logic.remove(cand[fsite])
        elif fault == 'undriven_register':
            # the net that latches a register which other logic reads is removed (the Register object keeps its .next)
            readers = set()
            for n in nets:
                readers.update(n.args)
            cand = [n for n in nets if n.op == 'r' and n.dests[0] in readers]
            if fsite >= len(cand):
                return False
            block.logic.remove(cand[fsite])
        elif fault == 'reg_driven_by_gate':
            # a Register as the destination of a net that is not a next ('r') op
            regs_ = [w for w in wires if isinstance(w, pyrtl.Register)]
            src = [w for w in wires if isinstance(w, pyrtl.Input)]
            if fsite >= len(regs_) or not src:
                return False
            r_ = regs_[fsite]
            s_ = next((w for w in src if w.bitwidth >= r_.bitwidth), None)
            if s_ is None:
                return False
            for n in [n for n in nets if n.op == 'r' and n.dests[0] is r_]:
                block.logic.remove(n)
            block.logic.add(LogicNet('w' if fsite % 2 == 0 else '~', None, (s_,), (r_,)))
        elif fault == 'cycle_into_sync_mem':
            # a combinational loop of plain wires drives the read address of a synchronous memory
            if fsite > 1:
                return False
            m_ = pyrtl.MemBlock(bitwidth=2, addrwidth=2, name='vf_sync', asynchronous=False)
            w1, w2 = pyrtl.WireVector(2, 'vf_l1'), pyrtl.WireVector(2, 'vf_l2')
            w1 <<= w2
            if fsite == 0:
                w2 <<= w1
            else:
                w2 <<= pyrtl.concat(w1[0], w1[1])
            o_ = pyrtl.Output(2, 'vf_syncout')
            o_ <<= m_[w1]
        elif fault == 'undriven_output':
            cand = [n for n in nets if n.dests and isinstance(n.dests[0], pyrtl.Output)]
            if fsite >= len(cand):
                return False
            block.logic.remove(cand[fsite])
        elif fault == 'unconnected':
            # a declared wire connected to nothing: named or with an automatic name, of each non-input class
            if fsite == 0:
                pyrtl.WireVector(2, 'vf_dangling')
            elif fsite == 1:
                pyrtl.Output(2, 'vf_dangling')
            elif fsite == 2:
                pyrtl.WireVector(2)
            elif fsite == 3:
                pyrtl.Register(2)
            elif fsite == 4:
                pyrtl.WireVector(1, 'tmp_vf_dangling')
            else:
                return False
        elif fault == 'foreign_wire':
            cand = [n for n in nets if n.op in 'w~' and n.dests]
            if fsite >= len(cand):
                return False
            n = cand[fsite]
            other = Block()
            fw = pyrtl.Input(n.args[0].bitwidth, 'vf_foreign', block=other)
            block.logic.remove(n)
            block.logic.add(LogicNet(n.op, n.op_param, (fw,), n.dests))
        elif fault == 'foreign_dest':
            # the DESTINATION of a net is owned by another Block although it is registered in this one
            cand = [n for n in nets if n.dests and isinstance(n.dests[0], pyrtl.Output)]
            if fsite >= len(cand):
                return False
            cand[fsite].dests[0]._block = Block()
        elif fault == 'duplicate_name':
            if fsite + 1 >= len(wires):
                return False
            a, b = wires[fsite], wires[fsite + 1]
            b._name = a.name     # bypass the name setter, which would re-register the wire
        elif fault == 'duplicate_name_const':
            # a repeated name that involves a Const: a Const carrying the name of another wire, a wire carrying the name of a
            # Const, two Consts of one name
            consts = [w for w in wires if isinstance(w, pyrtl.Const)]
            others = [w for w in wires if not isinstance(w, pyrtl.Const)]
            if not consts or not others:
                return False
            def rename(w, new):
                # as the constructor / the name setter registers it: the by-name table ends up with one entry for the name
                block.wirevector_by_name.pop(w.name, None)
                w._name = new
                block.wirevector_by_name[new] = w
            if fsite == 0:
                rename(consts[0], others[0].name)
            elif fsite == 1:
                rename(others[-1], consts[-1].name)
            elif fsite == 2 and len(consts) >= 2:
                rename(consts[1], consts[0].name)
            else:
                return False
        elif fault == 'stale_by_name':
            if fsite >= len(wires):
                return False
            w = wires[fsite]
            block.wirevector_by_name['vf_stale'] = w
        elif fault == 'missing_by_name':
            if fsite >= len(wires):
                return False
            del block.wirevector_by_name[wires[fsite].name]
        elif fault == 'sync_mem_comb_addr':
            if fsite > 0:
                return False
            ins = [w for w in wires if isinstance(w, pyrtl.Input)]
            if not ins:
                return False
            m = pyrtl.MemBlock(bitwidth=2, addrwidth=ins[0].bitwidth, name='vf_syncmem', asynchronous=False)
            o = pyrtl.Output(2, 'vf_so')
            o <<= m[~ins[0]]       # an op every block kind accepts (PostSynthBlock has no '+')
        elif fault == 'comb_cycle':
            cand = [n for n in inner if n.op in '&|^' ]
            if fsite >= len(cand):
                return False
            n = cand[fsite]
            block.logic.remove(n)
            block.logic.add(LogicNet(n.op, n.op_param, (n.dests[0], n.args[1]), n.dests))
        elif fault == 'isolated_ring':
            if fsite > 0:
                return False
            a, b = pyrtl.WireVector(1, 'vf_ra'), pyrtl.WireVector(1, 'vf_rb')
            a <<= ~b
            b <<= ~a
            o = pyrtl.Output(1, 'vf_ro')
            o <<= a
        elif fault == 'mem_cycle':
            if fsite > 0:
                return False
            m = pyrtl.MemBlock(bitwidth=2, addrwidth=2, name='vf_loopmem', asynchronous=True)
            a = pyrtl.WireVector(2, 'vf_la')
            a <<= m[a]
            o = pyrtl.Output(2, 'vf_lo')
            o <<= a
        elif fault == 'bad_arity':
            cand = [n for n in nets if n.op in '&|^+-']
            if fsite >= len(cand):
                return False
            n = cand[fsite]
            block.logic.remove(n)
            block.logic.add(LogicNet(n.op, None, (n.args[0],), n.dests))
        elif fault == 'bad_width':
            cand = [n for n in nets if n.op in '&|^w~' and n.dests]
            if fsite >= len(cand):
                return False
            n = cand[fsite]
            n.dests[0].bitwidth = n.args[0].bitwidth + 2
        elif fault == 'undriven_sync_addr':
            # a wire that is read but never driven, on the address path of a synchronous memory's read port
            if fsite > 2:
                return False
            m_ = pyrtl.MemBlock(bitwidth=2, addrwidth=2, name='vf_syncm', asynchronous=False)
            t_ = pyrtl.WireVector(2, 'vf_floating')
            adr = [t_, pyrtl.concat(t_[0], t_[1]), t_[0:2]][fsite]
            o_ = pyrtl.Output(2, 'vf_sync_o')
            o_ <<= m_[adr]
        elif fault == 'bad_memid':
            # a memory port whose op_param names another memory id than the MemBlock it carries
            cand = [n for n in nets if n.op in 'm@']
            if fsite >= len(cand):
                return False
            n = cand[fsite]
            block.logic.remove(n)
            block.logic.add(LogicNet(n.op, (n.op_param[0] + 12345, n.op_param[1]), n.args, n.dests))
        elif fault == 'write_to_rom':
            roms = sorted({n.op_param[1] for n in nets if n.op == 'm' and isinstance(n.op_param[1], pyrtl.RomBlock)}, key=lambda m: m.name)
            if fsite >= len(roms):
                return False
            rom = roms[fsite]
            a_ = pyrtl.Input(rom.addrwidth, 'vf_rom_wa')
            d_ = pyrtl.Input(rom.bitwidth, 'vf_rom_wd')
            e_ = pyrtl.Input(1, 'vf_rom_we')
            block.logic.add(LogicNet('@', (rom.id, rom), (a_, d_, e_), ()))
        elif fault == 'no_bitwidth':
            cand = [w for w in wires if not isinstance(w, (pyrtl.Const, pyrtl.Input, pyrtl.Output, pyrtl.Register))]
            if fsite >= len(cand):
                return False
            cand[fsite].bitwidth = None
        else:
            raise ValueError(fault)
    return True


def acceptors(block):
    import io
    import contextlib
    res = {}
    with contextlib.redirect_stdout(io.StringIO()):     # find_and_print_loop prints the loop it finds
        return _acceptors(block, res)


def _acceptors(block, res):

    import signal

    class _Hang(Exception):
        pass

    def _alarm(*a):
        raise _Hang()

    def tryit(name, fn):
        # a check that does not come back is neither a rejection nor a simulation: reported as such after 10 s of this
        # process's own CPU time (a loaded machine or a slow C compiler must not look like a hang) or 300 s of wall time
        old = signal.signal(signal.SIGVTALRM, _alarm)
        old2 = signal.signal(signal.SIGALRM, _alarm)
        signal.setitimer(signal.ITIMER_VIRTUAL, 10)
        prev = signal.alarm(300)
        try:
            fn()
            res[name] = None
        except (pyrtl.PyrtlError, pyrtl.PyrtlInternalError) as e:
            res[name] = 'rejected'
        except _Hang:
            res[name] = 'other: no answer within 10 s of CPU time (does not terminate)'
        except Exception as e:
            res[name] = 'other:%s: %s' % (type(e).__name__, e)
        finally:
            signal.setitimer(signal.ITIMER_VIRTUAL, 0)
            signal.alarm(0)
            signal.signal(signal.SIGVTALRM, old)
            signal.signal(signal.SIGALRM, old2)
            if prev:
                signal.alarm(prev)       # the runner's own per-case limit keeps running
    tryit('sanity_check', block.sanity_check)
    tryit('Simulation', lambda: pyrtl.Simulation(block=block))
    tryit('FastSimulation', lambda: pyrtl.FastSimulation(block=block))
    tryit('CompiledSimulation', lambda: pyrtl.CompiledSimulation(block=block))
    return res


def build_two_sessions():
    """a design kept in its own Block and built in two sittings, with a reset_working_block() for some other work in between;
    automatic names (tmpN, const_N) are used in both sittings"""
    from pyrtl import core as _core
    b = pyrtl.Block()
    with pyrtl.set_working_block(b, no_sanity_check=True):
        x, y = pyrtl.Input(2, 'x'), pyrtl.Input(2, 'y')
        t = (x & 1) ^ (y | 2)
        u = t + 1
    _core.reset_working_block()          # the library's own function (vf/__init__.py wraps only the package-level name)
    with pyrtl.set_working_block(b, no_sanity_check=True):
        w = (u[0:2] ^ 3) & (x | 1)
        o = pyrtl.Output(3, 'o')
        o <<= pyrtl.concat(w, t[0]) + 2
    return b


def run_part3(case, ob, site):
    if case.get('fam') == 'SESSIONS':
        block = build_two_sessions()
        res = checked(dict(case, mode='foreign_wb'), block)
        for k, v in res.items():
            ob.fact('design-built-in-two-sittings-accepted-by-%s' % k, v is None, site + ':rejects-well-formed:' + k, detail=v)
        return
    block = designs.build(case)
    if case.get('mode') == 'post_synth':
        with pyrtl.set_working_block(block, no_sanity_check=True):
            block = pyrtl.synthesize(update_working_block=False, block=block)
    if case['fault'] is None:
        res = checked(case, block)
        for k, v in res.items():
            ob.fact('well-formed-design-accepted-by-%s' % k, v is None, site + ':rejects-well-formed:' + k, detail=v)
        return
    if case.get('mode') == 'after_check':
        checked(case, block)          # the history: checked and simulated while well formed
    if not inject(block, case['fault'], case['fsite']):
        ob.notes.append('fault not applicable at that site')
        ob.fact('not-applicable', True)
        return
    res = checked(case, block)
    for k, v in res.items():
        if k == 'sanity_check' and case['fault'] in CYCLES:
            ob.notes.append('sanity_check alone %s a combinational cycle (the property allows rejection at simulator construction)'
                            % ('rejects' if v == 'rejected' else 'does not reject'))
            continue
        ob.fact('%s-rejects-%s' % (k, case['fault']), v == 'rejected', site + ':' + k, detail=v)


# ------------------------------------------------------------------------------------------

def cases(tier, seed):
    return part1_cases() + part2_designs(tier, seed) + part3_cases(tier, seed)


def site_of(c):
    if c['part'] == 1:
        s = 'C10:net:op=%s:nargs=%d:ndests=%d' % (c['op'], c['nargs'], c['ndests'])
        if c.get('bad_param'):
            s += ':param=' + c['bad_param']
        if c.get('wire_fault'):
            s += ':' + c['wire_fault']
        return s
    if c['part'] == 2:
        return 'C10:iter:%s' % (c.get('kind') or c['fam'])
    return 'C10:fault:%s%s' % (c['fault'], '' if c.get('mode', 'fresh') == 'fresh' else ':' + c['mode'])


def run_case(case, ob, tier):
    {1: run_part1, 2: run_part2, 3: run_part3}[case['part']](case, ob, site_of(case))


def replay(cex):
    c = cex['case']
    if c['part'] == 3 and c.get('fam') == 'SESSIONS':
        res = checked(dict(c, mode='foreign_wb'), build_two_sessions())
        bad = {k: v for k, v in res.items() if v is not None}
        return bool(bad), 'a design built in two sittings (reset_working_block() in between) is rejected: %r' % bad
    if c['part'] == 3:
        block = designs.build(c)
        if c.get('mode') == 'post_synth':
            with pyrtl.set_working_block(block, no_sanity_check=True):
                block = pyrtl.synthesize(update_working_block=False, block=block)
        if c['fault'] is None:
            res = checked(c, block)
            bad = {k: v for k, v in res.items() if v is not None}
            return bool(bad), 'well-formed design rejected: %r' % bad
        if c.get('mode') == 'after_check':
            checked(c, block)
        if not inject(block, c['fault'], c['fsite']):
            return False, 'fault not applicable'
        res = checked(c, block)
        bad = {k: v for k, v in res.items() if v != 'rejected' and not (k == 'sanity_check' and c['fault'] in CYCLES)}
        return bool(bad), 'fault %s at site %d: not rejected by %r' % (c['fault'], c['fsite'], bad)
    if c['part'] == 2:
        # re-run the exploration (deterministic) and report any failing path
        from ..core import Obligations
        ob = Obligations(PROP, c, 10000)
        run_part2(c, ob, site_of(c))
        return bool(ob.sat), 'iteration-order facts failing on the real Block.__iter__: %r' % [x['obligation'] for x in ob.sat][:5]
    # part 1: rebuild the net with the model's concrete widths and call the real sanity_check_net
    ws = cex.get('widths', {})
    pyrtl.reset_working_block()
    b = pyrtl.working_block()
    op, na, nd = c['op'], c['nargs'], c['ndests']
    if c.get('wire_fault') or c.get('bad_param'):
        from ..core import Obligations
        ob = Obligations(PROP, c, 10000)
        run_part1(c, ob, site_of(c))
        return bool(ob.sat), 'static malformed net accepted (or well-formed rejected): %r' % [x['obligation'] for x in ob.sat][:3]
    args = [pyrtl.WireVector(ws.get('wa%d' % i, 1), 'a%d' % i) for i in range(na)]
    dests = [(pyrtl.Register if op == 'r' else pyrtl.WireVector)(ws.get('wd%d' % i, 1), 'd%d' % i) for i in range(nd)]
    param = None
    mem = None
    if op in 'm@':
        mem = pyrtl.MemBlock(bitwidth=ws.get('mbw', 1), addrwidth=ws.get('maw', 1), name='mem', asynchronous=True)
        param = (mem.id, mem)
    if op == 's':
        param = tuple(c.get('param', (0,)))
    net = LogicNet(op, param, tuple(args), tuple(dests))
    try:
        b.sanity_check_net(net)
        accepted = True
    except (pyrtl.PyrtlError, pyrtl.PyrtlInternalError):
        accepted = False
    aw = [w.bitwidth for w in args]
    dw = [w.bitwidth for w in dests]
    pred = documented(op, aw, dw, param, (mem.addrwidth, mem.bitwidth) if mem else None) if op in OPS else z3.BoolVal(False)
    wf = z3.is_true(z3.simplify(pred))
    return accepted != wf, 'net %s widths %r: sanity_check_net %s, documented predicate says %s' % (
        op, ws, 'accepts' if accepted else 'rejects', 'well-formed' if wf else 'malformed')
