"""C04 — optimize() and its constituent passes preserve observable behaviour.

Real code: optimize, _remove_wire_nets, _remove_slice_nets, constant_propagation/_constant_prop_pass (its folding
lambdas run concretely on Const values at pass time; the RESULT netlist is what is decided), _remove_unlistened_nets,
_remove_unused_wires, common_subexp_elimination/_find_common_subexps/_replace_subexps, replace_wires. The block
before (built a second time from the same descriptor) and the block after run on the real Simulation
symbolically; registers are matched by name."""
import z3
import pyrtl
from pyrtl import passes as P
from .. import designs, equiv, simdrv, spec
from ..simdrv import Vars

PROP = 'C04'
LEVEL = 'translation_validation'
ASSUMPTIONS = [
    'sanctioned difference encoded as an assumption: every register present before and absent after starts out '
    'holding the value its next-input has at cycle 0 (its compile-time constant); vacuity twin shows it is satisfiable',
    'registers matched by name (in-place passes keep register objects/names); shared registers start from the same '
    'arbitrary value (BMC, reg_init=sym) and additionally from the declared reset state when no register is eliminated',
    'two enabled writes to one address in a cycle excluded (undefined)',
    'stubs/merge points of vf/simdrv.py',
]

PASSES = ['optimize', 'constprop', 'cse', 'wire', 'slice', 'dead', 'optimize2', 'cse+constprop']
BASES = ['word', 'synth', 'nand', 'aig']     # + 'dco' (word-level after direct_connect_outputs) for the small families


def bounds(tier):
    return {'passes': PASSES, 'base forms': BASES, 'K': 3 if tier == 'quick' else 5,
            'families': 'OP, CONSTOP (gates with 0/1/2 constant operands, widths 1-3), DUP (duplicated/commuted '
                        'sub-expressions), MISC, EXPR, SEQ'}


def cases(tier, seed):
    out = []
    K = 3 if tier == 'quick' else 5
    base = []
    if tier == 'quick':
        base += designs.op_cases([1, 3, 4], ops='w~&|^n+-<>=xcsm', mul_max=0) + designs.op_cases([1, 3], ops='*', mul_max=3)
        base += designs.constop_cases() + designs.dup_cases() + designs.misc_cases() + designs.carg_cases((1, 3))
        base += designs.expr_cases(25, seed, n=6, maxw=4) + designs.seq_cases()
    else:
        base += designs.op_cases([1, 2, 3, 4, 5, 8], ops='w~&|^n+-<>=xcsm', mul_max=0) + designs.op_cases([1, 2, 3, 4], ops='*', mul_max=4)
        base += designs.constop_cases() + designs.dup_cases() + designs.misc_cases() + designs.carg_cases((1, 2, 3, 4))
        base += designs.expr_cases(150, seed, n=8, maxw=5) + designs.seq_cases(widths=(1, 4, 8))
    # an Input no net reads (declared and unused, or left unread by an earlier folding) stays part of the interface, in place
    # and in the copy that update_working_block=False returns
    for c in designs.op_cases([1, 3], ops='w&+', mul_max=0):
        for b, p in (('word', 'optimize_copy'), ('synth', 'optimize_copy'), ('word', 'optimize2'), ('word', 'optimize'), ('word', 'unused_wires')):
            d = dict(c, spare=2, K=K, base=b, pas=p, scope='both')
            if p == 'unused_wires':
                d['keep_inputs'] = True
            out.append(d)
    for c in [x for x in designs.constop_cases() if x['op'] == '&'][:4]:
        out.append(dict(c, K=K, base='word', pas='optimize_then_copy', scope='both'))
    for i, c in enumerate(base):
        if c['fam'] in ('CONSTOP', 'DUP', 'MISC', 'CARG'):
            combos = [(b, p) for b in ('word', 'synth') for p in ('optimize', 'constprop', 'cse')]
            # 'dco': the gates drive the Outputs themselves (direct_connect_outputs ran first)
            combos += [('dco', p) for p in ('optimize', 'constprop', 'cse')]
            if tier != 'quick':
                combos += [('nand', 'optimize'), ('aig', 'optimize'), ('word', 'optimize2'), ('synth', 'cse+constprop'),
                           ('word', 'wire'), ('word', 'slice'), ('word', 'dead')]
        else:
            # rotate through base forms / passes so that the product is covered across the family
            if tier == 'quick':
                combos = [(BASES[i % 4], PASSES[i % len(PASSES)]), ('word', 'optimize'), ('synth', 'optimize')]
            else:
                combos = [(b, p) for b in BASES for p in ('optimize', PASSES[i % len(PASSES)])]
        if c['fam'] in ('CONSTOP', 'DUP', 'MISC', 'EXPR', 'SEQ') and (tier != 'quick' or i % 3 == 0):
            extra = [('word', 'cse_thresh'), ('synth', 'cse_thresh'), ('word', 'optimize_nocheck'), ('word', 'unused_wires'),
                     ('word', 'constprop_silent'), ('word', 'optimize_copy'), ('synth', 'optimize_copy')]
            combos = list(combos) + (extra if tier != 'quick' else [extra[i % len(extra)], extra[(i // 3) % len(extra)]])
        for j, (b, p) in enumerate(dict.fromkeys(combos)):
            d = dict(c, K=K, base=b, pas=p, scope=('both', 'explicit', 'implicit')[(i + j) % 3])
            if p == 'cse_thresh':
                # (abs_thresh=0 with percent_thresh=0 never terminates on the pinned tree: "stop when the net count shrank by
                #  less than 0" is never true; the thresholds are stopping heuristics, not part of the property; not used)
                d.update({'abs': (1, 2, 5)[i % 3], 'pct': (0, 0.5, 0.99)[(i // 3) % 3]})
            if p == 'unused_wires':
                d['keep_inputs'] = bool(i % 2)
            out.append(d)
    return out


def prep(case):
    """the block the pass is given (built from the descriptor; called twice: reference and subject)"""
    blk = designs.build(case)
    b = case['base']
    if b == 'word':
        return blk
    if b == 'dco':
        pyrtl.direct_connect_outputs(blk)
        return blk
    blk = pyrtl.synthesize(update_working_block=True, block=blk)
    if b == 'nand':
        pyrtl.nand_synth(block=blk)
    elif b == 'aig':
        # and_inverter_synth has its own property (C09); use it as a producer of AIG-shaped input only
        pyrtl.and_inverter_synth(block=blk)
    return blk


def apply_pass(case, blk, other=None):
    """scope 'both' (default): blk is the working block and is passed explicitly; 'explicit': `other` is the working block and blk
    is passed explicitly; 'implicit' (optimize only): blk is the working block and no block is passed"""
    p = case['pas']
    scope = case.get('scope', 'both')
    wb = other if (scope == 'explicit' and other is not None) else blk
    okw = {} if scope == 'implicit' else {'block': blk}
    with pyrtl.set_working_block(wb, no_sanity_check=True):
        if p == 'optimize':
            r = pyrtl.optimize(**okw)
        elif p == 'optimize2':
            r = pyrtl.optimize(**okw)
            r = pyrtl.optimize(**({} if scope == 'implicit' else {'block': r}))
        elif p == 'constprop':
            P.constant_propagation(blk, True)
            r = blk
        elif p == 'cse':
            P.common_subexp_elimination(blk)
            r = blk
        elif p == 'cse_thresh':
            # non-default termination thresholds: fewer / more rounds, same behaviour
            P.common_subexp_elimination(blk, abs_thresh=case.get('abs', 0), percent_thresh=case.get('pct', 0.5))
            r = blk
        elif p == 'optimize_copy':
            # the non-updating form: the result is a new block, the given one stays as it is
            r = pyrtl.optimize(update_working_block=False, **okw)
        elif p == 'optimize_then_copy':
            pyrtl.optimize(**okw)
            r = pyrtl.optimize(update_working_block=False, **okw)
        elif p == 'optimize_nocheck':
            r = pyrtl.optimize(skip_sanity_check=True, **okw)
        elif p == 'unused_wires':
            P._remove_unused_wires(blk, keep_inputs=case.get('keep_inputs', True))
            r = blk
        elif p == 'constprop_silent':
            P.constant_propagation(blk, silence_unexpected_net_warnings=True)
            r = blk
        elif p == 'cse+constprop':
            P.common_subexp_elimination(blk)
            P.constant_propagation(blk, True)
            P.common_subexp_elimination(blk)
            r = blk
        elif p == 'wire':
            P._remove_wire_nets(blk)
            r = blk
        elif p == 'slice':
            P._remove_slice_nets(blk)
            r = blk
        elif p == 'dead':
            P._remove_unlistened_nets(blk)
            r = blk
        else:
            raise ValueError(p)
    return r


def site_of(case):
    d = {'OP': lambda: 'OP:op=%s' % case['op'], 'SEQ': lambda: 'SEQ:%s' % case['kind'],
         'CONSTOP': lambda: 'CONSTOP:op=%s:w=%s:consts=%d' % (case['op'], 'multi' if case['w'] > 1 else '1', len(case['cp'])),
         'DUP': lambda: 'DUP:op=%s' % case['op'], 'MISC': lambda: 'MISC:%s' % case['kind']}.get(case['fam'], lambda: case['fam'])()
    return 'C04:%s(%s):%s' % (case['pas'], case['base'], d)


def io_sig(b):
    return sorted((w.name, w.bitwidth, type(w).__name__) for w in b.wirevector_subset((pyrtl.Input, pyrtl.Output)))


def run_case(case, ob, tier):
    site = site_of(case)
    A = prep(case)
    B0 = prep(case)
    try:
        from . import c11
        fpA = c11.fingerprint(A)
        B = apply_pass(case, B0, other=A)
    except Exception as e:
        ob.fact('pass-accepts-design', False, site + ':raises', detail='%s: %s' % (type(e).__name__, e))
        return
    ob.fact('pass-touches-only-the-block-it-was-given', c11.fingerprint(A) == fpA, site + ':other-block-modified',
            detail='scope=%s' % case.get('scope', 'both'))
    ob.fact('keeps-every-input-and-output', io_sig(A) == io_sig(B), site + ':io', detail=[io_sig(A), io_sig(B)])
    try:
        B.sanity_check()
        ob.fact('result-well-formed', True)
    except Exception as e:
        ob.fact('result-well-formed', False, site + ':sanity', detail=str(e))
        return
    if io_sig(A) != io_sig(B):
        return
    check_equiv(ob, case, A, B, site)


def check_equiv(ob, case, A, B, site):
    pair = equiv.Pair.by_name(A, B)
    K = case['K']
    v = Vars()
    sp = spec.run(A, K, v, reg_init='sym', mem_init='sym')
    assume = [z3.Not(d) for d in sp.double_write]
    bregs = {r.name for r in B.wirevector_subset(pyrtl.Register)}
    eliminated = [r for r in A.wirevector_subset(pyrtl.Register) if r.name not in bregs]
    src = {n.dests[0].name: n.args[0] for n in A.logic_subset('r')}
    for r in eliminated:
        assume.append(v.reg(r.name, r.bitwidth) == spec.fit(sp.trace[src[r.name].name][0], r.bitwidth))
    equiv.bmc_outputs(ob, pair, K, v, site + ':bmc', reg_init='sym', assume=assume)
    if not eliminated:
        v2 = Vars('z_')
        sp2 = spec.run(A, K, v2, reg_init='reset', mem_init='sym')
        equiv.bmc_outputs(ob, pair, K, v2, site + ':bmc-from-reset', reg_init='reset',
                          assume=[z3.Not(d) for d in sp2.double_write])


def replay(cex):
    case = cex['case']
    site = cex.get('site', '')
    A = prep(case)
    B0 = prep(case)
    from . import c11
    fpA = c11.fingerprint(A)
    try:
        B = apply_pass(case, B0, other=A)
    except Exception as e:
        return True, 'pass raised %s: %s on %r' % (type(e).__name__, e, case)
    if cex.get('structural'):
        if c11.fingerprint(A) != fpA:
            return True, 'the pass modified a block it was not given (scope=%s)' % case.get('scope', 'both')
        if io_sig(A) != io_sig(B):
            return True, 'I/O changed: %r -> %r' % (io_sig(A), io_sig(B))
        try:
            B.sanity_check()
        except Exception as e:
            return True, 'result not well-formed: %s' % e
        return False, 'structural predicates hold on replay'
    pair = equiv.Pair.by_name(A, B)
    differs, text = equiv.replay_pair(pair, case['K'], cex.get('model', {}),
                                      reg_init='reset' if 'from-reset' in site else 'sym')
    return differs, 'case=%r\n%s' % (case, text)
