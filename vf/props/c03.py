"""C03 — synthesize() preserves behaviour and the simulation interface.

Real code: synthesize/_replace_op/_decompose/_basic_*/copy_block/clone_wire/_get_new_block_mem_instance run
concretely (elaboration); then the real Simulation of both blocks runs symbolically on shared variables,
including Simulation._initialize's mem_map indirection for PostSynthBlock."""
import z3
import pyrtl
from pyrtl.memory import RomBlock
from .. import designs, equiv, simdrv
from ..simdrv import Vars

PROP = 'C03'
LEVEL = 'translation_validation'
ASSUMPTIONS = [
    'testbench is literally the original one: inputs by name (or per-bit through io_map when unmerged), '
    'memory_value_map keyed by the ORIGINAL MemBlock, no register_value_map (declared reset state)',
    'inductive step uses reg_map/mem_map as the state correspondence (plain equality of all state)',
    'two enabled writes to one address in a cycle excluded (undefined)',
    'stubs/merge points of vf/simdrv.py',
]


def bounds(tier):
    return {'OP widths': designs.WQ if tier == 'quick' else designs.WQ + [16, 32, 64], 'mul_max': 5 if tier == 'quick' else 8,
            'EXPR designs': 30 if tier == 'quick' else 200, 'K': 3 if tier == 'quick' else 5,
            'merge_io_vectors': [True, False], 'update_working_block': [True, False]}


def cases(tier, seed):
    out = []
    K = 3 if tier == 'quick' else 5
    if tier == 'quick':
        base = designs.op_cases(designs.WQ, ops='w~&|^n+-<>=xcs', mul_max=0)
        base += designs.op_cases([1, 2, 3, 4, 5], ops='*', mul_max=5)
        base += designs.op_cases([1, 2, 3], ops='m')
        base += designs.op_cases([1, 3, 4], ops='w+-', dests=('reg',))
        for c in list(base):
            if c.get('dest') == 'reg':
                base.append(dict(c, reset=(1 << c['wd']) - 1))
                base.append(dict(c, reset=1))
                base.append(dict(c, reset=0))
        base += [dict(c, spare=2) for c in designs.op_cases([1, 3], ops='w+x', mul_max=0)]
        base += designs.misc_cases()
        base += designs.expr_cases(30, seed, n=6, maxw=5)
        base += designs.seq_cases()
    else:
        base = designs.op_cases(designs.WQ + [16, 32, 64], ops='w~&|^n+-<>=xcs', mul_max=0)
        base += designs.op_cases([1, 2, 3, 4, 5, 6, 7, 8], ops='*', mul_max=8)
        base += designs.op_cases([1, 2, 3, 4], ops='m')
        base += designs.op_cases([1, 3, 4, 8], ops='w+-x', dests=('reg',))
        for c in list(base):
            if c.get('dest') == 'reg':
                base.append(dict(c, reset=(1 << c['wd']) - 1))
                base.append(dict(c, reset=1))
                base.append(dict(c, reset=0))
        base += [dict(c, spare=1 + i % 3) for i, c in enumerate(designs.op_cases([1, 3, 8], ops='w+-x<c', mul_max=0))]
        base += designs.misc_cases() + designs.dup_cases()
        base += designs.expr_cases(200, seed, n=8, maxw=6)
        base += designs.seq_cases(widths=(1, 4, 8))
    base += designs.carg_cases((1, 3)) if tier == 'quick' else designs.carg_cases((1, 2, 3, 4)) + designs.constop_cases()
    # operands wider than a machine word (a lowering that works on 64-bit chunks has its boundaries here)
    wide = [dict(c, K=1) for c in designs.op_cases([65, 72] if tier == 'quick' else [63, 64, 65, 72, 128, 130], ops='+-<>=w', mul_max=0)]
    # (products of that width are out of reach: a synthesized 33x33-bit multiplier against bvmul does not finish)
    for i, c in enumerate(wide):
        out.append(dict(c, merge=bool(i % 2), uwb=False, wb='same'))
    for i, c in enumerate(base):
        for merge in (True, False):
            out.append(dict(c, K=c.get('K', K), merge=merge, uwb=bool((i + merge) % 2), wb=('same', 'foreign', 'implicit')[(i // 2 + merge) % 3]))
    return out


def site_of(case):
    d = 'OP:op=%s' % case['op'] if case['fam'] == 'OP' else ('%s:%s' % (case['fam'], case['kind']) if case['fam'] in ('SEQ', 'MISC') else case['fam'])
    has_mem = case['fam'] == 'OP' and case['op'] == 'm' or case['fam'] == 'SEQ' and 'mem' in case['kind']
    return 'C03:synthesize(merge=%s):%s%s' % (case['merge'], d, ':mem' if has_mem else '')


def transform(case):
    A = designs.build(case)
    if case.get('wb') == 'foreign':
        # the design is passed as block= while an unrelated block is the working block
        from . import c11
        decoy = c11.decoy_block()
        pyrtl.set_working_block(decoy, no_sanity_check=True)
        case['_decoy'] = (decoy, c11.fingerprint(decoy))
    elif case.get('wb') == 'implicit':
        # the design is the working block and no block argument is given
        wb_before = pyrtl.working_block()
        B = pyrtl.synthesize(update_working_block=case['uwb'], merge_io_vectors=case['merge'])
        return A, B, wb_before
    wb_before = pyrtl.working_block()
    B = pyrtl.synthesize(update_working_block=case['uwb'], merge_io_vectors=case['merge'], block=A)
    return A, B, wb_before


def make_pair(A, B):
    return equiv.Pair.from_maps(A, B, B.io_map, B.reg_map, B.mem_map)


def memkey(A):
    orig = {m.name: m for m in simdrv.mems_of(A).values()}
    return lambda mB: orig[mB.name]


def structural(ob, case, A, B, site):
    legal = set('~&|^nrwm@') | set('cs')
    ops = set(n.op for n in B.logic)
    ob.fact('only-gate-level-ops', ops <= legal, site + ':ops', detail=sorted(ops - legal))
    # c/s only as I/O re-assembly (merged) or memory-port re-assembly
    iow = set(B.wirevector_subset((pyrtl.Input, pyrtl.Output)))
    memw = set()
    for n in B.logic:
        if n.op in 'm@':
            memw.update(n.args)
            memw.update(n.dests)
    stray = []
    for n in B.logic:
        if n.op == 'c' and not (n.dests[0] in memw or (case['merge'] and n.dests[0] in iow)
                                or _feeds(B, n.dests[0], memw | (iow if case['merge'] else set()))):
            stray.append(str(n))
        if n.op == 's' and not (n.args[0] in memw or (case['merge'] and n.args[0] in iow)):
            stray.append(str(n))
    ob.fact('concat/select-only-for-io-or-memory-reassembly', not stray, site + ':ops', detail=stray[:3])
    io = B.wirevector_subset((pyrtl.Input, pyrtl.Output))
    touch = set()
    for n in B.logic:
        if n.op in 'csm@':
            touch.update(n.args)
            touch.update(n.dests)
    wide = [w.name for w in B.wirevector_set if w not in io and w.bitwidth != 1 and w not in touch]
    ob.fact('non-io-wires-single-bit', not wide, site + ':widths', detail=wide[:5])
    regs_ok = all(r.bitwidth == 1 for r in B.wirevector_subset(pyrtl.Register))
    ob.fact('single-bit-registers', regs_ok, site + ':widths')
    a_io = set(A.wirevector_subset((pyrtl.Input, pyrtl.Output)))
    ob.fact('io_map-keyed-by-original-io', set(B.io_map.keys()) == a_io, site + ':io_map')
    a_regs = set(A.wirevector_subset(pyrtl.Register))
    ob.fact('reg_map-keyed-by-original-registers', set(k for k, v in B.reg_map.items() if v) == a_regs, site + ':reg_map')
    a_mems = set(simdrv.mems_of(A).values()) | set(n.op_param[1] for n in A.logic_subset('m') if isinstance(n.op_param[1], RomBlock))
    ob.fact('mem_map-keyed-by-original-memories', set(B.mem_map.keys()) == a_mems, site + ':mem_map')
    if case['merge']:
        names_a = sorted((w.name, w.bitwidth, type(w).__name__) for w in a_io)
        names_b = sorted((w.name, w.bitwidth, type(w).__name__) for w in io)
        ob.fact('same-io-interface', names_a == names_b, site + ':io')


def _feeds(B, w, targets):
    """w reaches a wire in targets through 'w' nets only"""
    seen = set()
    frontier = [w]
    while frontier:
        x = frontier.pop()
        if x in targets:
            return True
        if x in seen:
            continue
        seen.add(x)
        for n in B.logic:
            if n.op == 'w' and n.args[0] is x:
                frontier.append(n.dests[0])
    return False


def run_case(case, ob, tier):
    site = site_of(case)
    try:
        A, B, wb_before = transform(case)
    except Exception as e:
        ob.fact('synthesize-accepts-design', False, site + ':raises', detail='%s: %s' % (type(e).__name__, e))
        return
    ob.fact('working-block-updated-as-requested',
            (pyrtl.working_block() is B) if case['uwb'] else (pyrtl.working_block() is wb_before), site + ':working_block')
    if case.get('_decoy'):
        from . import c11
        decoy, fpd = case.pop('_decoy')
        ob.fact('unrelated-working-block-untouched', c11.fingerprint(decoy) == fpd, site + ':foreign-working-block')
    try:
        B.sanity_check()
        ob.fact('result-well-formed', True)
    except Exception as e:
        ob.fact('result-well-formed', False, site + ':sanity', detail=str(e))
        return
    structural(ob, case, A, B, site)
    pair = make_pair(A, B)
    v = Vars()
    from .. import spec
    sp = spec.run(A, case['K'], v, reg_init='reset', mem_init='sym')
    assume = [z3.Not(d) for d in sp.double_write]
    equiv.bmc_outputs(ob, pair, case['K'], v, site + ':bmc-from-reset', reg_init='reset', memkeyB=memkey(A), assume=assume)
    v2 = Vars('s_')
    sp2 = spec.run(A, 1, v2, reg_init='sym', mem_init='sym')
    equiv.inductive_step(ob, pair, v2, site + ':step', memkeyB=memkey(A), assume=[z3.Not(d) for d in sp2.double_write])
    regsA = A.wirevector_subset(pyrtl.Register)
    if regsA and all(r.reset_value is not None for r in regsA):
        # declared reset values (an explicit 0 included) win over a non-zero Simulation default_value in both blocks
        ok = True
        for r in regsA:
            for i, rb in enumerate(B.reg_map[r]):
                ok = ok and rb.reset_value is not None and int(rb.reset_value) == ((int(r.reset_value) >> i) & 1 if len(B.reg_map[r]) > 1
                                                                                     else int(r.reset_value))
        ob.fact('reset-values-carried-to-the-synthesized-registers', ok, site + ':reset_value')
        v4 = Vars('d_')
        sp4 = spec.run(A, 2, v4, reg_init='reset', mem_init='sym', default_value=1)
        equiv.bmc_outputs(ob, pair, 2, v4, site + ':bmc-from-reset(default_value=1)', reg_init='reset', default_value=1,
                          memkeyB=memkey(A), assume=[z3.Not(d) for d in sp4.double_write], compare_mems=False)
    if any(n.op in 'm@' for n in A.logic):
        # "a testbench written against the original ... runs unchanged on the result": also when that testbench uses
        # FastSimulation (memory_value_map keyed by the ORIGINAL MemBlock)
        Kf = min(2, case['K'])
        v3 = Vars('f_')
        sp3 = spec.run(A, Kf, v3, reg_init='reset', mem_init='sym')
        equiv.bmc_outputs(ob, pair, Kf, v3, site + ':bmc-from-reset(FastSimulation)', reg_init='reset', memkeyB=memkey(A),
                          assume=[z3.Not(d) for d in sp3.double_write], kindB='fast', compare_mems=False)


def replay(cex):
    case = cex['case']
    site = cex.get('site', '')
    try:
        A, B, wb_before = transform(case)
    except Exception as e:
        return True, 'synthesize raised %s: %s on %r' % (type(e).__name__, e, case)
    if cex.get('structural'):
        from ..core import Obligations
        ob = Obligations(PROP, case, 1000)
        ob.fact('working-block-updated-as-requested',
                (pyrtl.working_block() is B) if case['uwb'] else (pyrtl.working_block() is wb_before), 'wb')
        if case.get('_decoy'):
            from . import c11
            decoy, fpd = case.pop('_decoy')
            ob.fact('unrelated-working-block-untouched', c11.fingerprint(decoy) == fpd, 'decoy')
        try:
            B.sanity_check()
        except Exception as e:
            return True, 'result not well-formed: %s' % e
        structural(ob, case, A, B, site_of(case))
        bad = [c['obligation'] for c in ob.sat]
        return cex['obligation'] in bad, 'structural predicates failing on the real result: %r' % bad
    pair = make_pair(A, B)
    step = ':step' in site
    if 'default_value=1' in site:
        differs, text = equiv.replay_pair(pair, 2, cex.get('model', {}), reg_init='reset', memkeyB=memkey(A), default_value=1)
        return differs, 'case=%r\n%s' % (case, text)
    fast = 'FastSimulation' in site
    differs, text = equiv.replay_pair(pair, 1 if step else (min(2, case['K']) if fast else case['K']), cex.get('model', {}),
                                      reg_init='sym' if step else 'reset', memkeyB=memkey(A), **({'kindB': 'fast'} if fast else {}))
    return differs, 'case=%r\n%s' % (case, text)
