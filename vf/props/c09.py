"""C09 — lowering/restructuring passes preserve behaviour and meet their postconditions.

Real code: nand_synth, and_inverter_synth, two_way_concat, one_bit_selects, direct_connect_outputs,
two_way_fanout/_make_tree, analysis.fanout, transform.net_transform (all run concretely, in place); then the
real Simulation of the block before (built a second time from the same descriptor) and after runs symbolically."""
import z3
import pyrtl
from pyrtl import passes as P
from .. import designs, equiv, simdrv, spec
from ..simdrv import Vars
from . import c04, c11

PROP = 'C09'
LEVEL = 'translation_validation'
ASSUMPTIONS = [
    'in-place passes keep register and memory objects: state correspondence is identity by name (inductive step) '
    'plus BMC from the declared reset state',
    'gate-basis passes are given post-synthesis blocks (their documented precondition)',
    'two enabled writes to one address in a cycle excluded (undefined)',
    'stubs/merge points of vf/simdrv.py',
]
PASSES = ['nand', 'aig', 'concat2', 'sel1', 'direct', 'fanout2']
GATE = ('nand', 'aig')


def bounds(tier):
    return {'passes': PASSES, 'pairs': 'every ordered pair of the four structure passes; gate-basis passes followed by each',
            'K': 3 if tier == 'quick' else 5}


def cases(tier, seed):
    out = []
    K = 3 if tier == 'quick' else 5
    if tier == 'quick':
        base = designs.op_cases([1, 3, 4], ops='w~&|^n+-<>=xcsm', mul_max=0) + designs.op_cases([2], ops='*', mul_max=2)
        base += designs.op_cases([1, 3], ops='w+', dests=('reg',))
        base += designs.misc_cases() + designs.dup_cases()[:8] + designs.carg_cases((3,))
        base += designs.expr_cases(25, seed, n=6, maxw=4) + designs.seq_cases()
    else:
        base = designs.op_cases([1, 2, 3, 4, 5, 8], ops='w~&|^n+-<>=xcsm', mul_max=0) + designs.op_cases([1, 2, 3, 4], ops='*', mul_max=4)
        base += designs.op_cases([1, 3, 8], ops='w+-x', dests=('reg',))
        base += designs.misc_cases() + designs.dup_cases() + designs.carg_cases((1, 3))
        base += designs.expr_cases(150, seed, n=8, maxw=5) + designs.seq_cases(widths=(1, 4, 8))
    struct = ['concat2', 'sel1', 'direct', 'fanout2']
    pairs = [(a, b) for a in struct for b in struct if a != b] + [(g, s) for g in GATE for s in struct]
    for i, c in enumerate(base):
        for j, p in enumerate(PASSES):
            out.append(dict(c, K=K, passes=[p], base='synth' if p in GATE else ('word' if i % 3 else 'synth'),
                            scope=('both', 'explicit', 'implicit')[(i + j) % 3]))
        if tier == 'quick':
            sel = [pairs[i % len(pairs)], pairs[(i * 7 + 3) % len(pairs)]]
        else:
            sel = pairs
        for j, (a, b) in enumerate(sel):
            out.append(dict(c, K=K, passes=[a, b], base='synth' if a in GATE else 'word',
                            scope=('explicit', 'both', 'implicit')[(i + j) % 3]))
    # the same lowering once more, later in the same process
    hist = designs.op_cases([1, 3], ops='|^+', mul_max=0) + designs.op_cases([3], ops='w+', dests=('reg',)) + designs.seq_cases()[:3] + \
        designs.expr_cases(4 if tier == 'quick' else 40, seed + 5, n=6, maxw=3)
    for i, c in enumerate(hist):
        for p in PASSES:
            if tier == 'quick' and p not in GATE and (i + len(p)) % 3:
                continue
            out.append(dict(c, K=2, passes=[p], base='synth' if p in GATE else 'word', scope='both', again=1))
    return out


def prep(case):
    return c04.prep(case)


def apply_passes(case, blk, other=None):
    """scope 'both': blk is the working block AND passed as block=; 'explicit': another block (`other`) is the working
    block and blk is passed as block=; 'implicit': blk is the working block and the pass is called without a block"""
    scope = case.get('scope', 'both')
    wb = other if (scope == 'explicit' and other is not None) else blk
    kw = {} if scope == 'implicit' else {'block': blk}
    for p in case['passes']:
        with pyrtl.set_working_block(wb, no_sanity_check=True):
            if p == 'nand':
                pyrtl.nand_synth(**kw)
            elif p == 'aig':
                pyrtl.and_inverter_synth(**kw)
            elif p == 'concat2':
                pyrtl.two_way_concat(**kw)
            elif p == 'sel1':
                pyrtl.one_bit_selects(**kw)
            elif p == 'direct':
                pyrtl.direct_connect_outputs(**kw)
            elif p == 'fanout2':
                pyrtl.two_way_fanout(**kw)
            else:
                raise ValueError(p)
    return blk


def postconditions(case, B):
    """[(name, ok, detail)] — the last pass's documented postcondition on the real result"""
    p = case['passes'][-1]
    res = []
    gates = set(n.op for n in B.logic if n.op in '&|^n~')
    if p == 'nand':
        res.append(('only-nand-and-not-gates', gates <= set('n~'), sorted(gates)))
    elif p == 'aig':
        res.append(('only-and-and-not-gates', gates <= set('&~'), sorted(gates)))
    elif p == 'concat2':
        bad = [str(n) for n in B.logic if n.op == 'c' and len(n.args) > 2]
        res.append(('concats-have-at-most-two-operands', not bad, bad[:2]))
    elif p == 'sel1':
        bad = [str(n) for n in B.logic if n.op == 's' and len(n.op_param) != 1]
        res.append(('selects-are-single-bit', not bad, bad[:2]))
    elif p == 'direct':
        src, dst = B.net_connections()
        bad = []
        for n in B.logic:
            if n.op == 'w' and isinstance(n.dests[0], pyrtl.Output):
                s = n.args[0]
                prod = src.get(s)
                if prod is not None and prod.op not in 'r@' and len(dst.get(s, [])) == 1:
                    bad.append(str(n))
        res.append(('no-redundant-wire-net-before-an-output', not bad, bad[:2]))
    elif p == 'fanout2':
        cnt = {}
        for n in B.logic:
            for a in n.args:
                cnt[a] = cnt.get(a, 0) + 1
        bad = ['%s:%d' % (w.name, c) for w, c in cnt.items() if c > 2]
        res.append(('no-wire-read-by-more-than-two-net-arguments', not bad, bad[:3]))
    return res


def site_of(case):
    d = c04.site_of(dict(case, pas='+'.join(case['passes']))).split(':', 2)[2]
    return 'C09:%s(%s):%s' % ('+'.join(case['passes']), case['base'], d)


def history(case):
    """`again`: the same lowering was already done (on a design built the same way) earlier in this process; nothing of it may
    carry over into the lowering that is checked"""
    for _ in range(case.get('again', 0)):
        try:
            apply_passes(case, prep(case), other=prep(case))
        except Exception:
            pass        # (reported by the case without history)


def run_case(case, ob, tier):
    site = site_of(case)
    history(case)
    A = prep(case)
    B = prep(case)
    fpA = c11.fingerprint(A)
    try:
        apply_passes(case, B, other=A)
    except Exception as e:
        ob.fact('pass-accepts-design', False, site + ':raises', detail='%s: %s' % (type(e).__name__, e))
        return
    ob.fact('pass-touches-only-the-block-it-was-given', c11.fingerprint(A) == fpA, site + ':other-block-modified',
            detail='scope=%s' % case.get('scope', 'both'))
    ob.fact('same-inputs-and-outputs', c04.io_sig(A) == c04.io_sig(B), site + ':io')
    try:
        B.sanity_check()
        ob.fact('result-well-formed', True)
    except Exception as e:
        ob.fact('result-well-formed', False, site + ':sanity', detail=str(e))
        return
    for name, ok, detail in postconditions(case, B):
        ob.fact(name, ok, site + ':postcondition', detail=detail)
    if c04.io_sig(A) != c04.io_sig(B):
        return
    pair = equiv.Pair.by_name(A, B)
    v = Vars()
    sp = spec.run(A, 1, v, reg_init='sym', mem_init='sym')
    equiv.inductive_step(ob, pair, v, site + ':step', assume=[z3.Not(d) for d in sp.double_write])
    v2 = Vars('z_')
    sp2 = spec.run(A, case['K'], v2, reg_init='reset', mem_init='sym')
    equiv.bmc_outputs(ob, pair, case['K'], v2, site + ':bmc-from-reset', reg_init='reset',
                      assume=[z3.Not(d) for d in sp2.double_write])


def replay(cex):
    case = cex['case']
    site = cex.get('site', '')
    history(case)
    A = prep(case)
    B = prep(case)
    fpA = c11.fingerprint(A)
    try:
        apply_passes(case, B, other=A)
    except Exception as e:
        return True, 'pass raised %s: %s on %r' % (type(e).__name__, e, case)
    if cex.get('structural'):
        if c11.fingerprint(A) != fpA:
            return True, 'the pass modified a block it was not given (scope=%s)' % case.get('scope', 'both')
        if c04.io_sig(A) != c04.io_sig(B):
            return True, 'I/O changed'
        try:
            B.sanity_check()
        except Exception as e:
            return True, 'result not well-formed: %s' % e
        bad = [(n, d) for n, ok, d in postconditions(case, B) if not ok]
        return bool(bad), 'postconditions failing: %r' % bad
    pair = equiv.Pair.by_name(A, B)
    step = ':step' in site
    differs, text = equiv.replay_pair(pair, 1 if step else case['K'], cex.get('model', {}),
                                      reg_init='sym' if step else 'reset')
    return differs, 'case=%r\n%s' % (case, text)
