"""C08 — MemBlock/RomBlock behave as arrays under every history of reads and writes.

Real code: MemBlock.__getitem__/__setitem__/_build_read_port/_assignment/_build, _MemIndexed, RomBlock._get_read_data/
_build_read_port/_make_copy (elaboration), the memory paths of Simulation / FastSimulation (generated code) /
CompiledSimulation (generated C via ctrans), of synthesize/_decompose and optimize. One inductive step from an ARBITRARY
array covers every history; BMC-3 from an uninitialised memory pins "else initial content, else 0". The exported-Verilog
clause is discharged under C05 (same memory designs through vf/vtrans.py)."""
import itertools
import z3
import pyrtl
from .. import designs, simdrv, sym, concrete, equiv
from ..simdrv import Vars, run_sim, sym_env, CompiledModel, run_compiled
from ..sym import SymMem, to_bv, to_cond, explore, SymInt

PROP = 'C08'
LEVEL = 'model_checking'
TIMEOUT_MS = {'quick': 60000, 'thorough': 300000}
ASSUMPTIONS = [
    'pre-state: the memory is an arbitrary array (solver variable); addresses, data and enables are variables: one step covers every history',
    'two ENABLED writes in one cycle are assumed to target distinct addresses (same-address double write is documented as undefined)',
    'CompiledSimulation: initial contents are concrete (baked into the C text): checked by BMC from boundary contents; its hash-map helper '
    'text (insert/lookup) is given its own meaning by vf/chelper.py and checked against a functional map (16-, 40- and 64-bit addresses; declared width of node_t.key honoured) over a history of three symbolic inserts with a '
    'lookup before and after each (bucket chains <= 3, unwinding assertions discharged, value storage by pointer); elsewhere it is modelled as a total map',
    'ROM: list / dict (with and without pad_with_zeros) / function data; holes raise PyrtlError exactly when documented',
    'stubs/merge points of vf/simdrv.py',
]
BACKENDS = ['sim', 'fast', 'compiled', 'synth', 'opt']


def build_mem(d):
    aw, bw, nr, nw = d['aw'], d['bw'], d['nr'], d['nw']
    m = pyrtl.MemBlock(bitwidth=bw, addrwidth=aw, name='m', asynchronous=True, max_read_ports=None, max_write_ports=None)
    for i in range(nr):
        ra = pyrtl.Input(aw, 'ra%d' % i)
        o = pyrtl.Output(bw, 'rd%d' % i)
        o <<= m[ra]
    if d.get('cond'):
        # all writes are made inside one conditional_assignment block, branch j under predicate p<j>, each an EnabledWrite:
        # one physical write port whose address/data/enable are selected by the first true predicate
        ports = [(pyrtl.Input(aw, 'wa%d' % j), pyrtl.Input(bw, 'wd%d' % j), pyrtl.Input(1, 'we%d' % j), pyrtl.Input(1, 'p%d' % j))
                 for j in range(nw)]
        with pyrtl.conditional_assignment:
            for wa, wd, we, p in ports:
                with p:
                    m[wa] |= pyrtl.MemBlock.EnabledWrite(wd, we)
        nw = 0
    for j in range(nw):
        wa, wd = pyrtl.Input(aw, 'wa%d' % j), pyrtl.Input(bw, 'wd%d' % j)
        en = d.get('enable', True)
        if d.get('regdrive'):
            # the port's address, data and enable come straight out of registers (no logic in between): the write uses the
            # values the registers hold DURING the cycle, not the ones they latch at its end
            ra_, rd_, re_ = pyrtl.Register(aw, 'wa_r%d' % j), pyrtl.Register(bw, 'wd_r%d' % j), pyrtl.Register(1, 'we_r%d' % j)
            ra_.next <<= wa
            rd_.next <<= wd
            re_.next <<= pyrtl.Input(1, 'we%d' % j)
            m[ra_] <<= pyrtl.MemBlock.EnabledWrite(rd_, re_)
            continue
        if en in ('const0', 'const1') and j == 0:
            # a port whose enable is tied off (constant 0: never writes; constant 1: always writes)
            m[wa] <<= pyrtl.MemBlock.EnabledWrite(wd, pyrtl.Const(1 if en == 'const1' else 0, bitwidth=1))
        elif en:
            we = pyrtl.Input(1, 'we%d' % j)
            m[wa] <<= pyrtl.MemBlock.EnabledWrite(wd, we)
        else:
            m[wa] <<= wd
    if d.get('read_own_write'):
        o = pyrtl.Output(bw, 'rdw')
        o <<= m[pyrtl.working_block().wirevector_by_name['wa0']]
    if d.get('const_ra') is not None:
        # the documented mem[<int>] form: a read port whose address is a constant (of a memory that is written)
        o = pyrtl.Output(bw, 'rdc')
        o <<= m[pyrtl.Const(d['const_ra'], bitwidth=aw)]
    if d.get('clear_port'):
        # a further write port that clears a word: its data is the literal 0
        ca, clr = pyrtl.Input(aw, 'ca'), pyrtl.Input(1, 'clr')
        m[ca] <<= pyrtl.MemBlock.EnabledWrite(pyrtl.Const(0, bitwidth=bw), clr)
    return pyrtl.working_block()


def build_rom(d):
    aw, bw = d['aw'], d['bw']
    n = 1 << aw
    vals = [(a * 7 + 3) % (1 << bw) for a in range(n)]
    kind = d['data']
    if kind == 'list':
        data = vals
    elif kind == 'short_list':
        data = vals[:max(1, n - d.get('missing', 1))]
    elif kind == 'dict':
        data = {a: v for a, v in enumerate(vals)}
    elif kind == 'sparse_dict':
        data = {a: v for a, v in enumerate(vals) if a % 3 != 1}
        data[n - 1] = vals[n - 1] | 1
    elif kind == 'func':
        data = (lambda vs: (lambda a: vs[a]))(vals)
    rom = pyrtl.RomBlock(bitwidth=bw, addrwidth=aw, romdata=data, name='rom', asynchronous=True, pad_with_zeros=d.get('pad', False),
                         max_read_ports=None)
    for i in range(d.get('nr', 1)):
        ra = pyrtl.Input(aw, 'ra%d' % i)
        o = pyrtl.Output(bw, 'rd%d' % i)
        o <<= rom[ra]
    if d.get('twin'):
        # a second ROM of the same name and shape with other contents (memory names need not be unique), read at ra0
        rom2 = pyrtl.RomBlock(bitwidth=bw, addrwidth=aw, romdata=twin_vals(d), name='rom', asynchronous=True, max_read_ports=None)
        o = pyrtl.Output(bw, 'tw')
        o <<= rom2[pyrtl.working_block().wirevector_by_name['ra0']]
    return pyrtl.working_block()


def twin_vals(d):
    return [(a * 5 + 1) % (1 << d['bw']) for a in range(1 << d['aw'])]


designs.register_family('MEM', build_mem)
designs.register_family('ROM', build_rom)


def rom_expected(d):
    """{addr: value or None(hole)} straight from the data definition"""
    aw, bw = d['aw'], d['bw']
    n = 1 << aw
    vals = [(a * 7 + 3) % (1 << bw) for a in range(n)]
    kind = d['data']
    out = {}
    for a in range(n):
        if kind in ('list', 'dict', 'func'):
            out[a] = vals[a]
        elif kind == 'short_list':
            k = max(1, n - d.get('missing', 1))
            out[a] = vals[a] if a < k else (0 if d.get('pad') else None)
        elif kind == 'sparse_dict':
            if a == n - 1:
                out[a] = vals[a] | 1
            elif a % 3 != 1:
                out[a] = vals[a]
            else:
                out[a] = 0 if d.get('pad') else None
    return out


def bounds(tier):
    return {'read ports': '1..3', 'write ports': '1..2', 'addr widths': [1, 2, 4] + ([9] if tier != 'quick' else []),
            'data widths': [1, 8, 33, 64, 65, 70], 'back ends': BACKENDS, 'ROM data': ['list', 'short_list', 'dict', 'sparse_dict', 'func'],
            'K (uninitialised BMC)': '3 (one write port) / 2 (two write ports)'}


def cases(tier, seed):
    out = []
    shapes = [(1, 1), (2, 1), (1, 2), (3, 2)]
    aws = [1, 2, 4] if tier == 'quick' else [1, 2, 3, 4, 9]
    bws = [1, 8, 65] if tier == 'quick' else [1, 8, 33, 64, 65, 70]
    i = 0
    for (nr, nw), aw, bw in itertools.product(shapes, aws, bws):
        i += 1
        if tier == 'quick' and (i % 2) and bw > 8:
            continue
        d = {'fam': 'MEM', 'aw': aw, 'bw': bw, 'nr': nr, 'nw': nw, 'read_own_write': nr == 1}
        for be in BACKENDS:
            if be in ('synth', 'opt') and (bw > 8 or aw > 4):
                continue
            out.append(dict(d, k='step', backend=be))
            out.append(dict(d, k='bmc_uninit', backend=be, K=3 if nw == 1 else 2))
    out.append({'fam': 'MEM', 'aw': 2, 'bw': 4, 'nr': 1, 'nw': 1, 'enable': False, 'k': 'step', 'backend': 'sim'})
    out.append({'fam': 'MEM', 'aw': 2, 'bw': 4, 'nr': 1, 'nw': 1, 'enable': False, 'k': 'step', 'backend': 'fast'})
    for be in ('sim', 'fast'):
        out.append({'fam': 'MEM', 'aw': 2, 'bw': 3, 'nr': 1, 'nw': 1, 'k': 'two_sims', 'backend': be, 'K': 2})
        out.append({'fam': 'MEM', 'aw': 1, 'bw': 8, 'nr': 2, 'nw': 2, 'k': 'two_sims', 'backend': be, 'K': 2})
        out.append({'fam': 'MEM', 'aw': 2, 'bw': 3, 'nr': 1, 'nw': 1, 'k': 'two_sims', 'backend': be, 'K': 2, 'shared_map': True})
    for be in ('sim', 'fast', 'opt'):
        out.append({'fam': 'TWIN', 'k': 'twin', 'backend': be, 'K': 2})
    for aw, bw in ((4, 8), (4, 70), (4, 130), (33, 65)):
        out.append({'fam': 'HELPER', 'k': 'inspect_mem', 'aw': aw, 'bw': bw, 'backend': 'compiled'})
    for be in BACKENDS:
        out.append({'fam': 'MEM', 'aw': 2, 'bw': 4, 'nr': 1, 'nw': 1, 'const_ra': 2, 'k': 'bmc_uninit', 'backend': be, 'K': 3})
        out.append({'fam': 'MEM', 'aw': 2, 'bw': 4, 'nr': 1, 'nw': 1, 'const_ra': 0, 'k': 'step', 'backend': be})
        out.append({'fam': 'MEM', 'aw': 2, 'bw': 4, 'nr': 1, 'nw': 1, 'clear_port': True, 'k': 'bmc_uninit', 'backend': be, 'K': 3})
        out.append({'fam': 'MEM', 'aw': 2, 'bw': 4, 'nr': 1, 'nw': 1, 'clear_port': True, 'k': 'step', 'backend': be})
        for nw_ in (1, 2):
            out.append({'fam': 'MEM', 'aw': 2, 'bw': 4, 'nr': 1, 'nw': nw_, 'regdrive': True, 'k': 'bmc_uninit', 'backend': be, 'K': 3})
            out.append({'fam': 'MEM', 'aw': 2, 'bw': 4, 'nr': 1, 'nw': nw_, 'regdrive': True, 'k': 'step', 'backend': be})
    # a memory used as a table: read ports only, contents given at simulation time
    for be in BACKENDS:
        for nr_, bw_ in ((1, 4), (2, 3)):
            out.append({'fam': 'MEM', 'aw': 2, 'bw': bw_, 'nr': nr_, 'nw': 0, 'k': 'step', 'backend': be})
    for nwc in (1, 2, 3):
        for be in BACKENDS:
            out.append({'fam': 'MEM', 'aw': 2, 'bw': 3, 'nr': 1, 'nw': nwc, 'cond': True, 'k': 'step', 'backend': be})
    out.append({'fam': 'MEM', 'aw': 2, 'bw': 3, 'nr': 1, 'nw': 2, 'cond': True, 'k': 'bmc_uninit', 'backend': 'sim', 'K': 2})
    for ek in ('const0', 'const1'):
        for nw in (1, 2):
            for be in BACKENDS:
                out.append({'fam': 'MEM', 'aw': 2, 'bw': 3, 'nr': 1, 'nw': nw, 'enable': ek, 'k': 'step', 'backend': be})
    out.append({'fam': 'HELPER', 'k': 'chelper', 'limbs': 1, 'backend': 'compiled'})
    out.append({'fam': 'HELPER', 'k': 'chelper', 'limbs': 2, 'backend': 'compiled'})
    # sparse memories of up to 64 address bits are legal: the keys the helper stores are 64-bit
    out.append({'fam': 'HELPER', 'k': 'chelper', 'limbs': 1, 'backend': 'compiled', 'aw': 40})
    out.append({'fam': 'HELPER', 'k': 'chelper', 'limbs': 1, 'backend': 'compiled', 'aw': 64})
    out.append({'fam': 'HELPER', 'k': 'chelper', 'limbs': 2, 'backend': 'compiled', 'aw': 64})
    for data in ('list', 'short_list', 'dict', 'sparse_dict', 'func'):
        for pad in (False, True):
            for aw, bw in ((1, 3), (3, 5), (4, 70)):
                if data == 'func' and pad:
                    continue
                d = {'fam': 'ROM', 'aw': aw, 'bw': bw, 'data': data, 'pad': pad, 'nr': 1 + (aw % 2)}
                for be in ('sim', 'fast', 'compiled', 'synth', 'opt'):
                    out.append(dict(d, k='rom', backend=be))
                    if data in ('list', 'dict') and not pad:
                        out.append(dict(d, k='rom', backend=be, twin=True))
    return out


def site_of(c):
    return 'C08:%s:%s:%s' % (c['k'], c['backend'], c['fam'] if c['fam'] != 'ROM' else 'ROM:%s:pad=%s' % (c['data'], c.get('pad')))


def build_twin(d):
    """several memories and a ROM read through ONE address wire (and again through equal constant addresses): each read port
    belongs to its own memory"""
    ra, wa, wd, we = pyrtl.Input(2, 'ra'), pyrtl.Input(2, 'wa'), pyrtl.Input(3, 'wd'), pyrtl.Input(1, 'we')
    m1 = pyrtl.MemBlock(bitwidth=3, addrwidth=2, name='m1', asynchronous=True)
    m2 = pyrtl.MemBlock(bitwidth=3, addrwidth=2, name='m2', asynchronous=True)
    rom = pyrtl.RomBlock(bitwidth=3, addrwidth=2, romdata=[5, 1, 6, 2], name='rom', asynchronous=True)
    m1[wa] <<= pyrtl.MemBlock.EnabledWrite(wd, we)
    m2[wa] <<= pyrtl.MemBlock.EnabledWrite(~wd, we)
    for i, m in enumerate((m1, m2, rom)):
        o = pyrtl.Output(3, 'o%d' % i)
        o <<= m[ra]
        c = pyrtl.Output(3, 'c%d' % i)
        c <<= m[pyrtl.Const(2, bitwidth=2)]
    return pyrtl.working_block()


designs.register_family('TWIN', build_twin)


def run_twin(case, ob, site):
    """a design of several memories against the netlist semantics of the design AS BUILT (vf/spec.py), under each back end / pass"""
    from .. import spec
    block0 = designs.build(case)
    K = case['K']
    v = Vars()
    sp = spec.run(block0, K, v, reg_init='reset', mem_init='sym')
    names = sorted(w.name for w in block0.wirevector_subset(pyrtl.Output))
    widths = {w.name: w.bitwidth for w in block0.wirevector_subset(pyrtl.Output)}
    block = transformed(case, designs.build(case))
    be = case['backend']
    with sym_env([block]):
        rs = run_sim(block, K, v, kind='fast' if be == 'fast' else 'sim', reg_init='reset', mem_init='sym', track='io')
    ob.paths += len(rs)
    for r in rs:
        if r.exc is not None:
            ob.prove('no-exception', z3.Not(r.cond()), [], v, site=site + ':exception')
            continue
        goals = [('out:%s@%d' % (n, t), to_bv(r.trace[n][t], widths[n]) == sp.trace[n][t], site + ':read') for n in names for t in range(K)]
        for name, arr in r.mems.items():
            if name in sp.mems:
                goals.append(('mem:%s' % name, arr == sp.mems[name], site + ':contents'))
        ob.prove_all(goals, r.pc, v)


def transformed(case, block):
    be = case['backend']
    if be == 'synth':
        return pyrtl.synthesize(update_working_block=True, block=block)
    if be == 'opt':
        return pyrtl.optimize(block=block)
    return block


def array_oracle(case, v, arr, t):
    """expected read data and next array for one cycle (documented array semantics)"""
    aw, bw, nr, nw = case['aw'], case['bw'], case['nr'], case['nw']
    reads = {'rd%d' % i: z3.Select(arr, v.inp('ra%d' % i, t, aw)) for i in range(nr)}
    if case.get('read_own_write'):
        reads['rdw'] = z3.Select(arr, v.inp('wa0', t, aw))
    if case.get('const_ra') is not None:
        reads['rdc'] = z3.Select(arr, z3.BitVecVal(case['const_ra'], aw))
    new = arr
    ens = []
    if case.get('clear_port'):
        en = v.inp('clr', t, 1) == 1
        new = z3.If(en, z3.Store(new, v.inp('ca', t, aw), z3.BitVecVal(0, bw)), new)
        ens.append((en, v.inp('ca', t, aw)))
    for j in range(nw):
        ek = case.get('enable', True)
        if case.get('cond'):
            # branch j is active iff its predicate holds and no earlier one does; the write needs its own enable too
            en = z3.And(v.inp('p%d' % j, t, 1) == 1, v.inp('we%d' % j, t, 1) == 1, *[v.inp('p%d' % q, t, 1) == 0 for q in range(j)])
        elif ek in ('const0', 'const1') and j == 0:
            en = z3.BoolVal(ek == 'const1')
        elif case.get('regdrive'):
            # the port is driven by registers that hold the previous cycle's inputs (reset state 0: no write in cycle 0)
            if t == 0:
                continue
            en = v.inp('we%d' % j, t - 1, 1) == 1
            new = z3.If(en, z3.Store(new, v.inp('wa%d' % j, t - 1, aw), v.inp('wd%d' % j, t - 1, bw)), new)
            ens.append((en, v.inp('wa%d' % j, t - 1, aw)))
            continue
        else:
            en = v.inp('we%d' % j, t, 1) == 1 if ek else z3.BoolVal(True)
        new = z3.If(en, z3.Store(new, v.inp('wa%d' % j, t, aw), v.inp('wd%d' % j, t, bw)), new)
        ens.append((en, v.inp('wa%d' % j, t, aw)))
    distinct = [z3.Not(z3.And(e1, e2, a1 == a2)) for (e1, a1), (e2, a2) in itertools.combinations(ens, 2)]
    return reads, new, distinct


def run_mem(case, ob, site):
    block0 = designs.build(case)
    block = transformed(case, block0)
    be = case['backend']
    # the memory is state the caller sets and observes (memory_value_map, inspect_mem): a pass may not drop it while a read
    # port's data still reaches an Output
    if not ob.fact('memory-still-part-of-the-block-after-%s' % be, any(n.op in 'm@' and n.op_param[1].name == 'm' for n in block.logic),
                   site + ':memory-removed', detail='block after the pass: %s' % sorted(str(n) for n in block.logic)[:6]):
        return
    aw, bw = case['aw'], case['bw']
    v = Vars()
    bmc = case['k'] == 'bmc_uninit'
    K = case.get('K', 1)
    arr0 = z3.K(z3.BitVecSort(aw), z3.BitVecVal(0, bw)) if bmc else v.mem('m', aw, bw)
    assume = []
    arr = arr0
    expected = []
    for t in range(K):
        reads, arr, distinct = array_oracle(case, v, arr, t)
        expected.append(reads)
        assume += distinct
    if be == 'compiled':
        if not bmc:
            # arbitrary initial contents cannot be baked into C: BMC-1 from boundary contents instead (stated in ASSUMPTIONS)
            init = {0: (1 << bw) - 1, (1 << aw) - 1: 1}
            arr0 = z3.K(z3.BitVecSort(aw), z3.BitVecVal(0, bw))
            for a, x in init.items():
                arr0 = z3.Store(arr0, z3.BitVecVal(a, aw), z3.BitVecVal(x, bw))
            arr = arr0
            expected, assume = [], []
            for t in range(K):
                reads, arr, distinct = array_oracle(case, v, arr, t)
                expected.append(reads)
                assume += distinct
            cm = CompiledModel(block, memvals={'m': init})
        else:
            cm = CompiledModel(block)
        rs = run_compiled(cm, K, v, assumptions=assume)
    else:
        kind = 'fast' if be == 'fast' else 'sim'
        mem_init = 'default' if bmc else 'sym'
        with sym_env([block]):
            rs = run_sim(block, K, v, kind=kind, reg_init='reset', mem_init=mem_init, track='io', assumptions=assume)
    ob.paths += len(rs)
    for r in rs:
        if r.exc is not None:
            ob.prove('no-exception', z3.Not(r.cond()), assume, v, site=site + ':exception')
            continue
        goals = []
        for t in range(K):
            for name, exp in expected[t].items():
                goals.append(('read:%s@%d' % (name, t), to_bv(r.trace[name][t], bw + 1) == z3.ZeroExt(1, exp), site + ':read'))
        qa = z3.BitVec('qaddr', aw)
        final = r.mems['m']
        if be == 'compiled':
            arr64, limbs = final
            got = z3.Select(arr64, z3.ZeroExt(64 - aw, qa))
            goals.append(('contents-after-step[all addresses]', got == z3.ZeroExt(64 * limbs - bw, z3.Select(arr, qa)), site + ':contents'))
        else:
            goals.append(('contents-after-step[all addresses]', z3.Select(final, qa) == z3.Select(arr, qa), site + ':contents'))
        ob.prove_all(goals, assume + r.pc, v)


def run_rom(case, ob, site):
    block0 = designs.build(case)
    exp = rom_expected(case)
    holes = [a for a, x in exp.items() if x is None]
    be = case['backend']
    aw, bw = case['aw'], case['bw']
    try:
        block = transformed(case, block0)
    except pyrtl.PyrtlError as e:
        ob.fact('transform-raises-only-for-rom-with-holes', bool(holes), site + ':transform-raises', detail=repr(e))
        return
    v = Vars()
    if be == 'compiled':
        try:
            cm = CompiledModel(block)
        except pyrtl.PyrtlError as e:
            # the compiled back end reads the whole ROM at build time: a hole is reported then
            ob.fact('compiled-build-raises-only-for-rom-with-holes', bool(holes), site + ':build-raises', detail=repr(e))
            return
        rs = run_compiled(cm, 1, v)
    else:
        kind = 'fast' if be == 'fast' else 'sim'
        with sym_env([block]):
            rs = run_sim(block, 1, v, kind=kind, reg_init='reset', mem_init='default', track='io')
    ob.paths += len(rs)
    nr = case.get('nr', 1)
    hole_hit = z3.Or(*[v.inp('ra%d' % i, 0, aw) == a for i in range(nr) for a in holes]) if holes else z3.BoolVal(False)
    for r in rs:
        if r.exc is not None:
            if isinstance(r.exc, pyrtl.PyrtlError):
                ob.prove('PyrtlError-only-when-a-hole-is-read', hole_hit, r.pc, v, site=site + ':spurious-error')
            else:
                ob.prove('raises-only-PyrtlError(%s)' % type(r.exc).__name__, z3.Not(r.cond()), [], v, site=site + ':wrong-exception')
            continue
        goals = [('no-hole-read-goes-unreported', z3.Not(hole_hit), site + ':hole-not-reported')] if be != 'compiled' else []
        for i in range(nr):
            a = v.inp('ra%d' % i, 0, aw)
            e = z3.BitVecVal(0, bw)
            for addr in sorted(exp, reverse=True):
                if exp[addr] is not None:
                    e = z3.If(a == addr, z3.BitVecVal(exp[addr], bw), e)
            g = to_bv(r.trace['rd%d' % i][0], bw + 1) == z3.ZeroExt(1, e)
            if holes:
                g = z3.Implies(z3.Not(z3.Or(*[a == h for h in holes])), g)
            goals.append(('rom[a]==romdata[a]:port%d' % i, g, site + ':value'))
        if case.get('twin'):
            a = v.inp('ra0', 0, aw)
            e = z3.BitVecVal(0, bw)
            for addr, x in enumerate(twin_vals(case)):
                e = z3.If(a == addr, z3.BitVecVal(x, bw), e)
            goals.append(('second-rom-of-the-same-name[a]==its-own-romdata[a]', to_bv(r.trace['tw'][0], bw + 1) == z3.ZeroExt(1, e), site + ':value'))
        ob.prove_all(goals, r.pc, v)


def helper_design(limbs, aw=16):
    pyrtl.reset_working_block()
    bw = 8 if limbs == 1 else 70
    m = pyrtl.MemBlock(bitwidth=bw, addrwidth=aw, name='m', asynchronous=True)
    wa, wd, we, ra = pyrtl.Input(aw, 'wa'), pyrtl.Input(bw, 'wd'), pyrtl.Input(1, 'we'), pyrtl.Input(aw, 'ra')
    m[wa] <<= pyrtl.MemBlock.EnabledWrite(wd, we)
    o = pyrtl.Output(bw, 'rd')
    o <<= m[ra]
    return pyrtl.working_block(), bw


def run_chelper(case, ob, site):
    """the C hash-map helper text (insert/lookup) implements a map: BMC over three symbolic inserts and a symbolic lookup"""
    from .. import chelper
    block, bw = helper_design(case['limbs'], case.get('aw', 16))
    cm = CompiledModel(block)
    try:
        goal, assume, unwinding, hv = chelper.map_obligation(cm.text, case['limbs'], nins=3, unroll=4, valbits=bw, keybits=case.get('aw', 16))
    except chelper.CHelperError as e:
        raise sym.HarnessError('helper text outside the recognised subset: %s' % e)

    def extract(m):
        return {'keys': [m.eval(k, model_completion=True).as_long() for k in hv['keys']],
                'vals': [m.eval(x, model_completion=True).as_long() for x in hv['vals']],
                'qs': [m.eval(x, model_completion=True).as_long() for x in hv['qs']]}
    ob.prove('helper:lookups-interleaved-with-3-inserts==functional-map', goal, assume, None, site=site + ':map', extract=extract, vacuity=True)
    for i, u in enumerate(unwinding):
        ob.prove('helper:unwinding-assertion-%d' % i, z3.Not(u), assume, None, site=site + ':unwinding')
    ob.paths += 1


def run_case(case, ob, tier):
    site = site_of(case)
    if case['k'] == 'chelper':
        return run_chelper(case, ob, site)
    if case['k'] == 'rom':
        return run_rom(case, ob, site)
    if case['k'] == 'twin':
        return run_twin(case, ob, site)
    if case['k'] == 'inspect_mem':
        # the simulator's own view of the array (words wider than a limb, addresses past 2^31): harness shared with C02
        from . import c02
        return c02.run_inspect_mem(case, ob, 'C08:compiled:inspect_mem:aw=%d:bw=%d' % (case['aw'], case['bw']))
    if case['k'] == 'two_sims':
        # "else the initial content, else 0": a second simulator on the same MemBlock, created with default arguments, starts
        # from empty memories whatever an earlier simulator wrote (harness shared with C15)
        from . import c15
        return c15.do_two_sims(dict(case, sim=case['backend']), ob, site)
    return run_mem(case, ob, site)


def replay(cex):
    case = cex['case']
    if case['k'] == 'two_sims':
        from . import c15
        return c15.replay_two_sims(dict(case, sim=case['backend']), designs.build(case), cex.get('model', {}))
    if case['k'] == 'inspect_mem':
        from . import c02
        return c02.replay(cex)
    if case['k'] == 'twin':
        K = case['K']
        mv = cex.get('model', {})
        block = transformed(case, designs.build(case))
        trace, mems, _ = concrete.sim_concrete(block, K, mv, kind='fast' if case['backend'] == 'fast' else 'sim', reg_init='reset',
                                               mem_init='sym', track='io')
        etrace, emems = concrete.spec_concrete(designs.build(case), K, mv, reg_init='reset', mem_init='sym')
        bad = ['%s@%d: %r, the design as built gives %r' % (n, t, trace[n][t], etrace[n][t]) for n in sorted(trace) if n in etrace
               for t in range(K) if trace[n][t] != etrace[n][t]]
        return bool(bad), 'case=%r inputs=%r\n%s' % (case, mv, '\n'.join(bad[:8]))
    if case['k'] == 'chelper':
        block, bw = helper_design(case['limbs'], case.get('aw', 16))
        sim = pyrtl.CompiledSimulation(block=block)
        ref = {}
        mask = (1 << bw) - 1
        amask = (1 << case.get('aw', 16)) - 1
        bad = []
        # the history of the obligation: each step reads (lookup) and then writes (insert)
        steps = list(zip(cex['qs'], cex['keys'] + [None], cex['vals'] + [None]))
        for n, (q, k, x) in enumerate(steps):
            q &= amask
            if k is None:
                sim.step({'wa': 0, 'wd': 0, 'we': 0, 'ra': q})
            else:
                sim.step({'wa': k & amask, 'wd': x & mask, 'we': 1, 'ra': q})
            if sim.inspect('rd') != ref.get(q, 0):
                bad.append('step %d: after writing %r the read of address %d returns %d, expected %d'
                           % (n, ref, q, sim.inspect('rd'), ref.get(q, 0)))
            if k is not None:
                ref[k & amask] = x & mask
        for a in sorted(ref):
            sim.step({'wa': 0, 'wd': 0, 'we': 0, 'ra': a})
            if sim.inspect('rd') != ref.get(a, 0):
                bad.append('finally: read of address %d returns %d, expected %d' % (a, sim.inspect('rd'), ref.get(a, 0)))
        return bool(bad), '\n'.join(bad)
    block0 = designs.build(case)
    be = case['backend']
    mv = cex.get('model', {})
    try:
        block = transformed(case, block0)
    except Exception as e:
        return cex.get('structural', False), 'transform raised %r' % (e,)
    kind = {'fast': 'fast', 'compiled': 'compiled'}.get(be, 'sim')
    aw, bw = case['aw'], case['bw']
    if case['k'] == 'rom':
        exp = rom_expected(case)
        if cex.get('structural'):
            return True, 'structural fact failed: %s' % cex.get('detail')
        try:
            trace, mems, sim = concrete.sim_concrete(block, 1, mv, kind=kind, reg_init='reset', mem_init='default', track='io')
        except pyrtl.PyrtlError as e:
            hit = any(exp.get(mv['inputs'].get('ra%d' % i, {}).get('0', 0)) is None for i in range(case.get('nr', 1)))
            return not hit, 'PyrtlError %r; hole read: %r' % (e, hit)
        bad = []
        for i in range(case.get('nr', 1)):
            a = mv['inputs'].get('ra%d' % i, {}).get('0', 0)
            if exp[a] is None:
                bad.append('read of missing rom[%d] returned %r instead of raising PyrtlError' % (a, trace['rd%d' % i][0]))
            elif trace['rd%d' % i][0] != exp[a]:
                bad.append('rom[%d] = %r, romdata says %r' % (a, trace['rd%d' % i][0], exp[a]))
        if case.get('twin'):
            a = mv['inputs'].get('ra0', {}).get('0', 0)
            if trace['tw'][0] != twin_vals(case)[a]:
                bad.append('second ROM named rom: [%d] = %r, its romdata says %r' % (a, trace['tw'][0], twin_vals(case)[a]))
        return bool(bad), '\n'.join(bad)
    if cex.get('structural') and 'memory-still-part' in cex.get('obligation', ''):
        gone = not any(n.op in 'm@' and n.op_param[1].name == 'm' for n in block.logic)
        return gone, 'after %s the block no longer contains memory m: %s' % (be, sorted(str(n) for n in block.logic)[:6])
    K = case.get('K', 1)
    bmc = case['k'] == 'bmc_uninit'
    if be == 'compiled' and not bmc:
        mv = dict(mv, mems={'m': {'0': (1 << bw) - 1, str((1 << aw) - 1): 1}})
    init = {int(a): x for a, x in mv.get('mems', {}).get('m', {}).items()} if not bmc else {}
    trace, mems, sim = concrete.sim_concrete(block, K, mv, kind=kind, reg_init='reset', mem_init='default' if bmc else 'sym', track='io')
    arr = dict(init)
    bad = []

    def inp(n, t):
        x = mv.get('inputs', {}).get(n, {})
        return x.get(str(t), x.get(t, 0))
    for t in range(K):
        for i in range(case['nr']):
            e = arr.get(inp('ra%d' % i, t), 0)
            if trace['rd%d' % i][t] != e:
                bad.append('cycle %d: read port %d at %d returned %d, array holds %d' % (t, i, inp('ra%d' % i, t), trace['rd%d' % i][t], e))
        if case.get('const_ra') is not None and trace['rdc'][t] != arr.get(case['const_ra'], 0):
            bad.append('cycle %d: the constant-address read port (address %d) returned %d, array holds %d'
                       % (t, case['const_ra'], trace['rdc'][t], arr.get(case['const_ra'], 0)))
        if case.get('clear_port') and inp('clr', t):
            pending_clear = (inp('ca', t), 0)
        else:
            pending_clear = None
        if case.get('read_own_write') and trace['rdw'][t] != arr.get(inp('wa0', t), 0):
            bad.append('cycle %d: read at the write address returned %d, array holds %d (write must take effect at the END of the cycle)'
                       % (t, trace['rdw'][t], arr.get(inp('wa0', t), 0)))
        for j in range(case['nw']):
            ek = case.get('enable', True)
            if case.get('regdrive'):
                if t > 0 and inp('we%d' % j, t - 1):
                    arr[inp('wa%d' % j, t - 1)] = inp('wd%d' % j, t - 1)
            elif case.get('cond'):
                if inp('p%d' % j, t) and inp('we%d' % j, t) and not any(inp('p%d' % q, t) for q in range(j)):
                    arr[inp('wa%d' % j, t)] = inp('wd%d' % j, t)
            elif (ek == 'const1' and j == 0) or (not (ek in ('const0', 'const1') and j == 0) and (not ek or inp('we%d' % j, t))):
                arr[inp('wa%d' % j, t)] = inp('wd%d' % j, t)
        if pending_clear is not None:
            arr[pending_clear[0]] = 0
    got = mems.get('m', {})
    for a in range(min(1 << aw, 1024)):
        try:
            g = got[a] if not isinstance(got, dict) else got.get(a, init.get(a, 0))
        except Exception:
            g = None
        if g != arr.get(a, 0):
            bad.append('final contents m[%d] = %r, array semantics gives %d' % (a, g, arr.get(a, 0)))
    return bool(bad), 'case=%r\ninputs=%r\n%s' % (case, mv, '\n'.join(bad[:10]))
