"""C02 — FastSimulation and CompiledSimulation are observably identical to Simulation.

Real code run symbolically: Simulation (reference), FastSimulation.__init__/_initialize/_compiled/step and the GENERATED
sim_func (through the compile hook), CompiledSimulation.__init__/_create_code/_build_* (real, gcc build included), the
generated C (vf/ctrans.py) and the real run() over list-backed buffers. Same solver variables for all three."""
import json
import z3
import pyrtl
from .. import designs, simdrv, sym, concrete
from ..simdrv import Vars, run_sim, sym_env, CompiledModel, run_compiled
from ..sym import SymMem, SymInt, to_bv
from . import c04
from . import c08 as _c08    # noqa: F401  (registers the MEM / ROM design families)
from . import c15 as _c15    # noqa: F401  (registers the PROBE design family)

PROP = 'C02'
LEVEL = 'translation_validation'
ASSUMPTIONS = [
    'FastSimulation: register and memory contents start as solver variables (same as Simulation)',
    'CompiledSimulation bakes initial state into the C text (hex()): initial registers/memory words are concrete boundary values '
    '(0 / 1 / all-ones / alternating), the other simulators start from the same values; later state is symbolic through the inputs',
    'sanctioned difference: memories compare under default_value = 0 for CompiledSimulation',
    'the C hash-map helper text (insert/lookup) is modelled as a total map in the design-level obligations and checked on its own against a '
    'functional map by vf/chelper.py (a lookup before and after each of three symbolic inserts, pointer-accurate value storage, unwinding assertions); gcc and the mul128 inline asm are '
    'trusted (exact 64x64->128 product); products wider than 4x4 bits are abstracted on BOTH sides over one uninterpreted '
    'mul64 with the range fact mul64(x,y) <= (2^|x|-1)(2^|y|-1)',
    'two enabled writes to one address in a cycle excluded (undefined)',
    'stubs: bin/len/int/compile in pyrtl.simulation; ctypes/int in pyrtl.compilesim; merge points of vf/simdrv.py',
]
TIMEOUT_MS = {'quick': 90000, 'thorough': 300000}
LIMB_W = [1, 8, 31, 32, 33, 63, 64, 65, 127, 128, 129]
FORMS = ['pre', 'synth', 'synth_unmerged', 'opt']


def bounds(tier):
    return {'OP widths': [1, 8, 63, 64, 65, 128, 129] if tier == 'quick' else LIMB_W, 'forms': FORMS, 'K': 3 if tier == 'quick' else 5,
            'EXPR designs': 20 if tier == 'quick' else 200, 'wide EXPR (maxw 70)': 10 if tier == 'quick' else 80,
            'compiled initial states': ['zero', 'ones', 'alt']}


def wide_concat_select_cases(tier):
    out = []
    # pieces that straddle limb boundaries in general position
    for ws in ([63, 1, 1], [1, 63, 1], [60, 10], [10, 60], [64, 1], [1, 64], [65, 65], [30, 40, 50], [127, 2], [3, 61, 64, 5], [33, 33, 33, 33]):
        tot = sum(ws)
        for wd in sorted({tot, tot - 1, max(1, tot - 64)}):
            out.append({'fam': 'OP', 'op': 'c', 'wa': ws[0], 'ws': ws, 'wd': wd})
    for wa in (65, 70, 129):
        for idx in (list(range(wa)), list(range(wa - 1, -1, -1)), list(range(60, min(wa, 70))), [63, 64, 0, wa - 1], list(range(0, wa, 3)),
                    [wa - 1] * 66):
            out.append({'fam': 'OP', 'op': 's', 'wa': wa, 'idx': idx, 'wd': len(idx)})
    return out


def cases(tier, seed):
    out = []
    K = 3 if tier == 'quick' else 5
    W = [1, 8, 63, 64, 65, 128, 129] if tier == 'quick' else LIMB_W
    base = designs.op_cases(W, ops='w~&|^n+-<>=x', mul_max=0)
    base += [c for c in designs.op_cases([1, 4, 8, 32, 33, 64, 65, 70] + ([128] if tier != 'quick' else []), ops='*', mul_max=200)]
    base += wide_concat_select_cases(tier)
    base += designs.op_cases([1, 3, 4], ops='m') + [{'fam': 'OP', 'op': 'm', 'wa': 4, 'wd': w} for w in (33, 64, 65, 70)]
    base += designs.op_cases([1, 64, 65], ops='w+-', dests=('reg',))
    base += [dict(c, reset=(1 << c['wd']) - 1) for c in designs.op_cases([8, 65], ops='w', dests=('reg',))]
    base += designs.seq_cases(widths=(1, 4, 64, 65, 70) if tier != 'quick' else (1, 65))
    base += designs.expr_cases(20 if tier == 'quick' else 200, seed, n=7, maxw=8)
    base += designs.expr_cases(10 if tier == 'quick' else 80, seed + 9, n=6, maxw=70)
    base += designs.misc_cases() + designs.carg_cases((3,)) + [c for c in designs.carg_cases((65,)) if c['op'] != '*']
    for i, c in enumerate(base):
        wide = c['fam'] == 'OP' and c.get('wa', 0) > 8 or c.get('maxw', 0) > 8 or c.get('w', 0) > 8
        forms = ['pre']
        if not wide:
            forms = ['pre', FORMS[1 + i % 3]] if tier == 'quick' else FORMS
        Kc = 2 if (c.get('kind') == 'mem_2w' and c.get('w', 0) > 8) else K     # two write ports x wide words: keep the array queries small
        for f in forms:
            out.append(dict(c, K=Kc, form=f, sim='fast'))
            out.append(dict(c, K=Kc, form=f, sim='compiled', init=['zero', 'ones', 'alt'][i % 3]))
    for i, nm in enumerate(FSNAMES):
        for role in (('wire', 'reg', 'memrd') if tier != 'quick' else (('wire', 'reg', 'memrd')[i % 3],)):
            out.append({'fam': 'FSNAMES', 'name': nm, 'role': role, 'K': 2, 'form': 'pre', 'sim': 'fast'})
            out.append({'fam': 'FSNAMES', 'name': nm, 'role': role, 'K': 2, 'form': 'pre', 'sim': 'compiled', 'init': 'zero'})
    out.append({'fam': 'FSNAMES', 'name': 'lut', 'role': 'roms', 'K': 2, 'form': 'pre', 'sim': 'fast'})
    out.append({'fam': 'FSNAMES', 'name': 'lut', 'role': 'roms', 'K': 2, 'form': 'pre', 'sim': 'compiled', 'init': 'zero'})
    for kind_ in ('plain', 'direct'):
        out.append({'fam': 'PROBE', 'kind': kind_, 'K': 3, 'form': 'pre', 'sim': 'compiled', 'init': 'alt', 'track': 'named'})
        out.append({'fam': 'PROBE', 'kind': kind_, 'K': 3, 'form': 'pre', 'sim': 'fast'})
    # initial-state rules under a non-zero default_value: explicit zeros (reset_value=0, a 0 in register_value_map) must win
    regd = [dict(c, reset=r) for c in designs.op_cases([1, 3, 65], ops='w+', dests=('reg',)) for r in (None, 0, 1)]
    regd += designs.seq_cases(widths=(3,)) + designs.expr_cases(6 if tier == 'quick' else 30, seed + 77, n=5, maxw=5, nreg=2)
    # memories narrower than the default value (no registers): every simulator reads the default reduced to the word width
    regd += designs.op_cases([1, 2], ops='m') + [{'fam': 'MEM', 'aw': 2, 'bw': 2, 'nr': 2, 'nw': 1}]
    for c in regd:
        for dv in (1, 5):
            for rmap in ('none', 'zeros'):
                out.append(dict(c, K=2, form='pre', sim='fast', dv=dv, rmap=rmap))
                if c.get('fam') == 'OP' and c.get('op') == 'w' and dv == 1:
                    out.append(dict(c, K=2, form='pre', sim='compiled', init='zero', dv=dv, rmap=rmap))
    # the memory model of the C back end rests on its hash-map helper text: checked by vf/chelper.py
    out.append({'fam': 'HELPER', 'k': 'chelper', 'limbs': 1, 'backend': 'compiled'})
    out.append({'fam': 'HELPER', 'k': 'chelper', 'limbs': 2, 'backend': 'compiled'})
    out.append({'fam': 'HELPER', 'k': 'chelper', 'limbs': 1, 'backend': 'compiled', 'aw': 64})
    out.append({'fam': 'HELPER', 'k': 'chelper', 'limbs': 2, 'backend': 'compiled', 'aw': 40})
    # CompiledSimulation.run([step0, step1, ...]) in one call (input and output buffers of different sizes)
    for c in designs.op_cases([3, 65], ops='+<c', mul_max=0) + designs.seq_cases(widths=(3,))[:3]:
        out.append(dict(c, k='run_many', K=3, sim='compiled', form='pre'))
    # "leave the same memory contents": CompiledSimulation shows them through inspect_mem(), which calls the C lookup via ctypes
    for aw in (4, 31, 32, 33, 64):
        for bw in (8, 70):
            out.append({'fam': 'HELPER', 'k': 'inspect_mem', 'aw': aw, 'bw': bw, 'backend': 'compiled'})
    return out


FSNAMES = ['d', 'regs', 'outs', 'mem_ws', 'ins', 'fs_mem0', 'a"b', 'a\\b', 'a\nb', "a'b", 'lambda', 'class', '_fastsim_tmp_0',
           'uint64_t', 'main', 'tmp', 'x%s', '{x}', 'w0_a', 'insert', 'lookup', 'sim_run_all', 'int', 'len', 'min', 'sim_func', 'True']


def build_fsnames(d):
    """an internal wire, a register and a memory-port wire carry the given name in turn (names of locals of generated code,
    keywords, quotes and backslashes, C identifiers the generated C uses itself)"""
    nm, role = d['name'], d['role']
    a, c = pyrtl.Input(3, 'a'), pyrtl.Input(3, 'b')
    if role == 'roms':
        # memory names need not be unique: ROMs of one name and shape with different contents (a lookup helper that names its
        # ROM, instantiated twice), and one of another shape
        r1 = pyrtl.RomBlock(3, 2, [1, 2, 3, 4], name=nm, asynchronous=True)
        r2 = pyrtl.RomBlock(3, 2, [7, 5, 0, 6], name=nm, asynchronous=True)
        r3 = pyrtl.RomBlock(3, 3, [2, 2, 6, 1, 0, 7, 3, 5], name=nm, asynchronous=True)
        o = pyrtl.Output(3, 'o')
        o <<= r1[a[0:2]] ^ r2[a[0:2]] ^ r3[c]
        o2 = pyrtl.Output(3, 'o2')
        o2 <<= r2[c[0:2]]
        return pyrtl.working_block()
    w = pyrtl.WireVector(3, nm if role == 'wire' else 'w')
    w <<= (a + c)[0:3]
    r = pyrtl.Register(3, nm if role == 'reg' else 'r')
    r.next <<= w ^ a
    m = pyrtl.MemBlock(bitwidth=3, addrwidth=2, name='m', asynchronous=True)
    rd = pyrtl.WireVector(3, nm if role == 'memrd' else 'rd')
    rd <<= m[a[0:2]]
    m[c[0:2]] <<= pyrtl.MemBlock.EnabledWrite(w, c[2])
    o = pyrtl.Output(4, 'o')
    o <<= (rd + r) ^ (a < c)      # a comparison: the generated Python calls int(...) for it
    return pyrtl.working_block()


designs.register_family('FSNAMES', build_fsnames)


def prep(case):
    blk = designs.build(case)
    f = case['form']
    if f == 'pre':
        return blk
    if f == 'synth':
        return pyrtl.synthesize(update_working_block=True, block=blk)
    if f == 'synth_unmerged':
        return pyrtl.synthesize(update_working_block=True, merge_io_vectors=False, block=blk)
    if f == 'opt':
        return pyrtl.optimize(block=blk)
    raise ValueError(f)


def init_values(case, block):
    """concrete initial register / memory contents for the compiled back end (boundary values, deterministic)"""
    kind = case.get('init', 'zero')
    regs, mems = {}, {}
    for r in block.wirevector_subset(pyrtl.Register):
        m = r.bitmask
        regs[r.name] = {'zero': 0, 'ones': m, 'alt': 0xAAAAAAAAAAAAAAAAAAAAAAAAAAAAAAAAAAAAA & m}[kind]
    for mid, mem in simdrv.mems_of(block).items():
        m = (1 << mem.bitwidth) - 1
        n = 1 << mem.addrwidth
        if kind == 'zero':
            mems[mem.name] = {}
        elif kind == 'ones':
            mems[mem.name] = {0: m, n - 1: m}
        else:
            mems[mem.name] = {a: (0x5555555555555555555555555 * (a + 1)) & m for a in range(min(n, 3))}
    return regs, mems


def site_of(case):
    d = c04.site_of(dict(case, pas='x', base='x')).split(':', 2)[2]
    wide = ':wide' if (case.get('wa', 0) > 64 or case.get('w', 0) > 64 or case.get('maxw', 0) > 64) else ''
    return 'C02:%s(%s):%s%s' % (case['sim'], case['form'], d, wide)


def uses_wide_mul(block):
    return any(n.op == '*' and n.args[0].bitwidth > 4 for n in block.logic)


def run_case(case, ob, tier):
    if case.get('k') == 'chelper':
        from . import c08
        return c08.run_chelper(case, ob, 'C02:compiled:hash-map-helper')
    if case.get('k') == 'inspect_mem':
        return run_inspect_mem(case, ob, 'C02:compiled:inspect_mem:aw=%d' % case['aw'])
    if case.get('k') == 'run_many':
        from . import c15
        return c15.do_run_many(case, ob, 'C02:compiled:run(list):' + site_of(case).split(':', 2)[2])
    # every enabled write port doubles the explored paths per cycle: when the budget is exceeded the same design is decided for
    # fewer cycles (noted in the evidence) instead of not at all
    for K in [case['K']] + [k_ for k_ in (3, 2) if k_ < case['K']]:
        try:
            return _run_case(dict(case, K=K), ob, tier)
        except sym.HarnessError as e:
            if 'path budget' not in str(e) or K == 2:
                raise
            ob.notes.append('path budget exceeded at K=%d: decided for fewer cycles' % K)
            ob.n, ob.unsat, ob.sat, ob.unknown = 0, 0, [], []


def inspect_design(case):
    pyrtl.reset_working_block()
    aw, bw = case['aw'], case['bw']
    m = pyrtl.MemBlock(bitwidth=bw, addrwidth=aw, name='m', asynchronous=True)
    wa, wd, we, ra = pyrtl.Input(aw, 'wa'), pyrtl.Input(bw, 'wd'), pyrtl.Input(1, 'we'), pyrtl.Input(aw, 'ra')
    m[wa] <<= pyrtl.MemBlock.EnabledWrite(wd, we)
    o = pyrtl.Output(bw, 'rd')
    o <<= m[ra]
    return pyrtl.working_block(), m


def ctypes_key(fn, ind_bv):
    """the 64-bit key the C function receives for a Python int passed as its 2nd argument, by the ctypes rules: without
    argtypes an int goes as a C int (masked to 32 bits; widened with its sign in the 64-bit argument register the callee
    reads as uint64_t); with argtypes it is converted to the declared type"""
    import ctypes
    at = getattr(fn, 'argtypes', None)
    if not at or len(at) < 2:
        return z3.SignExt(32, z3.Extract(31, 0, ind_bv)), 'no argtypes: C int'
    ty = at[1]
    nbits = 8 * ctypes.sizeof(ty)
    signed = ty(-1).value < 0
    low = z3.Extract(nbits - 1, 0, ind_bv) if nbits < 64 else ind_bv
    if nbits == 64:
        return low, ty.__name__
    return (z3.SignExt if signed else z3.ZeroExt)(64 - nbits, low), ty.__name__


def run_inspect_mem(case, ob, site):
    """the real DllMemInspector.__getitem__ on a symbolic index over an arbitrary memory state; ctypes is a stub (above)"""
    from pyrtl import compilesim
    block, mem = inspect_design(case)
    sim = pyrtl.CompiledSimulation(block=block)
    insp = sim.inspect_mem(mem)
    limbs = sim._limbs(mem)
    W = 64 * limbs
    A = z3.Array('cmem', z3.BitVecSort(64), z3.BitVecSort(W))       # what the C hash map holds (any history)
    ind = z3.BitVec('ind', 64)
    assume = [z3.ULT(ind, z3.BitVecVal(1 << case['aw'], 65 if case['aw'] == 64 else 64))] if case['aw'] < 64 else []
    key, how = ctypes_key(sim._mem_lookup, ind)

    class Limbs(object):
        def __getitem__(self_, n):
            return SymInt(z3.ZeroExt(W + 64 - 64, z3.Extract(64 * n + 63, 64 * n, z3.Select(A, key))), False)

    class FakeSim(object):
        def _mem_lookup(self_, memptr, i):
            return Limbs()
    real_sim = insp._sim
    insp._sim = FakeSim()
    try:
        paths = sym.explore(lambda: insp[SymInt(ind, False)], assumptions=assume)
    finally:
        insp._sim = real_sim
    ob.paths += len(paths)
    ob.notes.append('ctypes stub: lookup receives its key as %s' % how)
    for p_ in paths:
        if p_.exc is not None:
            ob.fact('inspect_mem-index-accepted', False, site + ':raises', detail=repr(p_.exc))
            continue
        got = sym.to_bv(p_.result, W + 64)
        want = z3.ZeroExt(64, z3.Select(A, ind))        # the generated C keys its reads/writes by the address limb itself

        def extract(m):
            return {'ind': m.eval(ind, model_completion=True).as_long()}
        ob.prove('inspect_mem[i]==word-the-simulation-holds-at-i', got == want, assume + p_.pc, None, site=site + ':value',
                 extract=extract, vacuity=True)


def _run_case(case, ob, tier):
    site = site_of(case)
    block = prep(case)
    K = case['K']
    v = Vars()
    from .. import spec
    sym.MUL['uf'] = uses_wide_mul(block)
    sym.MUL['exact_max'] = 4
    sym.UF_FACTS.clear()
    try:
        dv = case.get('dv', 0)
        if dv and any(dv > r.bitmask for r in block.wirevector_subset(pyrtl.Register)):
            ob.notes.append('default_value not representable in some register: outside the legal initial assignments, skipped')
            ob.fact('skipped', True)
        elif dv and case['sim'] == 'fast' and any(dv >> m_.bitwidth for m_ in simdrv.mems_of(block).values()):
            # a default wider than a memory word cannot be stored in the symbolic memory (its words have the memory's width):
            # a plain-int witness run instead (inputs 0 and all-ones, the real dicts) - a bounded witness check, named as such
            for pat in (0, 1):
                mvw = {'inputs': {w_.name: {str(t): (w_.bitmask if pat else 0) for t in range(K)} for w_ in block.wirevector_subset(pyrtl.Input)}}
                kw = dict(reg_init='reset', mem_init='default', default_value=dv, track='io')
                ta, _, _ = concrete.sim_concrete(block, K, mvw, kind='sim', **kw)
                tb, _, _ = concrete.sim_concrete(block, K, mvw, kind='fast', **kw)
                diff = ['%s@%d: Simulation=%r FastSimulation=%r' % (n_, t, ta[n_][t], tb[n_][t]) for n_ in ta if n_ in tb for t in range(K)
                        if ta[n_][t] != tb[n_][t]]
                ob.fact('plain-int-witness:default-wider-than-memory-word:inputs-%s' % ('ones' if pat else 'zeros'), not diff,
                        site + ':default_value:narrow-memory', detail=diff[:4])
        elif dv:
            # initial-state rules: register_value_map absent ('none') or holding explicit zeros, non-zero default_value
            rinit = 'reset' if case['rmap'] == 'none' else {r.name: 0 for r in block.wirevector_subset(pyrtl.Register)}
            sp = spec.run(block, K, v, reg_init=rinit, mem_init='default', default_value=dv)
            assume = [z3.Not(d) for d in sp.double_write]
            with sym_env([block]):
                ra = run_sim(block, K, v, kind='sim', reg_init=rinit, mem_init='default', default_value=dv, track='io', assumptions=assume)
            if case['sim'] == 'fast':
                with sym_env([block]):
                    rb = run_sim(block, K, v, kind='fast', reg_init=rinit, mem_init='default', default_value=dv, track='io',
                                 assumptions=assume)
                compare(ob, block, ra, rb, assume, v, site + ':default_value', K, all_wires=False)
            else:
                cm = CompiledModel(block, regvals=None if rinit == 'reset' else rinit, memvals=None, default_value=dv)
                rb = run_compiled(cm, K, v, assumptions=assume)
                compare(ob, block, ra, rb, assume, v, site + ':default_value', K, all_wires=False, compiled=True, mems=False)
        elif case['sim'] == 'fast':
            sp = spec.run(block, K, v, reg_init='sym', mem_init='sym')
            assume = [z3.Not(d) for d in sp.double_write]
            with sym_env([block]):
                ra = run_sim(block, K, v, kind='sim', reg_init='sym', mem_init='sym', track='all', assumptions=assume)
                rb = run_sim(block, K, v, kind='fast', reg_init='sym', mem_init='sym', track='all', assumptions=assume)
            compare(ob, block, ra, rb, assume, v, site, K, all_wires=True)
        else:
            regs, mems = init_values(case, block)
            # the no-double-write precondition is evaluated for the ACTUAL initial contents (enables may depend on reads)
            sp = spec.run(block, K, v, reg_init=regs, mem_init={
                mem.name: SymMem.from_dict(mems.get(mem.name, {}), 0, mem.addrwidth, mem.bitwidth) for mem in simdrv.mems_of(block).values()})
            assume = [z3.Not(d) for d in sp.double_write]
            tracked = None
            if case.get('track') == 'named':
                # the caller also asks for the named registers: the compiled simulator reports those it can (probes) and drops
                # the others; what it reports must be the wire's own value
                tracked = sorted(block.wirevector_subset((pyrtl.Input, pyrtl.Output, pyrtl.Register)), key=lambda w: w.name)
            try:
                cm = CompiledModel(block, regvals=regs, memvals=mems, tracked=tracked)
            except pyrtl.PyrtlError as e:
                # the same register_value_map / memory_value_map (keyed as Simulation documents) that Simulation accepts below
                with sym_env([block]):
                    run_sim(block, 1, v, kind='sim', reg_init=regs, mem_init={
                        mem.name: SymMem.from_dict(mems.get(mem.name, {}), 0, mem.addrwidth, mem.bitwidth)
                        for mem in simdrv.mems_of(block).values()}, track='io', assumptions=assume)
                ob.fact('CompiledSimulation-accepts-the-initial-state-Simulation-accepts', False, site + ':refused', detail=str(e))
                return
            rb = run_compiled(cm, K, v, assumptions=assume)
            nval, bad = simdrv.validate_compiled_model(cm, K, v, rb, salt=len(json.dumps(case, sort_keys=True)))
            if bad:
                raise sym.HarnessError('vf/ctrans.py disagrees with the real compiled library: %s' % bad[:3])
            ob.translator_checked = getattr(ob, 'translator_checked', 0) + nval
            if nval:
                ob.notes.append('ctrans model == real gcc-built library on one concrete input sequence per compiled case')
            meminit = {mem.name: SymMem.from_dict(mems.get(mem.name, {}), 0, mem.addrwidth, mem.bitwidth)
                       for mem in simdrv.mems_of(block).values()}
            with sym_env([block]):
                ra = run_sim(block, K, v, kind='sim', reg_init=regs, mem_init=meminit, track=tracked or 'io', assumptions=assume)
            compare(ob, block, ra, rb, assume + list(sym.UF_FACTS), v, site, K, all_wires=False, compiled=True)
    finally:
        sym.MUL['uf'] = False
        sym.MUL['exact_max'] = 8


def compare(ob, block, ra, rb, assume, v, site, K, all_wires, compiled=False, mems=True):
    ob.paths += len(ra) + len(rb)
    for pa in ra:
        for pb in rb:
            pcs = assume + pa.pc + pb.pc
            if pa.exc is not None or pb.exc is not None:
                # both raise or neither, on compatible paths
                if (pa.exc is None) != (pb.exc is None):
                    ob.prove('same-exception-behaviour', z3.Not(z3.And(pa.cond(), pb.cond())), assume, v, site=site + ':exception')
                continue
            goals = []
            order = {w: i for i, w in enumerate(wire_order(block))}
            for name in sorted(pa.trace, key=lambda n_: (order.get(n_, 1 << 30), n_)):
                if name not in pb.trace:
                    if all_wires:
                        ob.fact('wire-traced-by-both:%s' % name, False, site + ':trace-shape')
                    continue
                w = block.wirevector_by_name[name]
                if len(pa.trace[name]) != K or len(pb.trace[name]) != K:
                    ob.fact('trace-length:%s' % name, False, site + ':trace-length')
                    continue
                if not all(isinstance(x, (int, SymInt, sym.SymBool)) for x in pb.trace[name]):
                    ob.fact('traced-value-is-a-number:%s' % name, False, site + ':value-type',
                            detail='%s traces %r' % (name, [type(x).__name__ for x in pb.trace[name]]))
                    continue
                for t in range(K):
                    goals.append(('wire:%s@%d' % (name, t), to_bv(pa.trace[name][t], w.bitwidth + 1) == to_bv(pb.trace[name][t], w.bitwidth + 1),
                                  site + ':value'))
            for mid, mem in (simdrv.mems_of(block).items() if mems else ()):
                if compiled:
                    arr64, limbs = pb.mems[mem.name]
                    qa = z3.BitVec('qaddr_%s' % mem.name, mem.addrwidth)
                    word = z3.Select(arr64, z3.ZeroExt(64 - mem.addrwidth, qa))
                    goals.append(('mem:%s[all addresses]' % mem.name, word == z3.ZeroExt(64 * limbs - mem.bitwidth, z3.Select(pa.mems[mem.name], qa)),
                                  site + ':mem'))
                else:
                    qa = z3.BitVec('qaddr_%s' % mem.name, mem.addrwidth)     # fresh address: equality at every address
                    goals.append(('mem:%s[all addresses]' % mem.name,
                                  z3.Select(pa.mems[mem.name], qa) == z3.Select(pb.mems[mem.name], qa), site + ':mem'))
            if compiled and pb.extra and pb.extra['ub']:
                goals.append(('no-undefined-behaviour-in-generated-C', z3.Not(z3.Or(*pb.extra['ub'])), site + ':undefined-behaviour'))
            # cycle-major, dependency order within a cycle: proved equalities become lemmas for later wires
            goals.sort(key=lambda g: (int(g[0].rsplit('@', 1)[1]) if '@' in g[0] and g[0].rsplit('@', 1)[1].isdigit() else 1 << 20))
            ob.prove_chain(goals, pcs, v)


def wire_order(block):
    from .. import spec
    names = [w.name for w in block.wirevector_set if isinstance(w, (pyrtl.Input, pyrtl.Const, pyrtl.Register))]
    for net in spec.topo(block):
        names.append(net.dests[0].name)
    return names


def replay(cex):
    case = cex['case']
    if case.get('k') == 'chelper':
        from . import c08
        return c08.replay(cex)
    if case.get('k') == 'run_many':
        from . import c15
        return c15.replay(dict(cex, case=dict(case, k='run_many')))
    if case.get('k') == 'inspect_mem':
        # write a non-zero word at the index through the simulation, read it back through inspect_mem and through a read port
        block, mem = inspect_design(case)
        ind = cex['ind'] & ((1 << case['aw']) - 1)
        bad = []
        for sim in (pyrtl.CompiledSimulation(block=block), pyrtl.Simulation(block=block)):
            word = 5 | ((1 << (case['bw'] - 1)) if case['bw'] > 8 else 0)       # bits in the lowest and in the highest limb
            sim.step({'wa': ind, 'wd': word, 'we': 1, 'ra': 0})
            sim.step({'wa': 0, 'wd': 0, 'we': 0, 'ra': ind})
            got = sim.inspect_mem(mem)[ind] if isinstance(sim, pyrtl.CompiledSimulation) else sim.inspect_mem(mem).get(ind, 0)
            if got != word or sim.inspect('rd') != word:
                bad.append('%s: after writing %#x to address %d inspect_mem shows %r, the read port %r' % (type(sim).__name__, word, ind, got, sim.inspect('rd')))
        return bool(bad), '\n'.join(bad)
    block = prep(case)
    K = case['K']
    mv = cex.get('model', {})
    if uses_wide_mul(block) and not cex.get('_pattern'):
        # products wider than 4x4 bits are uninterpreted in the query: the model's operand values need not be the ones whose
        # REAL product exposes the disagreement. The counterexample is confirmed by the real simulators on the model's inputs
        # or on boundary operand patterns (all ones, top bit, alternating bits), whichever shows it first.
        first = replay(dict(cex, _pattern='model'))
        if first[0]:
            return first
        ins = sorted(block.wirevector_subset(pyrtl.Input), key=lambda w: w.name)
        pats = [lambda w, t: w.bitmask, lambda w, t: 1 << (w.bitwidth - 1), lambda w, t: 0xAAAAAAAAAAAAAAAAAAAAAAAAAAAAAAAAAAAAAAAAAAAAAAAAAA & w.bitmask,
                lambda w, t: (w.bitmask >> 1) if t % 2 else w.bitmask, lambda w, t: w.bitmask ^ (1 << 64) if w.bitwidth > 64 else w.bitmask - 1]
        for n, pat in enumerate(pats):
            mv2 = dict(mv, inputs={w.name: {str(t): pat(w, t) for t in range(K)} for w in ins})
            res = replay(dict(cex, model=mv2, _pattern='p%d' % n))
            if res[0]:
                return res[0], 'reproduced on a boundary operand pattern (the query abstracts wide products):\n' + res[1]
        return first
    if case['sim'] == 'compiled':
        regs, mems = init_values(case, block)
        mv = dict(mv, regs=regs, mems={k: {str(a): x for a, x in d.items()} for k, d in mems.items()})
    track = 'all' if case['sim'] == 'fast' else ('named' if case.get('track') == 'named' else 'io')
    kw = dict(reg_init='sym', mem_init='sym', track=track)
    if case.get('dv'):
        mv = dict(mv, regs={r.name: 0 for r in block.wirevector_subset(pyrtl.Register)}, mems={})
        kw = dict(reg_init='reset' if case['rmap'] == 'none' else 'sym', mem_init='default', default_value=case['dv'], track='io')
    try:
        ta, ma, _ = concrete.sim_concrete(block, K, mv, kind='sim', **kw)
    except Exception as e:
        ta, ma = e, None
    try:
        tb, mb, simb = concrete.sim_concrete(block, K, mv, kind=case['sim'], **kw)
    except Exception as e:
        tb, mb = e, None
    if isinstance(ta, Exception) or isinstance(tb, Exception):
        differs = isinstance(ta, Exception) != isinstance(tb, Exception)
        return differs, 'Simulation: %r / %s: %r' % (ta if isinstance(ta, Exception) else 'ok', case['sim'], tb if isinstance(tb, Exception) else 'ok')
    diffs = []
    for name in ta:
        if name in tb:
            for t in range(K):
                if ta[name][t] != tb[name][t]:
                    diffs.append('%s@%d: Simulation=%r %s=%r' % (name, t, ta[name][t], case['sim'], tb[name][t]))
    for name, d in ma.items():
        other = mb.get(name, {})
        init = mv.get('mems', {}).get(name, {})
        n = min(1 << block.get_memblock_by_name(name).addrwidth, 4096) if hasattr(block, 'get_memblock_by_name') else 16
        for a in range(n):
            x = d.get(a, init.get(str(a), 0))
            try:
                y = other[a] if not isinstance(other, dict) else other.get(a, init.get(str(a), 0))
            except Exception:
                y = None
            if x != y:
                diffs.append('mem %s[%d]: Simulation=%r %s=%r' % (name, a, x, case['sim'], y))
    return bool(diffs), 'case=%r\ninputs=%r\n%s' % (case, mv, '\n'.join(diffs[:15]))
