"""C07 — conditional_assignment gives each target its unique active branch's value.

Real code: conditional.py entirely (_push/_pop_condition, _build, _current_select, _check_and_add_pred_set,
_pred_sets_are_in_conflict, _finalize), WireVector.__ior__, Register next |=, MemBlock conditional writes,
select — run concretely to elaborate every condition tree of the bounded family; then the real Simulation runs
symbolically (predicates, data, addresses, state are solver variables) against a tree interpreter written from the
property statement."""
import itertools
import z3
import pyrtl
from pyrtl import conditional as C
from .. import simdrv, sym
from ..simdrv import Vars, run_sim, sym_env
from ..sym import to_bv

PROP = 'C07'
LEVEL = 'model_checking'
ASSUMPTIONS = [
    'oracle: a branch is active iff its predicate holds, every enclosing branch is active and no earlier sibling since the '
    'last otherwise at that level was taken; an assignment anywhere in a branch body (before or after nested blocks) '
    'belongs to that branch',
    'the converse of rejection is not demanded: exclusive programs may be rejected (syntactic rule is conservative; '
    'otherwise directly after otherwise is rejected) — counted as "rejected, nothing to check"',
    'predicates are distinct 1-bit Inputs (or the first two identified in the shared variant); data width 3, memory 4x3',
    'Simulation is the semantics of the built netlist (C01); stubs/merge points of vf/simdrv.py',
]
DW = 3
AW = 2


# --- program dimension: ordered forests of with/otherwise nodes -----------------------------------

def forests(n):
    """all ordered forests with exactly n nodes; node = (kind, children) kind in 'w','o'"""
    if n == 0:
        return [()]
    out = []
    for first in range(1, n + 1):           # size of the first tree
        for t in trees(first):
            for rest in forests(n - first):
                out.append((t,) + rest)
    return out


def trees(n):
    out = []
    for kids in forests(n - 1):
        out.append(('?', kids))
    return out


def label(forest):
    """all labelings: every node is 'w' or 'o'; at the top level an 'o' is never first (PyRTL refuses that program), inside a
    branch it may be (a first `with otherwise:` is active whenever its parent is)"""
    def lab_forest(f, depth):
        if not f:
            return [()]
        res = [()]
        for i, (_, kids) in enumerate(f):
            kinds = ['w'] if (i == 0 and depth == 0) else ['w', 'o']
            new = []
            for prefix in res:
                for k in kinds:
                    for lk in lab_forest(kids, depth + 1):
                        new.append(prefix + ((k, lk),))
            res = new
        return res
    return lab_forest(forest, 0)


def all_shapes(n):
    out = []
    for f in forests(n):
        out += label(f)
    return out


def flatten(forest):
    """nodes in DFS (program) order: list of (kind, path)"""
    nodes = []

    def rec(f, path):
        for i, (k, kids) in enumerate(f):
            nodes.append((k, path + (i,)))
            rec(kids, path + (i,))
    rec(forest, ())
    return nodes


def to_json(forest):
    return [[k, to_json(kids)] for k, kids in forest]


def from_json(j):
    return tuple((k, from_json(kids)) for k, kids in j)


def addr_name(case, tname, ni):
    """name of the address Input used by the write in node ni: private, or one of a small shared pool (so that several
    conditional writes use the SAME address wire object)"""
    pool = case.get('addrs', {}).get(tname)
    if pool is None:
        return 'a_%s_%d' % (tname, ni)
    return 'ap_%s_%d' % (tname, pool[str(ni)])


CONST_RHS = 5


def rhs_kind(case, tname, ni):
    """what is assigned at node ni of target tname: 'in' (a fresh Input), 'self' (register targets: the register itself), 'const'"""
    return case.get('rhs', {}).get(tname, {}).get(str(ni), 'in')


def rhs_term(case, name, kind, i, t, v, cur):
    how = rhs_kind(case, name, i)
    if how == 'self' and kind in ('reg', 'reg_d'):
        return cur
    if how == 'const':
        return z3.BitVecVal(CONST_RHS, DW)
    if how == 'zero':
        return z3.BitVecVal(0, DW)
    return v.inp('d_%s_%d' % (name, i), t, DW)


# --- elaboration with the real API ----------------------------------------------------------------

def elaborate(case):
    pyrtl.reset_working_block()
    forest = from_json(case['shape'])
    nodes = flatten(forest)
    nw = sum(1 for k, _ in nodes if k == 'w')
    shared = case.get('shared', False)
    preds = []
    for i in range(nw):
        if shared and i == 1:
            preds.append(preds[0])
        else:
            preds.append(pyrtl.Input(1, 'p%d' % i))
    targets = {}
    defaults = {}
    for t in case['targets']:
        kind = t['kind']
        name = t['name']
        if kind in ('wire', 'wire_d'):
            w = pyrtl.WireVector(DW, name)
            targets[name] = w
            if kind == 'wire_d':
                defaults[w] = pyrtl.Input(DW, 'dflt_' + name)
        elif kind in ('reg', 'reg_d'):
            r = pyrtl.Register(DW, name)
            targets[name] = r
            if kind == 'reg_d':
                defaults[r] = pyrtl.Input(DW, 'dflt_' + name)
        elif kind == 'mem':
            # (a memory that allows several write ports is still written through ONE conditional port: overlapping branches
            #  are refused for it as for any other target)
            mwp = case.get('mwp', 1)
            targets[name] = pyrtl.MemBlock(bitwidth=DW, addrwidth=AW, name=name, asynchronous=True, max_write_ports=mwp or None)
    assign = case['assign']    # {target name: {node index: 'pre'|'post'}}
    data = {}
    counter = [0]
    pidx = [0]

    def do_assign(ni, when):
        for tname, amap in assign.items():
            if amap.get(str(ni)) == when:
                tgt = targets[tname]
                how = rhs_kind(case, tname, ni)
                if how == 'self' and isinstance(tgt, pyrtl.Register):
                    d = tgt                       # an explicit hold: r.next |= r
                elif how == 'const':
                    d = CONST_RHS
                elif how == 'zero':
                    d = 0                         # the value a wire reads when nothing drives it: still an assignment
                else:
                    d = pyrtl.Input(DW, 'd_%s_%d' % (tname, ni))
                if isinstance(tgt, pyrtl.MemBlock):
                    an = addr_name(case, tname, ni)
                    a = pyrtl.working_block().wirevector_by_name.get(an)
                    if a is None:
                        a = pyrtl.Input(AW, an)
                    if how == 'enabled':     # the write carries its own enable on top of the branch predicate
                        tgt[a] |= pyrtl.MemBlock.EnabledWrite(d, pyrtl.Input(1, 'e_%s_%d' % (tname, ni)))
                    elif how in ('enabled0', 'enabled1'):   # ... an enable tied to a constant (a port switched off / on)
                        tgt[a] |= pyrtl.MemBlock.EnabledWrite(d, pyrtl.Const(int(how[-1]), bitwidth=1) if ni % 2 else bool(int(how[-1])))
                    else:
                        tgt[a] |= d
                elif isinstance(tgt, pyrtl.Register):
                    tgt.next |= d
                else:
                    tgt |= d

    def rec(f):
        for k, kids in f:
            ni = counter[0]
            counter[0] += 1
            if k == 'w':
                ctx = preds[pidx[0]]
                pidx[0] += 1
            else:
                ctx = pyrtl.otherwise
            with ctx:
                do_assign(ni, 'pre')
                rec(kids)
                do_assign(ni, 'post')
    if defaults:
        cm = pyrtl.conditional_assignment(defaults=defaults)
    else:
        cm = pyrtl.conditional_assignment
    with cm:
        rec(forest)
    # observe
    for name, tgt in targets.items():
        if isinstance(tgt, pyrtl.MemBlock):
            ra = pyrtl.Input(AW, 'ra_' + name)
            o = pyrtl.Output(DW, 'o_' + name)
            o <<= tgt[ra]
        else:
            o = pyrtl.Output(DW, 'o_' + name)
            o <<= tgt
    return pyrtl.working_block(), targets


# --- oracle: tree interpreter over z3 booleans -------------------------------------------------------

def plain_shape(forest):
    """no `otherwise` directly after another `otherwise` among the same siblings"""
    prev = None
    for k, kids in forest:
        if k == 'o' and prev == 'o':
            return False
        if not plain_shape(kids):
            return False
        prev = k
    return True


def active_conditions(forest, pvars):
    """{node index: z3 Bool 'branch is active'} from the property statement"""
    act = {}
    counter = [0]
    pidx = [0]

    def rec(f, parent):
        chain = []    # predicates of the siblings since the last otherwise
        for k, kids in f:
            ni = counter[0]
            counter[0] += 1
            none_taken = z3.And(*[z3.Not(p) for p in chain]) if chain else z3.BoolVal(True)
            if k == 'w':
                p = pvars[pidx[0]]
                pidx[0] += 1
                a = z3.And(parent, none_taken, p)
                chain.append(p)
            else:
                a = z3.And(parent, none_taken)
                chain = []
            act[ni] = a
            rec(kids, a)
    rec(forest, z3.BoolVal(True))
    return act


def cases(tier, seed):
    out = []
    kinds = ['wire', 'reg', 'wire_d', 'reg_d', 'mem']
    maxn = 4
    import random
    rng = random.Random(seed + 7)
    for n in range(1, maxn + 1):
        for sh in all_shapes(n):
            js = to_json(sh)
            for mask in range(1, 1 << n):
                amap = {str(i): 'pre' for i in range(n) if mask >> i & 1}
                kind = kinds[(mask + n) % 2]          # wire / reg alternate over the full placement enumeration
                out.append({'shape': js, 'targets': [{'kind': kind, 'name': 't0'}], 'assign': {'t0': amap}, 'K': 2})
            # post placements and other target kinds: seeded samples per shape
            for _ in range(2):
                mask = rng.randrange(1, 1 << n)
                amap = {str(i): rng.choice(['pre', 'post']) for i in range(n) if mask >> i & 1}
                kind = rng.choice(kinds)
                out.append({'shape': js, 'targets': [{'kind': kind, 'name': 't0'}], 'assign': {'t0': amap}, 'K': 2})
            if n >= 2:
                out.append({'shape': js, 'targets': [{'kind': 'wire', 'name': 't0'}],
                            'assign': {'t0': {str(i): 'post' for i in range(n)}}, 'K': 2, 'shared': True})
    # multi-target samples (wire + register + memory) and 5-node shapes
    shapes5 = all_shapes(5)
    pool = [s for n in (2, 3, 4) for s in all_shapes(n)]
    nmulti = 600 if tier == 'quick' else 20000
    for i in range(nmulti):
        sh = rng.choice(pool)
        n = len(flatten(sh))
        tg = [{'kind': rng.choice(kinds), 'name': 't%d' % j} for j in range(rng.choice([2, 3]))]
        assign = {}
        for t in tg:
            mask = rng.randrange(1, 1 << n)
            assign[t['name']] = {str(k): rng.choice(['pre', 'post']) for k in range(n) if mask >> k & 1}
        out.append({'shape': to_json(sh), 'targets': tg, 'assign': assign, 'K': 2, 'shared': rng.random() < 0.2})
    # memory targets whose conditional writes share address wires (pool of two address Inputs)
    for i in range(200 if tier == 'quick' else 5000):
        sh = rng.choice(pool)
        n = len(flatten(sh))
        mask = rng.randrange(1, 1 << n)
        amap = {str(k): rng.choice(['pre', 'post']) for k in range(n) if mask >> k & 1}
        addrs = {k: rng.choice([0, 1, 1]) for k in amap}
        out.append({'shape': to_json(sh), 'targets': [{'kind': 'mem', 'name': 't0'}], 'assign': {'t0': amap}, 'K': 2,
                    'addrs': {'t0': addrs}, 'mwp': [1, 2, 0][i % 3]})
    # right-hand sides other than a fresh Input: the target register itself (an explicit hold) and integer constants
    for i in range(300 if tier == 'quick' else 8000):
        sh = rng.choice(pool)
        n = len(flatten(sh))
        kind = rng.choice(['reg', 'reg_d', 'reg_d', 'wire_d', 'mem'])
        mask = rng.randrange(1, 1 << n)
        amap = {str(k): rng.choice(['pre', 'post']) for k in range(n) if mask >> k & 1}
        rhs = {k: rng.choice(['self', 'const', 'zero', 'in'] if kind.startswith('reg') else (['enabled', 'enabled', 'enabled0', 'enabled1', 'const', 'zero', 'in'] if kind == 'mem'
                                                                                              else ['const', 'zero', 'zero', 'in'])) for k in amap}
        out.append({'shape': to_json(sh), 'targets': [{'kind': kind, 'name': 't0'}], 'assign': {'t0': amap}, 'K': 2,
                    'rhs': {'t0': rhs}})
    # wide case statements: one target assigned in 7..17 sibling branches (with and without a closing otherwise; every branch, or
    # all but some, assigning), and the same nested under a branch
    for n in ((7, 8, 9, 10, 12, 13, 16, 17) if tier == 'quick' else range(6, 34)):
        for last_o in (False, True):
            flat = [['w', []] for _ in range(n)]
            if last_o:
                flat[-1] = ['o', []]
            for ki, kind in enumerate(['wire', 'reg', 'wire_d', 'reg_d']):
                if tier == 'quick' and (n + ki + last_o) % 2:
                    continue
                skip = {} if ki % 2 == 0 else {str(n // 2)}
                out.append({'shape': flat, 'targets': [{'kind': kind, 'name': 't0'}],
                            'assign': {'t0': {str(i): 'pre' for i in range(n) if str(i) not in skip}}, 'K': 2})
        nested = [['w', [['w', []] for _ in range(n)]], ['o', []]]
        out.append({'shape': nested, 'targets': [{'kind': 'wire_d', 'name': 't0'}],
                    'assign': {'t0': {str(i): 'pre' for i in range(1, n + 2)}}, 'K': 2})
    out.append({'k': 'two_blocks', 'same_dict': True})
    out.append({'k': 'two_blocks', 'same_dict': False})
    out.append({'k': 'two_blocks', 'same_dict': False, 'second_defaults': False})
    out.append({'k': 'two_blocks', 'same_dict': False, 'rename': True})
    out.append({'k': 'two_blocks', 'same_dict': True, 'rename': True})
    for sh in shapes5:
        n = 5
        reps = 1 if tier == 'quick' else 24
        for _ in range(reps):
            mask = rng.randrange(1, 1 << n)
            amap = {str(k): rng.choice(['pre', 'post']) for k in range(n) if mask >> k & 1}
            out.append({'shape': to_json(sh), 'targets': [{'kind': rng.choice(kinds), 'name': 't0'}], 'assign': {'t0': amap}, 'K': 2})
    if tier != 'quick':
        for sh in all_shapes(6):
            mask = rng.randrange(1, 1 << 6)
            amap = {str(k): rng.choice(['pre', 'post']) for k in range(6) if mask >> k & 1}
            out.append({'shape': to_json(sh), 'targets': [{'kind': rng.choice(kinds), 'name': 't0'}], 'assign': {'t0': amap}, 'K': 3})
    return out


def bounds(tier):
    return {'shapes': 'all ordered with/otherwise forests with <= 4 nodes x all assignment placements for one target '
                      '(wire/register alternating) + seeded pre/post placements for all five target kinds; all 197 five-node '
                      'shapes' + (' ; all 903 six-node shapes' if tier != 'quick' else ''),
            'multi-target samples': 600 if tier == 'quick' else 20000, 'K': 2}


def site_of(case):
    if case.get('k') == 'two_blocks':
        return 'C07:two-blocks'
    kinds = '+'.join(sorted(set(t['kind'] for t in case['targets'])))
    post = any(v == 'post' for a in case['assign'].values() for v in a.values())
    return 'C07:%s%s%s' % (kinds, ':post-nested' if post else '', ':shared-pred' if case.get('shared') else '')


def predicates(case, v, t):
    forest = from_json(case['shape'])
    nodes = flatten(forest)
    nw = sum(1 for k, _ in nodes if k == 'w')
    pv = []
    for i in range(nw):
        if case.get('shared') and i == 1:
            pv.append(pv[0])
        else:
            pv.append(v.inp('p%d' % i, t, 1) == 1)
    return forest, pv


def overlap_possible(case):
    """oracle-side question: can two assigning branches of one target be active together?"""
    v = Vars('q_')
    forest, pv = predicates(case, v, 0)
    act = active_conditions(forest, pv)
    for tname, amap in case['assign'].items():
        idx = sorted(int(i) for i in amap)
        for a, b in itertools.combinations(idx, 2):
            s = z3.Solver()
            s.add(act[a], act[b])
            if s.check() == z3.sat:
                return True
    return False


def build_two_blocks(case):
    """two conditional_assignment blocks in one design; `same_dict`: both are given the SAME defaults dict object"""
    pyrtl.reset_working_block()
    p0, p1 = pyrtl.Input(1, 'p0'), pyrtl.Input(1, 'p1')
    x, y, z = pyrtl.Input(DW, 'x'), pyrtl.Input(DW, 'y'), pyrtl.Input(DW, 'z')
    o1, o2 = pyrtl.WireVector(DW, 'o1'), pyrtl.WireVector(DW, 'o2')
    r = pyrtl.Register(DW, 'r')
    d1, d2, dr = pyrtl.Input(DW, 'd1'), pyrtl.Input(DW, 'd2'), pyrtl.Input(DW, 'dr')
    table = {o1: d1, o2: d2, r: dr}
    first = table if case['same_dict'] else dict(table)
    second = table if case['same_dict'] else ({o2: d2, r: dr} if case.get('second_defaults', True) else None)
    with pyrtl.conditional_assignment(defaults=first):
        with p0:
            o1 |= x
        if case.get('rename'):
            o1.name = 'o1_renamed'      # names are writable at any time; the defaults table is keyed by the wire, not by its name
    if second is None:
        cm = pyrtl.conditional_assignment       # a plain block: no defaults, whatever the previous block was given
    else:
        cm = pyrtl.conditional_assignment(defaults=second)
    with cm:
        with p1:
            o2 |= y
            r.next |= z
            if case.get('rename'):
                o2.name = 'o2_renamed'
        if case.get('rename'):
            r.name = 'r_renamed'
    for n, w in (('oo1', o1), ('oo2', o2), ('or', r)):
        o = pyrtl.Output(DW, n)
        o <<= w
    return pyrtl.working_block(), second is not None


def run_two_blocks(case, ob, site):
    try:
        block, has2 = build_two_blocks(case)
    except Exception as e:
        return ob.fact('two-blocks-elaborate', False, site + ':raises', detail=repr(e))
    ob.fact('conditional-state-reset-after-block', C._depth == 0 and C._conditions_list_stack == [[]], site + ':state-leak')
    K = 2
    v = Vars()
    with sym_env([block]):
        rs = run_sim(block, K, v, reg_init='sym', mem_init='sym', track='io')
    ob.paths += len(rs)
    for r_ in rs:
        if r_.exc is not None:
            ob.prove('no-exception', z3.Not(r_.cond()), [], v, site=site + ':exception')
            continue
        goals = []
        cur = v.reg('r_renamed' if case.get('rename') else 'r', DW)
        for t in range(K):
            i = lambda n, w=DW: v.inp(n, t, w)
            goals.append(('o1@%d' % t, to_bv(r_.trace['oo1'][t], DW) == z3.If(i('p0', 1) == 1, i('x'), i('d1')), site + ':value'))
            goals.append(('o2@%d' % t, to_bv(r_.trace['oo2'][t], DW) == z3.If(i('p1', 1) == 1, i('y'), i('d2') if has2 else z3.BitVecVal(0, DW)),
                          site + ':value'))
            goals.append(('r@%d' % t, to_bv(r_.trace['or'][t], DW) == cur, site + ':value'))
            cur = z3.If(i('p1', 1) == 1, i('z'), i('dr') if has2 else cur)
        ob.prove_all(goals, r_.pc, v)


def run_case(case, ob, tier):
    site = site_of(case)
    if case.get('k') == 'two_blocks':
        return run_two_blocks(case, ob, 'C07:two-blocks:%s' % ('same-defaults-object' if case['same_dict'] else 'separate-defaults'))
    overlap = overlap_possible(case)
    try:
        block, targets = elaborate(case)
        err = None
    except pyrtl.PyrtlError as e:
        err = e
    except Exception as e:
        ob.fact('elaboration-raises-only-PyrtlError', False, site + ':wrong-exception', detail=repr(e))
        C._reset_conditional_state()
        return
    ob.fact('conditional-state-reset-after-block', C._depth == 0 and C._conditions_list_stack == [[]], site + ':state-leak')
    if overlap:
        ob.fact('overlapping-assignments-rejected', err is not None, site + ':overlap-accepted')
    elif plain_shape(from_json(case['shape'])) and not case.get('shared'):
        # a program whose assigning branches can never be active together (decided by the solver over the tree shape) is one
        # of the programs the property speaks about: it must elaborate. (PyRTL refuses an `otherwise` that directly follows
        # another `otherwise` whatever is assigned, and its exclusivity test is syntactic: with one predicate wire used at several
        # places two branches can be exclusive without looking so. Neither kind of program is held to this)
        ob.fact('mutually-exclusive-program-accepted', err is None, site + ':rejected', detail=repr(err))
    if err is not None:
        ob.notes.append('rejected programs are not checked further')
        return
    K = case['K']
    v = Vars()
    with sym_env([block]):
        rs = run_sim(block, K, v, reg_init='sym', mem_init='sym', track='all')
    ob.paths += len(rs)
    for r in rs:
        if r.exc is not None:
            ob.prove('no-exception', z3.Not(r.cond()), [], v, site=site + ':exception')
            continue
        goals = []
        memstate = {t['name']: v.mem(t['name'], AW, DW) for t in case['targets'] if t['kind'] == 'mem'}
        regstate = {t['name']: v.reg(t['name'], DW) for t in case['targets'] if t['kind'] in ('reg', 'reg_d')}
        for t in range(K):
            forest, pv = predicates(case, v, t)
            act = active_conditions(forest, pv)
            for tg in case['targets']:
                name, kind = tg['name'], tg['kind']
                amap = case['assign'][name]
                idx = sorted(int(i) for i in amap)
                conds = [act[i] for i in idx]
                # at most one assigning branch active (accepted program really is exclusive)
                if len(conds) > 1:
                    goals.append(('exclusive:%s@%d' % (name, t), z3.AtMost(*conds, 1), site + ':not-exclusive'))
                none = z3.Not(z3.Or(*conds)) if conds else z3.BoolVal(True)
                if kind == 'mem':
                    arr = memstate[name]
                    # read port sees the array before this cycle's write
                    got = to_bv(r.trace['o_' + name][t], DW)
                    goals.append(('memread:%s@%d' % (name, t), got == z3.Select(arr, v.inp('ra_' + name, t, AW)), site + ':mem-read'))
                    new = arr
                    for i in idx:
                        hk = rhs_kind(case, name, i)
                        wen = {'enabled': z3.And(act[i], v.inp('e_%s_%d' % (name, i), t, 1) == 1), 'enabled0': z3.BoolVal(False)}.get(hk, act[i])
                        new = z3.If(wen, z3.Store(arr, v.inp(addr_name(case, name, i), t, AW), rhs_term(case, name, kind, i, t, v, None)), new)
                    memstate[name] = new
                    continue
                if kind in ('wire', 'wire_d'):
                    dflt = v.inp('dflt_' + name, t, DW) if kind == 'wire_d' else z3.BitVecVal(0, DW)
                    exp = dflt
                    for i in idx:
                        exp = z3.If(act[i], rhs_term(case, name, kind, i, t, v, None), exp)
                    goals.append(('wire:%s@%d' % (name, t), to_bv(r.trace['o_' + name][t], DW) == exp, site + ':value'))
                else:
                    cur = regstate[name]
                    goals.append(('reg:%s@%d' % (name, t), to_bv(r.trace['o_' + name][t], DW) == cur, site + ':value'))
                    dflt = v.inp('dflt_' + name, t, DW) if kind == 'reg_d' else cur
                    nxt = dflt
                    for i in idx:
                        nxt = z3.If(act[i], rhs_term(case, name, kind, i, t, v, cur), nxt)
                    regstate[name] = nxt
        for name, arr in memstate.items():
            goals.append(('mem-final:%s' % name, r.mems[name] == arr, site + ':mem-final'))
        for name, val in regstate.items():
            goals.append(('reg-final:%s' % name, to_bv(r.regs_next[name], DW) == val, site + ':value'))
        ob.prove_all(goals, r.pc, v)


def replay(cex):
    case = cex['case']
    if case.get('k') == 'two_blocks':
        from ..core import Obligations
        from .. import concrete
        block, has2 = build_two_blocks(case)
        mv = cex.get('model', {})
        trace, _, sim = concrete.sim_concrete(block, 2, mv, reg_init='sym', mem_init='sym', track='io')
        bad = []
        cur = mv.get('regs', {}).get('r', 0)
        for t in range(2):
            g = lambda n: (lambda x: x.get(str(t), x.get(t, 0)))(mv.get('inputs', {}).get(n, {}))
            exp = {'oo1': g('x') if g('p0') else g('d1'), 'oo2': g('y') if g('p1') else (g('d2') if has2 else 0), 'or': cur}
            for n, e in exp.items():
                if trace[n][t] != e:
                    bad.append('cycle %d: %s = %d, expected %d' % (t, n, trace[n][t], e))
            cur = g('z') if g('p1') else (g('dr') if has2 else cur)
        return bool(bad), 'two conditional blocks (%r): %s' % (case, '; '.join(bad[:6]))
    overlap = overlap_possible(case)
    try:
        block, targets = elaborate(case)
        err = None
    except pyrtl.PyrtlError as e:
        err = e
    except Exception as e:
        return True, 'elaboration raised %r (not a PyrtlError)' % (e,)
    if cex.get('structural'):
        if cex['obligation'] == 'mutually-exclusive-program-accepted':
            return (not overlap and err is not None), 'no two assigning branches can be active together; elaboration raised %r' % (err,)
        if cex['obligation'] == 'overlapping-assignments-rejected':
            return (overlap and err is None), 'two assigning branches can be active together; elaboration %s' % (
                'raised ' + repr(err) if err else 'ACCEPTED the program')
        return not (C._depth == 0 and C._conditions_list_stack == [[]]), 'module state after the block: depth=%r' % C._depth
    if err is not None:
        return False, 'program rejected on replay'
    # concrete interpretation of the same oracle
    mv = cex.get('model', {})
    K = case['K']
    from .. import concrete
    trace, mems, sim = concrete.sim_concrete(block, K, mv, reg_init='sym', mem_init='sym')
    v = concrete.ConcreteVars(mv)
    diffs = []
    memstate = {t['name']: dict((int(a), x) for a, x in mv.get('mems', {}).get(t['name'], {}).items())
                for t in case['targets'] if t['kind'] == 'mem'}
    regstate = {t['name']: mv.get('regs', {}).get(t['name'], 0) for t in case['targets'] if t['kind'] in ('reg', 'reg_d')}

    def val(name, t):
        x = mv.get('inputs', {}).get(name, {})
        return x.get(str(t), x.get(t, 0))

    def dval(name, kind, i, t, cur):
        how = rhs_kind(case, name, i)
        if how == 'self' and kind in ('reg', 'reg_d'):
            return cur
        if how == 'const':
            return CONST_RHS
        if how == 'zero':
            return 0
        return val('d_%s_%d' % (name, i), t)
    for t in range(K):
        forest = from_json(case['shape'])
        nodes = flatten(forest)
        nw = sum(1 for k, _ in nodes if k == 'w')
        pv = []
        for i in range(nw):
            pv.append(pv[0] if case.get('shared') and i == 1 else z3.BoolVal(bool(val('p%d' % i, t))))
        act = {i: z3.is_true(z3.simplify(a)) for i, a in active_conditions(forest, pv).items()}
        for tg in case['targets']:
            name, kind = tg['name'], tg['kind']
            idx = sorted(int(i) for i in case['assign'][name])
            on = [i for i in idx if act[i]]
            if len(on) > 1:
                diffs.append('cycle %d: branches %r of %s active together in an accepted program' % (t, on, name))
            got = trace['o_' + name][t]
            if kind == 'mem':
                exp = memstate[name].get(val('ra_' + name, t), 0)
                hk = rhs_kind(case, name, on[-1]) if on else None
                if on and hk != 'enabled0' and (hk != 'enabled' or val('e_%s_%d' % (name, on[-1]), t)):
                    memstate[name][val(addr_name(case, name, on[-1]), t)] = dval(name, kind, on[-1], t, None)
            elif kind in ('wire', 'wire_d'):
                exp = dval(name, kind, on[-1], t, None) if on else (val('dflt_' + name, t) if kind == 'wire_d' else 0)
            else:
                exp = regstate[name]
                regstate[name] = dval(name, kind, on[-1], t, exp) if on else (val('dflt_' + name, t) if kind == 'reg_d' else exp)
            if got != exp:
                diffs.append('cycle %d: %s reads %d, unique active branch gives %d (active branches %r)' % (t, name, got, exp, on))
    for name, exp in regstate.items():
        got = sim.regvalue[block.wirevector_by_name[name]]
        if got != exp:
            diffs.append('register %s next value %d, expected %d' % (name, got, exp))
    for name, st in memstate.items():
        real = mems.get(name, {})
        for a in range(1 << AW):
            init = mv.get('mems', {}).get(name, {}).get(str(a), 0)
            if real.get(a, init) != st.get(a, init):
                diffs.append('memory %s[%d] = %r, expected %r' % (name, a, real.get(a, init), st.get(a, init)))
    return bool(diffs), 'case=%r\ninputs=%r\n%s' % (case, mv, '\n'.join(diffs[:10]))
