"""C14 — multiplexing and bit-manipulation helpers select exactly the documented bits.

Real code: mux, select, enum_mux, bitfield_update(_set), muxes.* (sparse_mux, prioritized_mux, MultiSelector, demux),
barrel_shifter, match_bitpattern, chop, partition_wire, wire_struct, wire_matrix, WrappedWireVector — elaborated
concretely, then the real Simulation runs symbolically; oracles are bit-list models."""
import enum
import itertools
import pyrtl
from pyrtl.rtllib import muxes, barrel, libutils
from .. import gencheck
from ..gencheck import I, ite, from_bits
from ..sym import is_sym

PROP = 'C14'
LEVEL = 'model_checking'
ASSUMPTIONS = [
    'data, select and shift-amount values are solver variables (all values); shapes/patterns/schemas are enumerated',
    'sparse_mux without default: unlisted indices are documented don\'t-cares -> select constrained to listed indices',
    'oracles: Python range(w)[slice] for slice bounds, first-set-bit for prioritized_mux, one-hot for demux',
    'Simulation is the semantics of the built netlist (C01); stubs/merge points of vf/simdrv.py',
]


def _sel_chain(sel, table, default):
    """value of table[sel] as an ite chain (table: {index: value})"""
    acc = default
    for k in sorted(table, reverse=True):
        acc = ite(sel == k, table[k], acc)
    return acc


def it_mux(c):
    sw, n, w = c['sw'], c['n'], c['w']
    s = I(sw, 's')
    ins_ = [I(w if i % 2 == 0 else max(1, w - 1), 'a%d' % i) for i in range(n)]
    kw = {}
    if c.get('default'):
        kw['default'] = I(w, 'dflt')
    if n != (1 << sw) and not c.get('default'):
        c['expect_error'] = True
    r = pyrtl.mux(s, *ins_, **kw)

    def orc(ins):
        table = {i: ins['a%d' % i] for i in range(n)}
        return {'r': _sel_chain(ins['s'], table, ins.get('dflt', 0))}
    return {'outs': {'r': r}, 'widths': {'r': w}, 'oracle': orc}


def it_mux_kw(c):
    """the predicate forms: select(s, t, f) and the (deprecated but accepted) keyword form mux(s, truecase=t, falsecase=f)"""
    import warnings
    wt, wf = c['wt'], c['wf']
    s, t, f = I(1, 's'), I(wt, 't'), I(wf, 'f')
    with warnings.catch_warnings():
        warnings.simplefilter('ignore')
        form = c['form']
        if form == 'mux_kw':
            r = pyrtl.mux(s, truecase=t, falsecase=f)
        elif form == 'mux_kw_reversed':
            r = pyrtl.mux(s, falsecase=f, truecase=t)
        elif form == 'select_pos':
            r = pyrtl.select(s, t, f)
        elif form == 'select_kw':
            r = pyrtl.select(s, truecase=t, falsecase=f)
        elif form == 'select_kw_reversed':
            r = pyrtl.select(sel=s, falsecase=f, truecase=t)
        else:   # mux positional: index 0 first
            r = pyrtl.mux(s, f, t)

    def orc(ins):
        return {'r': ite(ins['s'] == 1, ins['t'], ins['f'])}
    return {'outs': {'r': r}, 'widths': {'r': max(wt, wf)}, 'oracle': orc}


class _E3(enum.IntEnum):
    A = 1
    B = 2
    C = 4


class _E4(enum.IntEnum):
    A = 0
    B = 1
    C = 2
    D = 3


def it_enum_mux(c):
    E = {'E3': _E3, 'E4': _E4}[c['enum']]
    sw, w = c['sw'], c['w']
    s = I(sw, 's')
    members = list(E)[:c['listed']]
    table = {m: I(w, 'v%d' % m.value) for m in members}
    kw = {}
    how = c.get('default')
    if how == 'kw':
        kw['default'] = I(w, 'dflt')
    elif how == 'otherwise':
        table[pyrtl.otherwise] = I(w, 'dflt')
    strict = c.get('strict', True)
    if strict and not how and len(members) < len(list(E)):
        c['expect_error'] = True
    r = pyrtl.enum_mux(s, table, strict=strict, **kw)
    listed = [m.value for m in members]

    def orc(ins):
        t = {k: ins['v%d' % k] for k in listed}
        return {'r': _sel_chain(ins['s'], t, ins.get('dflt', 0))}

    def assume(ins):
        if how:
            return []
        acc = False
        for k in listed:
            acc = (ins['s'] == k) | acc if is_sym(ins['s'] == k) or is_sym(acc) else ((ins['s'] == k) or acc)
        return [acc]
    return {'outs': {'r': r}, 'oracle': orc, 'assume': assume}


def it_sparse(c):
    sw, w = c['sw'], c['w']
    s = I(sw, 's')
    idx = c['idx']
    vals = {i: I(w, 'v%d' % i) for i in idx}
    if c.get('default'):
        vals['default'] = I(w, 'dflt')
    outs = {}
    if c.get('reuse'):
        # a history on the caller's table: the same dict was first used for a mux with a narrower select
        s0 = I(c['reuse'], 's0')
        outs['r0'] = muxes.sparse_mux(s0, vals)
    r = muxes.sparse_mux(s, vals)
    outs['r'] = r

    def orc(ins):
        table = {i: ins['v%d' % i] for i in idx}
        res = {'r': _sel_chain(ins['s'], table, ins.get('dflt', 0))}
        if c.get('reuse'):
            res['r0'] = _sel_chain(ins['s0'], table, ins.get('dflt', 0))
        return res

    def assume(ins):
        if c.get('default'):
            return []
        from ..sym import to_cond
        import z3
        return [z3.Or(*[to_cond(ins['s'] == i) for i in idx])]
    return {'outs': outs, 'oracle': orc, 'assume': assume}


def it_sparse_shared(c):
    """tables in which the same wire object sits at several indices (the mux tree may share or skip sub-muxes)"""
    sw, w, pat = c['sw'], c['w'], c['pattern']
    s = I(sw, 's')
    pool = {ch: I(w, 'p_%s' % ch) for ch in sorted(set(pat) - {'-'})}
    vals = {i: pool[ch] for i, ch in enumerate(pat) if ch != '-'}
    form = c.get('form', 'sparse')
    if form == 'sparse':
        r = muxes.sparse_mux(s, vals)
    else:
        r = pyrtl.mux(s, *[vals[i] for i in range(1 << sw)])

    def orc(ins):
        return {'r': _sel_chain(ins['s'], {i: ins['p_%s' % ch] for i, ch in enumerate(pat) if ch != '-'}, 0)}

    def assume(ins):
        from ..sym import to_cond
        import z3
        return [z3.Or(*[to_cond(ins['s'] == i) for i, ch in enumerate(pat) if ch != '-'])]
    return {'outs': {'r': r}, 'oracle': orc, 'assume': assume}


def it_prio(c):
    n, w = c['n'], c['w']
    sels = [I(1, 's%d' % i) for i in range(n)]
    # 'pat': which value wire sits at each priority (the same wire / an equal constant may be listed several times)
    pat = c.get('pat') or list(range(n))
    pool = {}
    for k in sorted(set(pat)):
        pool[k] = pyrtl.Const(2, bitwidth=w) if (c.get('consts') and k == 0) else I(w, 'v%d' % k)
    vals = [pool[k] for k in pat]
    if c.get('consts'):
        vals = [pyrtl.Const(2, bitwidth=w) if k == 0 else x for k, x in zip(pat, vals)]     # equal-valued but distinct Const objects
    r = muxes.prioritized_mux(sels, vals)

    def val(ins, k):
        return 2 if (c.get('consts') and k == 0) else ins['v%d' % k]

    def orc(ins):
        acc = val(ins, pat[n - 1])
        for i in range(n - 2, -1, -1):
            acc = ite(ins['s%d' % i] == 1, val(ins, pat[i]), acc)
        return {'r': acc}
    return {'outs': {'r': r}, 'widths': {'r': w}, 'oracle': orc}


def it_multisel(c):
    sw, w = c['sw'], c['w']
    s = I(sw, 's')
    d0, d1 = pyrtl.WireVector(w, 'd0'), pyrtl.WireVector(w + 1, 'd1')
    opts = c['opts']
    dpos = c.get('dpos', len(opts)) if c.get('default') else None    # where default() is declared among the options
    with muxes.MultiSelector(s, d0, d1) as ms:
        for n_, k in enumerate(opts):
            if dpos == n_:
                ms.default(I(w, 'xd'), I(w + 1, 'yd'))
            ms.option(k, I(w, 'x%d' % k), I(w + 1, 'y%d' % k))
        if dpos is not None and dpos >= len(opts):
            ms.default(I(w, 'xd'), I(w + 1, 'yd'))

    def orc(ins):
        return {'d0o': _sel_chain(ins['s'], {k: ins['x%d' % k] for k in opts}, ins.get('xd', 0)),
                'd1o': _sel_chain(ins['s'], {k: ins['y%d' % k] for k in opts}, ins.get('yd', 0))}

    def assume(ins):
        if c.get('default'):
            return []
        import z3
        from ..sym import to_cond
        return [z3.Or(*[to_cond(ins['s'] == k) for k in opts])]
    return {'outs': {'d0o': d0, 'd1o': d1}, 'oracle': orc, 'assume': assume}


def it_demux(c):
    sw = c['sw']
    s = I(sw, 's')
    outs = muxes.demux(s)
    if len(outs) != (1 << sw):
        raise AssertionError('demux returned %d wires for a %d-bit select' % (len(outs), sw))
    return {'outs': {'o%d' % i: w for i, w in enumerate(outs)}, 'widths': {'o%d' % i: 1 for i in range(1 << sw)},
            'oracle': lambda ins: {'o%d' % i: ite(ins['s'] == i, 1, 0) for i in range(1 << sw)}}


def it_bitfield(c):
    w = c['w']
    a = I(w, 'a')
    st, en = c['st'], c['en']
    idx = list(range(w))[st:en]
    if not idx:
        c['expect_error'] = True
    n = I(max(1, len(idx)), 'n')
    r = pyrtl.bitfield_update(a, st, en, n)

    def orc(ins):
        bits = [(ins['a'] >> i) & 1 for i in range(w)]
        for j, i in enumerate(idx):
            bits[i] = (ins['n'] >> j) & 1
        return {'r': from_bits(bits)}
    return {'outs': {'r': r}, 'widths': {'r': w}, 'oracle': orc}


def it_bitfield_set(c):
    w = c['w']
    a = I(w, 'a')
    upd = {}
    fields = []
    for j, (st, en) in enumerate(c['ranges']):
        idx = list(range(w))[st:en]
        x = I(max(1, len(idx)), 'n%d' % j)
        upd[(st, en)] = x
        fields.append(idx)
    used = [i for f in fields for i in f]
    if len(used) != len(set(used)) or any(not f for f in fields):
        c['expect_error'] = True
    r = pyrtl.bitfield_update_set(a, upd)

    def orc(ins):
        bits = [(ins['a'] >> i) & 1 for i in range(w)]
        for j, f in enumerate(fields):
            for k, i in enumerate(f):
                bits[i] = (ins['n%d' % j] >> k) & 1
        return {'r': from_bits(bits)}
    return {'outs': {'r': r}, 'widths': {'r': w}, 'oracle': orc}


def it_bitfield_trunc(c):
    """truncating=True clips a too-wide new value; an int constant that fits is accepted"""
    w, st, en = c['w'], c['st'], c['en']
    a = I(w, 'a')
    idx = list(range(w))[st:en]
    n = I(len(idx) + 2, 'n')
    r = pyrtl.bitfield_update(a, st, en, n, truncating=True)

    def orc(ins):
        bits = [(ins['a'] >> i) & 1 for i in range(w)]
        for j, i in enumerate(idx):
            bits[i] = (ins['n'] >> j) & 1
        return {'r': from_bits(bits)}
    return {'outs': {'r': r}, 'widths': {'r': w}, 'oracle': orc}


def it_bitfield_int(c):
    """new value given as a Python int / bool / Verilog-style string; truncating=True clips a value that is too large"""
    w, st, en, val, trunc = c['w'], c['st'], c['en'], c['val'], c['trunc']
    a = I(w, 'a')
    idx = list(range(w))[st:en]
    ival = int(val.split("'d")[1]) if isinstance(val, str) else int(val)
    if not idx or (ival >= (1 << len(idx)) and not trunc):
        c['expect_error'] = True
    elif ival >= (1 << len(idx)):
        # truncating=True with an int that does not fit: the docstring says "silently clip", the implementation rejects the
        # constant with PyrtlError; the property only speaks of which bits are replaced, so both a clean rejection and the
        # clipped value are accepted (anything else is a violation)
        c['may_error'] = True
    r = pyrtl.bitfield_update(a, st, en, val, truncating=trunc) if c.get('form') != 'set' else \
        pyrtl.bitfield_update_set(a, {(st, en): val}, truncating=trunc)

    def orc(ins):
        bits = [(ins['a'] >> i) & 1 for i in range(w)]
        for j, i in enumerate(idx):
            bits[i] = (ival >> j) & 1
        return {'r': from_bits(bits)}
    return {'outs': {'r': r}, 'widths': {'r': w}, 'oracle': orc}


def it_pattern(c):
    pat = c['pat']
    clean = ''.join(pat.replace('_', '').split())
    w = len(clean)
    if w == 0:
        c['expect_error'] = True
    a = I(max(w, 1), 'a')
    lsb = clean[::-1]
    names = []
    for ch in clean:
        if ch not in '01?' and ch not in names:
            names.append(ch)
    if c.get('field_map'):
        # the optional map from pattern letters to field names, written in an order other than the pattern's (and, 'extra',
        # with an entry for a letter the pattern does not use); the returned tuple keeps the pattern's left-to-right order
        order = sorted(names, reverse=True) if c['field_map'] != 'sorted' else sorted(names)
        fmap = {nm: 'field_' + nm for nm in order}
        m, fields = pyrtl.match_bitpattern(a, pat, fmap)
        shown = ['field_' + nm for nm in names]
    else:
        m, fields = pyrtl.match_bitpattern(a, pat)
        shown = list(names)
    outs = {'m': m}
    if tuple(fields._fields) != tuple(shown):
        raise AssertionError('field order %r, documented left-to-right order %r' % (fields._fields, shown))
    for k_, nm in enumerate(names):
        outs['f_' + nm] = fields[k_]
        if getattr(fields, shown[k_]) is not fields[k_]:
            raise AssertionError('field %s by name is not the field at its position %d' % (shown[k_], k_))

    def orc(ins):
        x = ins['a']
        ok = 1
        for i, ch in enumerate(lsb):
            if ch == '1':
                ok = ok & ((x >> i) & 1)
            elif ch == '0':
                ok = ok & (((x >> i) & 1) ^ 1)
        res = {'m': ok}
        for nm in names:
            # bits named nm, most significant (leftmost) first
            v = 0
            for pos, ch in enumerate(clean):
                if ch == nm:
                    v = (v << 1) | ((x >> (w - 1 - pos)) & 1)
            res['f_' + nm] = v
        return res
    widths = {'m': 1}
    for nm in names:
        widths['f_' + nm] = clean.count(nm)
    return {'outs': outs, 'widths': widths, 'oracle': orc}


def it_chop(c):
    ws = c['ws']
    total = sum(ws)
    a = I(c.get('total', total), 'a')
    if c.get('total', total) != total:
        c['expect_error'] = True
    parts = pyrtl.chop(a, *ws)
    outs = {'p%d' % i: p for i, p in enumerate(parts)}
    outs['whole'] = pyrtl.concat(*parts)

    def orc(ins):
        res = {}
        hi = total
        for i, w in enumerate(ws):
            lo = hi - w
            res['p%d' % i] = (ins['a'] >> lo) & ((1 << w) - 1)
            hi = lo
        res['whole'] = ins['a']
        return res
    return {'outs': outs, 'widths': dict({'p%d' % i: w for i, w in enumerate(ws)}, whole=total), 'oracle': orc}


def it_partition(c):
    w, p = c['w'], c['p']
    a = I(w, 'a')
    if w % p:
        c['expect_error'] = True
    parts = libutils.partition_wire(a, p)
    outs = {'p%d' % i: x for i, x in enumerate(parts)}
    outs['whole'] = pyrtl.concat_list(parts)

    def orc(ins):
        res = {'p%d' % i: (ins['a'] >> (i * p)) & ((1 << p) - 1) for i in range(w // p)}
        res['whole'] = ins['a']
        return res
    return {'outs': outs, 'widths': dict({'p%d' % i: p for i in range(w // p)}, whole=w), 'oracle': orc}


# --- wire_struct / wire_matrix schemas ----------------------------------------------------------

def _schemas():
    @pyrtl.wire_struct
    class Byte:
        high: 4
        low: 4

    @pyrtl.wire_struct
    class Odd:
        a: 1
        b: 3
        c: 2

    @pyrtl.wire_struct
    class Pixel:
        red: Byte
        green: Odd
        blue: 3
    @pyrtl.wire_struct
    class Oct:
        x: 2
        y: 6
    # matrix types that agree in component WIDTH and size with a later one but not in the component schema (a flat 12-bit
    # component vs a 4x3 matrix, a flat 6-bit one vs a struct, two different 8-bit structs), defined first
    Flat12 = pyrtl.wire_matrix(component_schema=12, size=2)
    Flat6 = pyrtl.wire_matrix(component_schema=6, size=3)
    ByteM = pyrtl.wire_matrix(component_schema=Byte, size=2)
    OctM = pyrtl.wire_matrix(component_schema=Oct, size=2)
    Word = pyrtl.wire_matrix(component_schema=3, size=4)
    Arr2 = pyrtl.wire_matrix(component_schema=Word, size=2)
    BMat = pyrtl.wire_matrix(component_schema=Odd, size=3)
    Deep = pyrtl.wire_matrix(component_schema=Arr2, size=2)

    @pyrtl.wire_struct
    class Line:
        address: Word
        valid: 1
        data: BMat

    # components named like attributes and methods of the WireVector the struct wraps: the component wins
    @pyrtl.wire_struct
    class Attr:
        bitmask: 4
        bitwidth: 3
        truncate: 2
        nand: 1
        sign_extended: 2

    @pyrtl.wire_struct
    class Nest:
        next: Attr
        msb: 1
        _name: Byte
    return {'Attr': Attr, 'Nest': Nest, 'Byte': Byte, 'Odd': Odd, 'Pixel': Pixel, 'Word': Word, 'Arr2': Arr2, 'BMat': BMat, 'Line': Line, 'Deep': Deep,
            'Oct': Oct, 'Flat12': Flat12, 'Flat6': Flat6, 'ByteM': ByteM, 'OctM': OctM}


# layout: name -> ('struct', [(field, sub)]) | ('matrix', sub, size) | int
LAYOUT = {
    'Byte': ('struct', [('high', 4), ('low', 4)]),
    'Odd': ('struct', [('a', 1), ('b', 3), ('c', 2)]),
    'Pixel': ('struct', [('red', 'Byte'), ('green', 'Odd'), ('blue', 3)]),
    'Word': ('matrix', 3, 4),
    'Arr2': ('matrix', 'Word', 2),
    'BMat': ('matrix', 'Odd', 3),
    'Line': ('struct', [('address', 'Word'), ('valid', 1), ('data', 'BMat')]),
    'Deep': ('matrix', 'Arr2', 2),
    'Oct': ('struct', [('x', 2), ('y', 6)]),
    'Flat12': ('matrix', 12, 2),
    'Flat6': ('matrix', 6, 3),
    'ByteM': ('matrix', 'Byte', 2),
    'OctM': ('matrix', 'Oct', 2),
    'Attr': ('struct', [('bitmask', 4), ('bitwidth', 3), ('truncate', 2), ('nand', 1), ('sign_extended', 2)]),
    'Nest': ('struct', [('next', 'Attr'), ('msb', 1), ('_name', 'Byte')]),
}


def _width(t):
    if isinstance(t, int):
        return t
    l = LAYOUT[t]
    if l[0] == 'struct':
        return sum(_width(s) for _, s in l[1])
    return _width(l[1]) * l[2]


def _leaves(t, path=()):
    """[(access path, msb offset from the top, width)] for every component at every level"""
    out = []
    if isinstance(t, int):
        return out
    l = LAYOUT[t]
    off = 0
    comps = l[1] if l[0] == 'struct' else [(i, l[1]) for i in range(l[2])]
    for name, sub in comps:
        w = _width(sub)
        out.append((path + (name,), off, w))
        for p, o, ww in _leaves(sub, path + (name,)):
            out.append((p, off + o, ww))
        off += w
    return out


def _access(obj, path):
    for p in path:
        obj = obj[p] if isinstance(p, int) else getattr(obj, p)
    return obj


def it_struct(c):
    S = _schemas()
    t = c['schema']
    cls = S[t]
    W = _width(t)
    leaves = _leaves(t)
    mode = c['mode']
    is_matrix = LAYOUT[t][0] == 'matrix'
    if mode == 'whole':
        a = I(W, 'a')
        obj = cls(values=[a]) if is_matrix else cls(**{t: a})
        whole = lambda ins: ins['a']
    else:
        # drive every top-level component separately (most significant first)
        l = LAYOUT[t]
        comps = l[1] if l[0] == 'struct' else [(i, l[1]) for i in range(l[2])]
        drivers = [I(_width(sub), 'c%d' % i) for i, (name, sub) in enumerate(comps)]
        if mode == 'wrapped':
            # every component is driven by an instance of an UNRELATED wrapped type of the same total width (for a matrix
            # component: same size and component width, but flat elements): the component keeps its declared structure
            wrapped = []
            for i, (name, sub) in enumerate(comps):
                w_ = _width(sub)
                if not isinstance(sub, int) and LAYOUT[sub][0] == 'matrix':
                    Drv = pyrtl.wire_matrix(component_schema=_width(LAYOUT[sub][1]), size=LAYOUT[sub][2])
                else:
                    Drv = pyrtl.wire_matrix(component_schema=w_, size=1)
                wrapped.append(Drv(values=[drivers[i]]))
            drivers_w = wrapped
        if mode in ('ints', 'mixed'):
            # components given as Python ints (negative ones are two's complement at the component's width); 'mixed': every
            # other component stays a wire
            pick = c.get('vi', 0)
            consts = {}
            for i, (name, sub) in enumerate(comps):
                w_ = _width(sub)
                choices = [-1, 1, -(1 << (w_ - 1)), (1 << w_) - 1, 0] if w_ > 1 else [-1, 1, 0, 1, 0]
                if mode == 'ints' or i % 2 == pick % 2:
                    consts[i] = choices[(pick + i) % len(choices)]
            drivers = [consts.get(i, d) for i, d in enumerate(drivers)]
        dv_ = drivers_w if mode == 'wrapped' else drivers
        if is_matrix:
            obj = cls(values=dv_)
        else:
            obj = cls(**{name: d for (name, sub), d in zip(comps, dv_)})

        def whole(ins):
            v = 0
            for i, (name, sub) in enumerate(comps):
                d_ = drivers[i]
                cv = (d_ & ((1 << _width(sub)) - 1)) if isinstance(d_, int) else ins['c%d' % i]
                v = (v << _width(sub)) | cv
            return v
    outs = {'whole': pyrtl.as_wires(obj)}
    widths = {'whole': W}
    for k, (path, off, w) in enumerate(leaves):
        outs['l%d' % k] = pyrtl.as_wires(_access(obj, path))
        widths['l%d' % k] = w

    def orc(ins):
        x = whole(ins)
        res = {'whole': x}
        for k, (path, off, w) in enumerate(leaves):
            res['l%d' % k] = (x >> (W - off - w)) & ((1 << w) - 1)
        return res
    return {'outs': outs, 'widths': widths, 'oracle': orc}


from .c06 import it_barrel  # noqa: E402  (barrel_shifter is named by both properties)

ITEMS = {'barrel': it_barrel, 'mux': it_mux, 'mux_kw': it_mux_kw, 'sparse_shared': it_sparse_shared, 'enum_mux': it_enum_mux, 'sparse': it_sparse, 'prio': it_prio, 'multisel': it_multisel,
         'demux': it_demux, 'bitfield': it_bitfield, 'bitfield_set': it_bitfield_set, 'bitfield_trunc': it_bitfield_trunc, 'bitfield_int': it_bitfield_int,
         'pattern': it_pattern, 'chop': it_chop, 'partition': it_partition, 'struct': it_struct}


def bounds(tier):
    return {'mux': 'select widths 1..3, 1..8 inputs, with/without default', 'sparse_mux': 'all index subsets of size<=4 of 0..7',
            'patterns': 'all strings of length <= %d over {0,1,?,a,b,_,space} (after a non-empty filter)' % (5 if tier == 'quick' else 6),
            'bitfield': 'every [start:end] with bounds in {None,-w..w}, w=3..5', 'schemas': sorted(LAYOUT)}


def cases(tier, seed):
    out = []
    for sw in (1, 2, 3):
        for n in range(1, (1 << sw) + 1):
            for d in (False, True):
                for w in (1, 3):
                    out.append({'item': 'mux', 'sw': sw, 'n': n, 'w': w, 'default': d})
    for form in ('mux_kw', 'mux_kw_reversed', 'select_pos', 'select_kw', 'select_kw_reversed', 'mux_pos'):
        for wt, wf in ((1, 1), (3, 3), (2, 4), (4, 2)):
            out.append({'item': 'mux_kw', 'form': form, 'wt': wt, 'wf': wf})
    for en, sw in (('E3', 3), ('E4', 2), ('E4', 3)):
        nmem = 3 if en == 'E3' else 4
        for listed in range(1, nmem + 1):
            for d in (None, 'kw', 'otherwise'):
                for strict in (True, False):
                    out.append({'item': 'enum_mux', 'enum': en, 'sw': sw, 'w': 3, 'listed': listed, 'default': d, 'strict': strict})
    for sw in (1, 2, 3):
        rng = range(1 << sw)
        for k in range(1, 5):
            for idx in itertools.combinations(rng, k):
                for d in (False, True):
                    out.append({'item': 'sparse', 'sw': sw, 'w': 2, 'idx': list(idx), 'default': d})
                    if d and sw == 3 and max(idx) < 4:
                        out.append({'item': 'sparse', 'sw': sw, 'w': 2, 'idx': list(idx), 'default': d, 'reuse': 2})
    for n in range(1, 7 if tier == 'quick' else 10):
        out.append({'item': 'prio', 'n': n, 'w': 2})
    for pat in itertools.product(range(3), repeat=4):
        if len(set(pat)) < 4:
            out.append({'item': 'prio', 'n': 4, 'w': 2, 'pat': list(pat)})
    for pat in ([0, 1, 0], [0, 1, 0, 1, 0], [1, 0, 2, 0]):
        out.append({'item': 'prio', 'n': len(pat), 'w': 2, 'pat': pat, 'consts': True})
    for opts in ([0], [1, 2], [0, 3], [0, 1, 2, 3], [5], [1, 6, 7]):
        out.append({'item': 'multisel', 'sw': 3 if max(opts) > 3 else 2, 'w': 2, 'opts': opts, 'default': False})
        for dpos in range(len(opts) + 1):
            out.append({'item': 'multisel', 'sw': 3 if max(opts) > 3 else 2, 'w': 2, 'opts': opts, 'default': True, 'dpos': dpos})
    # every table over two shared wires for a 3-bit select; samples with three wires, holes and a 4-bit select
    for pat in itertools.product('ab', repeat=8):
        out.append({'item': 'sparse_shared', 'sw': 3, 'w': 2, 'pattern': ''.join(pat)})
    import random
    rng_ = random.Random(seed + 14)
    for _ in range(60 if tier == 'quick' else 1500):
        sw_ = rng_.choice([2, 3, 4])
        pat = ''.join(rng_.choice('abc-' if _ % 2 else 'abc') for _i in range(1 << sw_))
        if set(pat) == {'-'}:
            continue
        out.append({'item': 'sparse_shared', 'sw': sw_, 'w': 2, 'pattern': pat})
        if '-' not in pat:
            out.append({'item': 'sparse_shared', 'sw': sw_, 'w': 2, 'pattern': pat, 'form': 'mux'})
    for sw in (1, 2, 3, 4):
        out.append({'item': 'demux', 'sw': sw})
    for w in ((3, 4, 5) if tier == 'quick' else (1, 2, 3, 4, 5, 6)):
        rng = [None] + list(range(-w, w + 1))
        for st, en in itertools.product(rng, rng):
            out.append({'item': 'bitfield', 'w': w, 'st': st, 'en': en})
        out.append({'item': 'bitfield_trunc', 'w': w, 'st': 1 if w > 1 else 0, 'en': None})
        for st, en in ((0, None), (1, None), (None, -1), (1, 3), (-2, None), (0, 1)):
            flen = len(list(range(w))[st:en])
            if flen == 0:
                continue
            for val in sorted({0, 1, (1 << flen) - 1, (1 << flen) >> 1, ((1 << flen) - 1) ^ 1, (1 << flen), (1 << flen) + 2, 5}):
                for trunc in (False, True):
                    out.append({'item': 'bitfield_int', 'w': w, 'st': st, 'en': en, 'val': val, 'trunc': trunc,
                                'form': 'set' if (val + w) % 3 == 0 else 'plain'})
        out.append({'item': 'bitfield_int', 'w': w, 'st': 0, 'en': 1, 'val': True, 'trunc': True})
        out.append({'item': 'bitfield_int', 'w': w, 'st': 0, 'en': None, 'val': "%d'd1" % w, 'trunc': False})
    for ranges in ([(0, 1), (2, None)], [(None, 2), (2, 4)], [(1, 3), (2, 4)], [(-1, None), (None, 1), (1, 3)], [(0, 5)],
                   [(3, 3), (0, 1)], [(None, -1), (-1, None)]):
        out.append({'item': 'bitfield_set', 'w': 5, 'ranges': [list(r) for r in ranges]})
    alpha = '01?ab_ '
    L = 5 if tier == 'quick' else 6
    for n in range(1, L + 1):
        for tup in itertools.product(alpha, repeat=n):
            p = ''.join(tup)
            if tier == 'quick' and n == 5 and (hash_stable(p) % 4):
                continue
            if tier != 'quick' and n == 6 and (hash_stable(p) % 5):
                continue
            out.append({'item': 'pattern', 'pat': p})
    out.append({'item': 'pattern', 'pat': '01aa1?bbb11a'})
    for p in ('ba', 'b1a', 'ssdd', 'dds1s', 'zyx', 'a?b0c', 'cab', '01aa1?bbb11a', 'b0a1b', 'xa'):
        for fm in ('reversed', 'sorted'):
            out.append({'item': 'pattern', 'pat': p, 'field_map': fm})
    out.append({'item': 'pattern', 'pat': 'iiiiiiirrrrrsssss010iiiii0100011'})
    for ws in ([1], [1, 1], [3, 1, 2], [6, 5, 5, 16], [1, 30, 1], [2, 2, 2, 2]):
        out.append({'item': 'chop', 'ws': ws})
    out.append({'item': 'chop', 'ws': [2, 3], 'total': 6})
    for w, p in ((4, 2), (6, 3), (8, 1), (8, 8), (9, 3), (7, 2), (12, 4)):
        out.append({'item': 'partition', 'w': w, 'p': p})
    for w in ([1, 2, 3, 5, 6, 7, 8, 9] if tier == 'quick' else list(range(1, 18))):
        for ws in range(1, 6):
            out.append({'item': 'barrel', 'wa': w, 'ws': ws})
    for t in LAYOUT:
        for mode in ('whole', 'parts', 'wrapped'):
            out.append({'item': 'struct', 'schema': t, 'mode': mode})
        for vi in range(5):
            out.append({'item': 'struct', 'schema': t, 'mode': 'ints', 'vi': vi})
            out.append({'item': 'struct', 'schema': t, 'mode': 'mixed', 'vi': vi})
    return out


def hash_stable(s):
    h = 0
    for ch in s:
        h = (h * 131 + ord(ch)) % 1000003
    return h


def site_of(c):
    s = 'C14:%s' % c['item']
    if c['item'] == 'struct':
        s += ':%s:%s' % (c['schema'], c['mode'])
    return s


def run_case(case, ob, tier):
    gencheck.check_item(ob, case, ITEMS[case['item']], site_of(case))


def replay(cex):
    return gencheck.replay_item(cex, ITEMS[cex['case']['item']])
