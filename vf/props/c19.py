"""C19 — rtllib Matrix operations equal integer-matrix arithmetic modulo the result width.

Real code: all of rtllib/matrix.py (and multipliers.fused_multiply_adder underneath @, **, dot): elaborated
concretely on matrices whose elements are slices of Input wires, then the real Simulation runs symbolically; one
solver obligation per result element. Oracle: nested lists of integer terms."""
import itertools
import pyrtl
from pyrtl.rtllib import matrix as M
from .. import gencheck
from ..gencheck import I, ite
from ..sym import is_sym

PROP = 'C19'
LEVEL = 'model_checking'
ASSUMPTIONS = [
    'element values are solver variables (all values); shapes, element widths, max_bits, axis/order/mode/index '
    'arguments are enumerated',
    'oracle: nested-list integer arithmetic reduced modulo 2^bits of the result; saturating unsigned subtraction; '
    'first-instance argmax; row-major layout of to_wirevector()/value=WireVector (first element most significant)',
    'Matrix slices only with step None/1 and in-range bounds (the implementation ignores steps and rejects out-of-range '
    'stops, which the documentation does not address)',
    'Simulation is the semantics of the built netlist (C01); stubs/merge points of vf/simdrv.py',
]


def mat_in(name, r, c, bits, max_bits=64):
    w = I(r * c * bits, name)
    return M.Matrix(r, c, bits, value=w, max_bits=max_bits)


def dec(x, r, c, bits):
    """nested list of element values from the packed input (element [0][0] most significant)"""
    m = (1 << bits) - 1
    return [[(x >> (((r - 1 - i) * c + (c - 1 - j)) * bits)) & m for j in range(c)] for i in range(r)]


def outs_of(res, prefix='e'):
    """per-element outputs of a result Matrix (or a single WireVector)"""
    if isinstance(res, M.Matrix):
        o = {}
        for i in range(res.rows):
            for j in range(res.columns):
                o['%s_%d_%d' % (prefix, i, j)] = pyrtl.as_wires(res[i, j]).zero_extended(res.bits) \
                    if len(pyrtl.as_wires(res[i, j])) < res.bits else pyrtl.as_wires(res[i, j])
        return o
    return {prefix: res}


def exp_of(lst, bits, prefix='e', exact=False):
    m = (1 << bits) - 1
    if isinstance(lst, list):
        return {'%s_%d_%d' % (prefix, i, j): (v if exact else v & m) for i, row in enumerate(lst) for j, v in enumerate(row)}
    return {prefix: lst if exact else lst & m}


def _shape_check(res, lst):
    if isinstance(lst, list) and len(lst) == 1 and len(lst[0]) == 1 and not isinstance(res, M.Matrix):
        return   # a single selected value is documented to come back as a WireVector
    if isinstance(lst, list):
        if not isinstance(res, M.Matrix) or res.rows != len(lst) or res.columns != len(lst[0]):
            raise gencheck.StructuralMismatch('result shape %r, expected %dx%d' % (
                (getattr(res, 'rows', None), getattr(res, 'columns', None)), len(lst), len(lst[0])))


def _smax(a, b):
    return ite(a > b, a, b)


def _smin(a, b):
    return ite(a < b, a, b)


def item(c):
    op = c['op']
    r, k, bits = c['r'], c['c'], c['bits']
    mb = c.get('max_bits', 64)
    if c.get('ctor') == 'partial':
        # a Matrix created empty, of which only the cells with even i+j are assigned afterwards (a diagonal / checkerboard):
        # the cells never assigned read 0
        w_ = I(r * k * bits, 'A')
        A = M.Matrix(r, k, bits, max_bits=mb)
        for i_ in range(r):
            for j_ in range(k):
                if (i_ + j_) % 2 == 0:
                    pos_ = (r - 1 - i_) * k + (k - 1 - j_)
                    A[i_, j_] = w_[pos_ * bits:(pos_ + 1) * bits]
        decA = lambda ins: [[v if (i + j) % 2 == 0 else 0 for j, v in enumerate(row)] for i, row in enumerate(dec(ins['A'], r, k, min(bits, mb)))]
    elif c.get('ctor') == 'list_shared':
        # built from a list of lists of WireVectors of exactly the element width; the caller builds a second Matrix from the
        # same list and writes to it, and reuses the list afterwards: A keeps what it was given
        w_ = I(r * k * bits, 'A')
        lst_ = [[w_[((r - 1 - i_) * k + (k - 1 - j_)) * bits:((r - 1 - i_) * k + (k - 1 - j_) + 1) * bits] for j_ in range(k)] for i_ in range(r)]
        A = M.Matrix(r, k, bits, value=lst_, max_bits=mb)
        other_ = M.Matrix(r, k, bits, value=lst_, max_bits=mb)
        other_[0, 0] = pyrtl.Const((1 << bits) - 1, bitwidth=bits)
        other_[r - 1, k - 1] = pyrtl.Const(0, bitwidth=bits)
        lst_[0][k - 1] = pyrtl.Const(1, bitwidth=bits)
        lst_[r - 1] = [pyrtl.Const(0, bitwidth=bits)] * k
        decA = lambda ins: dec(ins['A'], r, k, min(bits, mb))
    else:
        A = mat_in('A', r, k, bits, mb)
        decA = lambda ins: dec(ins['A'], r, k, min(bits, mb))
    two = op in ('add', 'sub', 'mul', 'matmul', 'dot', 'hstack', 'vstack', 'concat0', 'concat1', 'setitem', 'put_matrix')
    if two:
        r2, k2, b2 = c.get('r2', r), c.get('c2', k), c.get('bits2', bits)
        if c.get('same'):
            # the very same Matrix object as the second operand (hstack(a, a), a + a, ...)
            B, decB = A, decA
        else:
            B = mat_in('B', r2, k2, b2, mb)
            decB = lambda ins: dec(ins['B'], r2, k2, min(b2, mb))
    exact = False
    if op == 'add':
        res = A + B
        f = lambda a, b: [[a[i][j] + b[i][j] for j in range(k)] for i in range(r)]
        exact = res.bits < mb
    elif op == 'sub':
        res = A - B
        f = lambda a, b: [[ite(a[i][j] > b[i][j], a[i][j] - b[i][j], 0) for j in range(k)] for i in range(r)]
    elif op == 'mul':
        res = A * B
        f = lambda a, b: [[a[i][j] * b[i][j] for j in range(k)] for i in range(r)]
        exact = res.bits < mb
    elif op == 'mul_scalar':
        s = I(c['sbits'], 's')
        res = A * s
        exact = res.bits < mb
    elif op == 'matmul':
        res = A @ B
        f = lambda a, b: [[_dotsum(a, b, i, j, k) for j in range(k2)] for i in range(r)]
        exact = res.bits < mb
    elif op == 'pow':
        p = c['p']
        res = A ** p
    elif op == 'transpose':
        res = A.transpose()
    elif op == 'reversed':
        res = reversed(A)
    elif op == 'copy':
        res = A.copy()
    elif op == 'getitem':
        key = _key(c['key'])
        res = A[key]
    elif op == 'setitem':
        key = _key(c['key'])
        res = A.copy()
        res[key] = B if (r2, k2) != (1, 1) or c.get('as_matrix') else B[0, 0]
    elif op == 'put':
        res = A.copy()
        vals = [I(bits, 'v%d' % i) for i in range(c['nv'])]
        res.put(c['ind'] if len(c['ind']) != 1 or c.get('listind') else c['ind'][0], vals,
                **({'mode': c['mode']} if c.get('mode') else {}))
    elif op == 'put_matrix':
        res = A.copy()
        res.put(c['ind'], B, **({'mode': c['mode']} if c.get('mode') else {}))
    elif op == 'reshape':
        sh = c['shape']
        if isinstance(sh, list):
            sh2 = [tuple(x) if isinstance(x, list) else x for x in sh]
            res = A.reshape(*sh2, order=c.get('order', 'C'))
        else:
            res = A.reshape(sh, order=c.get('order', 'C'))
    elif op == 'flatten':
        res = A.flatten(c.get('order', 'C'))
    elif op in ('sum', 'min', 'max', 'argmax'):
        fn = getattr(M, op)
        kw = {}
        if c.get('rbits'):
            kw['bits'] = c['rbits']
        res = fn(A, axis=c.get('axis'), **kw)
    elif op == 'dot':
        res = M.dot(A, B)
    elif op == 'hstack':
        res = M.hstack(A, B, A) if c.get('again') else M.hstack(A, B)
    elif op == 'vstack':
        res = M.vstack(A, B, A) if c.get('again') else M.vstack(A, B)
    elif op == 'concat0':
        res = M.concatenate([A, B], axis=0)
    elif op == 'concat1':
        res = M.concatenate([A, B], axis=1)
    elif op == 'to_wv':
        res = A.to_wirevector()
    elif op == 'wv_to_list':
        res = A
    else:
        raise ValueError(op)
    keep = None
    keep2 = None
    form = c.get('form', 'binary')
    if form != 'binary':
        # the in-place operator on A itself; 'inplace_after_view': a copy and a to_wirevector() of A were taken first (the
        # copy must keep the old contents, the operator must see the current ones)
        A2 = mat_in('A', r, k, bits, mb) if False else A
        if form == 'inplace_after_view':
            keep = A.copy()
            A.to_wirevector()
        X = A
        if op == 'add':
            X += B
        elif op == 'sub':
            X -= B
        elif op == 'mul':
            X *= B
        elif op == 'matmul':
            X @= B
        elif op == 'pow':
            X **= c['p']
        else:
            raise ValueError('no in-place form of ' + op)
        res = X
        if op in ('add', 'mul', 'matmul'):
            exact = res.bits < mb

    if form == 'binary' and c.get('mutate_result') and isinstance(res, M.Matrix):
        # results are independent objects: overwriting an element of the result must not change the operand
        # (checked by also observing A afterwards)
        snapshot = [[res[i, j] for j in range(res.columns)] for i in range(res.rows)]
        res[0, 0] = pyrtl.Const((1 << res.bits) - 1, bitwidth=res.bits)
        if res.rows * res.columns > 1:
            res[res.rows - 1, res.columns - 1] = pyrtl.Const(0, bitwidth=res.bits)
        keep = A
        keep2 = B if two else None
        res = M.Matrix(res.rows, res.columns, res.bits, value=snapshot, max_bits=mb)

    def oracle(ins):
        a = decA(ins)
        b = decB(ins) if two else None
        if op in ('add', 'sub', 'mul', 'matmul'):
            lst = f(a, b)
        elif op == 'mul_scalar':
            lst = [[a[i][j] * ins['s'] for j in range(k)] for i in range(r)]
        elif op == 'pow':
            lst = _matpow(a, p, r)
        elif op == 'transpose':
            lst = [[a[i][j] for i in range(r)] for j in range(k)]
        elif op == 'reversed':
            lst = [[a[r - 1 - i][k - 1 - j] for j in range(k)] for i in range(r)]
        elif op in ('copy', 'wv_to_list'):
            lst = a
        elif op == 'getitem':
            lst = _getitem(a, _key(c['key']))
        elif op == 'setitem':
            lst = _setitem(a, _key(c['key']), b)
        elif op == 'put':
            lst = _put(a, c['ind'], [ins['v%d' % i] for i in range(c['nv'])], c.get('mode', 'raise'), r, k)
        elif op == 'put_matrix':
            lst = _put(a, c['ind'], b[0], c.get('mode', 'raise'), r, k)
        elif op in ('reshape', 'flatten'):
            lst = _reshape(a, c.get('shape', -1) if op == 'reshape' else -1, c.get('order', 'C'), r, k)
        elif op in ('sum', 'min', 'max', 'argmax'):
            lst = _reduce(a, op, c.get('axis'), r, k)
        elif op == 'dot':
            lst = _dot(a, b, r, k, r2, k2)
        elif op in ('hstack', 'concat0'):   # concatenate(): "0 is horizontally, 1 is vertically"
            lst = [a[i] + b[i] + (a[i] if c.get('again') else []) for i in range(r)]
        elif op in ('vstack', 'concat1'):
            lst = a + b + (a if c.get('again') else [])
        elif op == 'to_wv':
            v = 0
            for i in range(r):
                for j in range(k):
                    v = (v << min(bits, mb)) | a[i][j]
            return {'e': v}
        _shape_check(res, lst)
        rb = res.bits if isinstance(res, M.Matrix) else len(res)
        if isinstance(lst, list) and not isinstance(res, M.Matrix):
            lst = lst[0][0]
        out = exp_of(lst, rb, exact=exact)
        if keep is not None:
            out.update(exp_of(a, keep.bits, prefix='k'))
        if keep2 is not None:
            out.update(exp_of(b, keep2.bits, prefix='q'))
        return out
    spec = {'outs': outs_of(res), 'oracle': oracle}
    if isinstance(res, M.Matrix):
        spec['widths'] = {n: res.bits for n in spec['outs']}
    if keep is not None:
        spec['outs'].update(outs_of(keep, prefix='k'))
    if keep2 is not None:
        spec['outs'].update(outs_of(keep2, prefix='q'))
    return spec


def _dotsum(a, b, i, j, k):
    s = 0
    for t in range(k):
        s = s + a[i][t] * b[t][j]
    return s


def _matpow(a, p, n):
    if p == 0:
        return [[1 if i == j else 0 for j in range(n)] for i in range(n)]
    res = a
    for _ in range(p - 1):
        res = [[_dotsum(res, a, i, j, n) for j in range(n)] for i in range(n)]
    return res


def _key(k):
    def one(x):
        if isinstance(x, list):
            return slice(*x)
        return x
    if isinstance(k, dict):
        return tuple(one(x) for x in k['t'])
    return one(k)


def _getitem(a, key):
    if isinstance(key, tuple):
        rk, ck = key
        rows = a[rk] if isinstance(rk, slice) else [a[rk]]
        out = [row[ck] if isinstance(ck, slice) else [row[ck]] for row in rows]
        if len(out) == 1 and len(out[0]) == 1:
            return out[0][0]
        return out
    rows = a[key] if isinstance(key, slice) else [a[key]]
    return [list(r) for r in rows]


def _setitem(a, key, b):
    out = [list(r) for r in a]
    R, C = len(a), len(a[0])
    if isinstance(key, tuple):
        rk, ck = key
    else:
        rk, ck = key, slice(None)
    ri = list(range(R))[rk] if isinstance(rk, slice) else [range(R)[rk]]
    ci = list(range(C))[ck] if isinstance(ck, slice) else [range(C)[ck]]
    for x, i in enumerate(ri):
        for y, j in enumerate(ci):
            out[i][j] = b[x][y]
    return out


def _put(a, ind, vals, mode, R, C):
    out = [list(r) for r in a]
    count = R * C
    for vi, ix in enumerate(ind):
        if ix < 0:
            ix = count - abs(ix)
        if ix < 0 or ix >= count:
            if mode == 'wrap':
                ix = ix % count
            elif mode == 'clip':
                ix = 0 if ix < 0 else count - 1
        v = vals[vi] if vi < len(vals) else vals[-1]
        out[ix // C][ix % C] = v
    return out


def _reshape(a, shape, order, R, C):
    count = R * C
    flat = [a[i][j] for i in range(R) for j in range(C)] if order == 'C' else [a[i][j] for j in range(C) for i in range(R)]
    if isinstance(shape, int):
        shape = (1, count if shape == -1 else shape)
    shape = list(shape)
    if len(shape) == 1 and isinstance(shape[0], (list, tuple)):
        shape = list(shape[0])
    if len(shape) == 1:
        shape = [1, shape[0]]
    rows, cols = shape
    if rows == -1:
        rows = count // cols
    if cols == -1:
        cols = count // rows
    if order == 'C':
        return [[flat[i * cols + j] for j in range(cols)] for i in range(rows)]
    return [[flat[j * rows + i] for j in range(cols)] for i in range(rows)]


def _reduce(a, op, axis, R, C):
    def red(vals):
        if op == 'sum':
            s = 0
            for v in vals:
                s = s + v
            return s
        if op == 'min':
            m = vals[0]
            for v in vals[1:]:
                m = _smin(m, v)
            return m
        mx = vals[0]
        for v in vals[1:]:
            mx = _smax(mx, v)
        if op == 'max':
            return mx
        idx = len(vals) - 1
        for i in range(len(vals) - 2, -1, -1):
            idx = ite(vals[i] == mx, i, idx)
        return idx
    if axis is None:
        return red([a[i][j] for i in range(R) for j in range(C)])
    if axis == 0:
        return [[red([a[i][j] for i in range(R)]) for j in range(C)]]
    return [[red([a[i][j] for j in range(C)]) for i in range(R)]]


def _dot(a, b, r, k, r2, k2):
    if (r == 1 and k == 1) or (r2 == 1 and k2 == 1):
        if r == 1 and k == 1:
            return [[a[0][0] * b[i][j] for j in range(k2)] for i in range(r2)]
        return [[a[i][j] * b[0][0] for j in range(k)] for i in range(r)]
    if r == 1 or k == 1:
        if r2 == 1 or k2 == 1:
            fa = [a[i][j] for i in range(r) for j in range(k)]
            fb = [b[i][j] for i in range(r2) for j in range(k2)]
            s = 0
            for x, y in zip(fa, fb):
                s = s + x * y
            return s
    return [[_dotsum(a, b, i, j, k) for j in range(k2)] for i in range(r)]


def bounds(tier):
    return {'shapes': '<= 3x3 (quick) / 4x4 (thorough)', 'element widths': [1, 2, 3, 4, 8], 'matmul/dot/pow': 'products of <= 3-bit '
            'elements (quick: 2x2 and 3x3 at 2 bits), power <= 3', 'max_bits': ['default 64', 'small (reached)']}


def cases(tier, seed):
    out = []
    shapes = [(1, 1), (1, 3), (2, 2), (2, 3), (3, 2), (3, 3)] + ([(4, 4), (1, 4), (4, 1), (3, 4)] if tier != 'quick' else [])
    for (r, k) in shapes:
        for bits, b2 in ((2, 2), (3, 1), (1, 4), (4, 4)) + (((8, 3), (8, 8)) if tier != 'quick' else ((8, 3),)):
            for op in ('add', 'sub', 'mul'):
                if op == 'mul' and bits + b2 > 8 and r * k > 4:
                    continue
                out.append({'op': op, 'r': r, 'c': k, 'bits': bits, 'bits2': b2})
                out.append({'op': op, 'r': r, 'c': k, 'bits': bits, 'bits2': b2, 'max_bits': max(bits, b2)})
        for sb in (1, 3):
            out.append({'op': 'mul_scalar', 'r': r, 'c': k, 'bits': 3, 'sbits': sb})
        for op in ('transpose', 'reversed', 'copy', 'to_wv', 'wv_to_list'):
            out.append({'op': op, 'r': r, 'c': k, 'bits': 3})
            out.append({'op': op, 'r': r, 'c': k, 'bits': 3, 'ctor': 'partial'})
        for op in ('add', 'mul', 'hstack', 'vstack'):
            out.append({'op': op, 'r': r, 'c': k, 'bits': 2, 'bits2': 2, 'ctor': 'partial'})
            out.append({'op': op, 'r': r, 'c': k, 'bits': 2, 'bits2': 2, 'same': True})
        for op in ('hstack', 'vstack', 'concat0', 'concat1'):
            out.append({'op': op, 'r': r, 'c': k, 'bits': 2, 'bits2': 2, 'again': True} if op in ('hstack', 'vstack') else
                       {'op': op, 'r': r, 'c': k, 'bits': 2, 'bits2': 2, 'same': True})
        for op in ('copy', 'to_wv', 'transpose'):
            out.append({'op': op, 'r': r, 'c': k, 'bits': 3, 'ctor': 'list_shared'})
        if r == k:
            out.append({'op': 'pow', 'r': r, 'c': k, 'bits': 2, 'p': 1, 'ctor': 'partial'})
            if r <= 2:
                out.append({'op': 'pow', 'r': r, 'c': k, 'bits': 2, 'p': 2, 'ctor': 'partial'})
        for op in ('sum', 'min', 'max', 'argmax'):
            for axis in (None, 0, 1):
                out.append({'op': op, 'r': r, 'c': k, 'bits': 3, 'axis': axis})
                if op == 'sum':
                    out.append({'op': op, 'r': r, 'c': k, 'bits': 2, 'axis': axis, 'rbits': 6})
                if op == 'argmax':
                    # `bits` sizes the returned indices (narrower and wider than the elements)
                    out.append({'op': op, 'r': r, 'c': k, 'bits': 3, 'axis': axis, 'rbits': 2})
                    out.append({'op': op, 'r': r, 'c': k, 'bits': 2, 'axis': axis, 'rbits': 5})
                if op in ('min', 'max'):
                    out.append({'op': op, 'r': r, 'c': k, 'bits': 2, 'axis': axis, 'rbits': 5})
                    # a result narrower than the elements: the value is truncated once, at the end
                    out.append({'op': op, 'r': r, 'c': k, 'bits': 4, 'axis': axis, 'rbits': 3})
                    out.append({'op': op, 'r': r, 'c': k, 'bits': 3, 'axis': axis, 'rbits': 1})
        for order in 'CF':
            out.append({'op': 'flatten', 'r': r, 'c': k, 'bits': 3, 'order': order})
            for shape in (-1, r * k, [k, r], [-1, r], [k, -1], [[k, r]], [r * k, 1]):
                out.append({'op': 'reshape', 'r': r, 'c': k, 'bits': 3, 'order': order, 'shape': shape})
        # indexing
        keys = [0, -1, [0, 1], [None, None], [-1, None]]
        for i in range(-r, r):
            for j in range(-k, k):
                keys.append({'t': [i, j]})
        keys += [{'t': [[None, None], -1]}, {'t': [0, [None, None]]}, {'t': [[0, 1], [0, k]]}, {'t': [[-1, None], [None, -1 if k > 1 else None]]}]
        for key in keys:
            out.append({'op': 'getitem', 'r': r, 'c': k, 'bits': 3, 'key': key})
        out.append({'op': 'setitem', 'r': r, 'c': k, 'bits': 3, 'key': {'t': [0, 0]}, 'r2': 1, 'c2': 1, 'bits2': 3})
        out.append({'op': 'setitem', 'r': r, 'c': k, 'bits': 3, 'key': {'t': [-1, -1]}, 'r2': 1, 'c2': 1, 'bits2': 2})
        out.append({'op': 'setitem', 'r': r, 'c': k, 'bits': 3, 'key': 0, 'r2': 1, 'c2': k, 'bits2': 3})
        out.append({'op': 'setitem', 'r': r, 'c': k, 'bits': 3, 'key': [None, None], 'r2': r, 'c2': k, 'bits2': 3})
        if k > 1:
            out.append({'op': 'setitem', 'r': r, 'c': k, 'bits': 3, 'key': {'t': [[None, None], [1, None]]}, 'r2': r, 'c2': k - 1, 'bits2': 3})
        n = r * k
        for ind, nv, mode in (([0], 1, None), ([n - 1, 0], 2, None), ([-1], 1, None), ([0, 1 % n, n - 1], 1, None),
                              ([n, -n - 1], 2, 'wrap'), ([n + 3, -n - 2], 2, 'clip'), ([n], 1, 'raise')):
            c = {'op': 'put', 'r': r, 'c': k, 'bits': 3, 'ind': ind, 'nv': nv, 'listind': True}
            if mode:
                c['mode'] = mode
            if mode == 'raise':
                c['expect_error'] = True
            out.append(c)
        out.append({'op': 'put_matrix', 'r': r, 'c': k, 'bits': 3, 'ind': [0, n - 1], 'r2': 1, 'c2': 2, 'bits2': 3})
        if n >= 3:      # a value row-vector shorter than the index list (its last value repeats) and a longer one
            out.append({'op': 'put_matrix', 'r': r, 'c': k, 'bits': 3, 'ind': [0, n - 1, 1], 'r2': 1, 'c2': 2, 'bits2': 3})
            out.append({'op': 'put_matrix', 'r': r, 'c': k, 'bits': 3, 'ind': [n - 2], 'r2': 1, 'c2': 3, 'bits2': 2})
        out.append({'op': 'hstack', 'r': r, 'c': k, 'bits': 3, 'r2': r, 'c2': 2, 'bits2': 3})
        out.append({'op': 'vstack', 'r': r, 'c': k, 'bits': 3, 'r2': 2, 'c2': k, 'bits2': 3})
        out.append({'op': 'concat1', 'r': r, 'c': k, 'bits': 3, 'r2': 1, 'c2': k, 'bits2': 3})
        out.append({'op': 'concat0', 'r': r, 'c': k, 'bits': 3, 'r2': r, 'c2': 1, 'bits2': 3})
    # products
    mm = [((1, 2), (2, 1), 3, 3), ((2, 2), (2, 2), 2, 2), ((2, 2), (2, 2), 3, 2), ((2, 3), (3, 2), 2, 2), ((3, 3), (3, 3), 2, 1),
          ((1, 3), (3, 1), 3, 3), ((3, 1), (1, 3), 2, 3)]
    if tier != 'quick':
        mm += [((3, 3), (3, 3), 2, 2), ((3, 3), (3, 3), 3, 3), ((2, 4), (4, 2), 2, 2), ((4, 4), (4, 4), 1, 2), ((3, 2), (2, 3), 4, 4)]
    for (r, k), (r2, k2), b1, b2 in mm:
        out.append({'op': 'matmul', 'r': r, 'c': k, 'bits': b1, 'r2': r2, 'c2': k2, 'bits2': b2})
        out.append({'op': 'dot', 'r': r, 'c': k, 'bits': b1, 'r2': r2, 'c2': k2, 'bits2': b2})
    out.append({'op': 'matmul', 'r': 2, 'c': 2, 'bits': 3, 'r2': 2, 'c2': 2, 'bits2': 3, 'max_bits': 5})
    # wide single products: the final carry-propagate adder of the fused multiply-add gets a non-power-of-two width and long
    # carry chains (only a handful of the 2^16 operand pairs of an 8x8-bit product exercise its last prefix level)
    for b1, b2 in ((5, 5), (6, 7), (8, 8), (7, 3)):
        out.append({'op': 'matmul', 'r': 1, 'c': 1, 'bits': b1, 'r2': 1, 'c2': 1, 'bits2': b2})
    out.append({'op': 'matmul', 'r': 2, 'c': 1, 'bits': 8, 'r2': 1, 'c2': 2, 'bits2': 8})
    out.append({'op': 'dot', 'r': 1, 'c': 1, 'bits': 8, 'r2': 1, 'c2': 1, 'bits2': 8})
    out.append({'op': 'pow', 'r': 1, 'c': 1, 'bits': 8, 'p': 2})
    out.append({'op': 'matmul', 'r': 1, 'c': 2, 'bits': 4, 'r2': 2, 'c2': 1, 'bits2': 4, 'max_bits': 7})
    for (r, k) in ((2, 2), (1, 3)):
        for op, extra in (('pow', {'p': 1}), ('pow', {'p': 0}), ('pow', {'p': 2}), ('transpose', {}), ('copy', {}), ('reversed', {}),
                          ('flatten', {'order': 'C'}), ('reshape', {'shape': -1, 'order': 'C'}), ('getitem', {'key': [None, None]}),
                          ('add', {'bits2': 2}), ('sub', {'bits2': 2}), ('mul', {'bits2': 1}), ('matmul', {'r2': k, 'c2': 2, 'bits2': 1})):
            if op in ('pow',) and r != k:
                continue
            if op == 'matmul' and False:
                continue
            out.append(dict({'op': op, 'r': r, 'c': k, 'bits': 2, 'mutate_result': True}, **extra))
    # stacking: the stacked matrix and its operands are independent afterwards
    for op, extra in (('hstack', {'r2': 2, 'c2': 1}), ('vstack', {'r2': 1, 'c2': 2}), ('concat0', {'r2': 2, 'c2': 1}), ('concat1', {'r2': 1, 'c2': 2})):
        out.append(dict({'op': op, 'r': 2, 'c': 2, 'bits': 2, 'bits2': 2, 'mutate_result': True}, **extra))
    # a vector reshaped into a proper matrix, both orders (and back)
    for (r, k) in ((1, 4), (4, 1), (1, 6), (6, 1)):
        for order in 'CF':
            for shape in ([2, r * k // 2], [r * k // 2, 2], [k, r]):
                out.append({'op': 'reshape', 'r': r, 'c': k, 'bits': 3, 'order': order, 'shape': shape})
    for form in ('inplace', 'inplace_after_view'):
        for (r, k) in ((1, 1), (2, 2), (2, 3)):
            for bits, b2 in ((3, 3), (3, 2), (2, 4)):
                for op in ('add', 'sub', 'mul'):
                    out.append({'op': op, 'r': r, 'c': k, 'bits': bits, 'bits2': b2, 'form': form})
        out.append({'op': 'matmul', 'r': 2, 'c': 2, 'bits': 2, 'r2': 2, 'c2': 2, 'bits2': 2, 'form': form})
        out.append({'op': 'matmul', 'r': 1, 'c': 2, 'bits': 2, 'r2': 2, 'c2': 2, 'bits2': 3, 'form': form})
        # `a @= b` whose result has another shape than a (fewer / more columns): the statement rebinds a to what __imatmul__ returns
        for (r, k), (r2, k2) in (((2, 3), (3, 2)), ((2, 2), (2, 3)), ((1, 3), (3, 1)), ((2, 1), (1, 3))):
            out.append({'op': 'matmul', 'r': r, 'c': k, 'bits': 2, 'r2': r2, 'c2': k2, 'bits2': 2, 'form': form})
        out.append({'op': 'pow', 'r': 2, 'c': 2, 'bits': 2, 'p': 2, 'form': form})
        out.append({'op': 'pow', 'r': 2, 'c': 2, 'bits': 2, 'p': 0, 'form': form})
    for (r, k), (r2, k2) in (((1, 3), (1, 3)), ((3, 1), (3, 1)), ((1, 1), (2, 3)), ((2, 2), (1, 1)), ((1, 3), (3, 1)), ((3, 1), (1, 3)),
                             # a 1x1 Matrix is a scalar, also next to a row or column vector
                             ((1, 1), (1, 3)), ((1, 1), (3, 1)), ((1, 3), (1, 1)), ((3, 1), (1, 1)), ((1, 2), (1, 1)), ((1, 1), (2, 1))):
        out.append({'op': 'dot', 'r': r, 'c': k, 'bits': 2, 'r2': r2, 'c2': k2, 'bits2': 3})
    for n, b, p in ((1, 3, 3), (2, 2, 0), (2, 2, 1), (2, 2, 2), (2, 1, 3), (3, 1, 2)) + (((2, 2, 3), (3, 2, 2)) if tier != 'quick' else ()):
        out.append({'op': 'pow', 'r': n, 'c': n, 'bits': b, 'p': p})
    return out


def site_of(c):
    return 'C19:%s%s%s' % (c['op'], ':' + c['form'] if c.get('form') else '', ':mutate-result' if c.get('mutate_result') else '')


def run_case(case, ob, tier):
    gencheck.check_item(ob, case, item, site_of(case))


def replay(cex):
    return gencheck.replay_item(cex, item)
