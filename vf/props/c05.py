"""C05 — exported Verilog (module and testbench) reproduces the simulation.

Real code: output_to_verilog and _to_verilog_*, _VerilogSanitizer, output_verilog_testbench, SimulationTrace._set_initial_values
and the three simulators' recording of initial state run concretely/symbolically; the emitted text is given meaning by
vf/vtrans.py (Verilog-2001 width and non-blocking rules) and compared with the real Simulation on shared variables."""
import io
import contextlib
import re
import z3
import pyrtl
from .. import designs, simdrv, sym, vtrans, concrete
from ..simdrv import Vars, run_sim, sym_env, CompiledModel, run_compiled
from ..sym import SymInt, SymMem, to_bv

PROP = 'C05'
LEVEL = 'translation_validation'
TIMEOUT_MS = {'quick': 60000, 'thorough': 300000}
ASSUMPTIONS = [
    'vf/vtrans.py is the independent evaluator of the emitted Verilog subset (no Verilog simulator exists in the sandbox); unsized decimal '
    'literals are exact integers (most permissive reading of the >= 32-bit rule)',
    'module ports / registers are matched to PyRTL wires by name, or by their unique (direction, bitwidth) signature when the name needed '
    'sanitising (the NAMES designs give every wire a distinct width)',
    'module: registers start at their reset values (else 0), memories arbitrary (same array on both sides), ROMs per initial block, rst=0; plus '
    'one rst=1 step from arbitrary register state',
    'testbench: traced inputs are symbolic (placeholders parsed back into terms); initial register/memory values are concrete boundary values '
    '(C-level %d formatting); the module driven by the parsed testbench must reproduce the traced Outputs',
    'two enabled writes to one address in a cycle excluded (undefined)',
]
RESETS = [True, False, 'asynchronous']


def build_names(d):
    """wires with adversarial but legal names; every I/O wire and register has a distinct width"""
    k = d['kind']
    sets = {
        'keywords': ['module', 'reg', 'wire', 'always'],
        'clk': ['clk', 'x', 'y', 'z'],
        'illegal_chars': ['q%', 'a.b', 'p', 'w'],
        'brackets': ['d[2]', 'd[10]', 'e', 'f'],
        'collide_tmp': ['_ver_out_tmp_0', 'q%', 'u', 'v'],
        'two_bad': ['1st', '2nd', 'ok', 'fine'],
        'sortkey_tie': ['a1', 'a01', 'b', 'c'],
        'plain': ['in0', 'in1', 'st', 'res'],
        'keywords2': ['noshowcancelled', 'rcmos', 'pulsestyle_onevent', 'pulsestyle_ondetect'],
        'keywords3': ['automatic', 'genvar', 'endgenerate', 'xnor'],
        'unicode': ['gr\u00f6\u00dfe', 'z\u00e4hler', 'na\u00efve_sum', 'out_\u00e9'],
        'dollar': ['a$b', '$x', 'c$', 'd'],
        'own_names': ['tb_iter', 'block', 'toplevel', 'mem_0'],
        'whitespace': ['a', 'a\n', 'r\t', 'o '],
        'mem_newline': ['a', 'b', 'r', 'o'],
        'newline_mid': ['x\ny', 'x', 'y', 'x y'],
    }
    if k.startswith('kw:'):
        # every reserved word of Verilog-2001 (the list vf/vtrans.py checks identifiers against), four at a time
        from .. import vtrans
        kws = sorted(vtrans.RESERVED)
        i0 = 4 * int(k[3:])
        sets[k] = [kws[(i0 + j) % len(kws)] for j in range(4)]
    n0, n1, n2, n3 = sets[k]
    a = pyrtl.Input(2, n0)
    b = pyrtl.Input(3, n1)
    r = pyrtl.Register(4, n2, reset_value=d.get('rv', 5))
    o = pyrtl.Output(5, n3)
    r.next <<= (r + a)[0:4] ^ b
    if k == 'mem_newline':
        # the NAME of a memory is free text as well: one with a line break in it (memory names end up in comments)
        m = pyrtl.MemBlock(bitwidth=5, addrwidth=2, name='buf\n    assign o = 0; // ', asynchronous=True)
        m[a] <<= pyrtl.concat(r[0], r)
        o <<= m[a] + b
    elif k == 'own_names':
        # a memory too: its generated array is called mem_<id>, which one of the wires is already called
        m = pyrtl.MemBlock(bitwidth=5, addrwidth=2, name='m', asynchronous=True)
        m[a] <<= pyrtl.concat(r[0], r)
        o <<= m[a] + b
    else:
        o <<= pyrtl.concat(r[0], r) + b
    return pyrtl.working_block()


designs.register_family('NAMES', build_names)


def names_cases():
    from .. import vtrans
    return [{'fam': 'NAMES', 'kind': 'kw:%d' % i} for i in range((len(vtrans.RESERVED) + 3) // 4)] + [{'fam': 'NAMES', 'kind': k} for k in ('keywords', 'illegal_chars', 'brackets', 'collide_tmp', 'two_bad', 'sortkey_tie', 'plain',
                                                     'keywords2', 'keywords3', 'unicode', 'dollar', 'own_names', 'whitespace', 'newline_mid', 'mem_newline')]


def bounds(tier):
    return {'designs': 'OP (all ops but nand) widths %s, EXPR %d, SEQ, MISC, NAMES (15 adversarial name sets)' % (
        [1, 2, 3, 4, 5, 8] if tier == 'quick' else designs.WT, 20 if tier == 'quick' else 400), 'K': 3 if tier == 'quick' else 5,
        'add_reset': RESETS, 'testbench trace sources': ['sim', 'fast', 'compiled']}


def exportable(block):
    return not any(n.op == 'n' for n in block.logic)


def cases(tier, seed):
    out = []
    K = 3 if tier == 'quick' else 5
    W = [1, 2, 3, 4, 5, 8] if tier == 'quick' else designs.WT
    base = designs.op_cases(W, ops='w~&|^+-<>=xcsm', mul_max=0) + designs.op_cases([1, 2, 3, 4, 8, 16], ops='*', mul_max=16)
    base += designs.op_cases([1, 3, 8] + ([40, 65] if tier != 'quick' else []), ops='w+-', dests=('reg',))
    base += [dict(c, reset=(1 << c['wd']) - 1) for c in designs.op_cases([3, 8, 40], ops='w', dests=('reg',))]
    base += designs.seq_cases(widths=(1, 4) if tier == 'quick' else (1, 4, 8, 65))
    base += designs.misc_cases() + names_cases() + designs.carg_cases((1, 3))
    base += designs.expr_cases(20 if tier == 'quick' else 400, seed + 41, n=7, maxw=6, ops=['+', '-', '*', '&', '|', '^', '~', '<', '>', '=', 'x', 'c', 's', 'trunc', 'const'])
    base += [{'fam': 'MEM', 'aw': 2, 'bw': 4, 'nr': 2, 'nw': 2}, {'fam': 'MEM', 'aw': 3, 'bw': 70, 'nr': 1, 'nw': 1, 'read_own_write': True},
             {'fam': 'ROM', 'aw': 3, 'bw': 5, 'data': 'list', 'nr': 2}, {'fam': 'ROM', 'aw': 2, 'bw': 40, 'data': 'func', 'nr': 1},
             {'fam': 'ROM', 'aw': 3, 'bw': 5, 'data': 'short_list', 'missing': 3, 'pad': True, 'nr': 1},
             {'fam': 'ROM', 'aw': 3, 'bw': 5, 'data': 'sparse_dict', 'pad': True, 'nr': 1},
             {'fam': 'ROM', 'aw': 3, 'bw': 5, 'data': 'dict', 'nr': 1}, {'fam': 'MISC', 'kind': 'rom_sparse_pad'}]
    base.append({'fam': 'BIGCONST'})
    for i, c in enumerate(base):
        for ar in (RESETS if (c['fam'] in ('NAMES', 'SEQ', 'MISC') or c.get('dest') == 'reg') else [RESETS[i % 3]]):
            out.append(dict(c, k='module', K=K, add_reset=ar, wb=WB[(len(out)) % 3]))
    tb_base = designs.seq_cases(widths=(4,)) + names_cases() + designs.expr_cases(8 if tier == 'quick' else 160, seed + 43, n=6, maxw=5,
                                                                                 ops=['+', '-', '&', '|', '^', '~', '<', 'x', 'c', 's', 'trunc', 'const'])
    tb_base += [{'fam': 'MEM', 'aw': 2, 'bw': 4, 'nr': 1, 'nw': 1}, {'fam': 'ROM', 'aw': 2, 'bw': 5, 'data': 'list', 'nr': 1}]
    # a memory that is only read (a preloaded table): its contents come from memory_value_map alone
    tb_base += [{'fam': 'MEM', 'aw': 2, 'bw': 4, 'nr': 2, 'nw': 0}]
    for i, c in enumerate(tb_base):
        for simk in ('sim', 'fast', 'compiled'):
            out.append(dict(c, k='testbench', K=2, add_reset=RESETS[i % 3], sim=simk, init=['zero', 'ones', 'alt'][i % 3], wb=WB[(len(out)) % 3]))
    # a non-zero default_value: registers without reset value and unlisted memory words start from it (CompiledSimulation leaves
    # its memories at 0, the documented exception): the testbench must start from what that simulator started from
    for c in [{'fam': 'MEM', 'aw': 2, 'bw': 4, 'nr': 1, 'nw': 1}] + [c_ for c_ in designs.seq_cases(widths=(4,)) if c_['kind'] in ('counter', 'mem_rdw', 'chain')]:
        for simk in ('sim', 'fast', 'compiled'):
            out.append(dict(c, k='testbench', K=2, add_reset=False, sim=simk, init='dflt', dv=1, wb='same'))
    # a trace without any step yet is a trace too: the testbench still starts from the state the simulation started from
    for simk in ('sim', 'fast', 'compiled'):
        out.append({'fam': 'SEQ', 'kind': 'counter', 'w': 4, 'k': 'testbench', 'K': 0, 'add_reset': False, 'sim': simk, 'init': 'ones', 'wb': 'same'})
        out.append({'fam': 'MEM', 'aw': 2, 'bw': 4, 'nr': 1, 'nw': 1, 'k': 'testbench', 'K': 0, 'add_reset': False, 'sim': simk, 'init': 'ones', 'wb': 'same'})
    # memories with initial contents at both ends of the address space, small and large (the emitter may treat big memories apart)
    for aw in (1, 5, 16, 17):
        for j, simk in enumerate(('sim', 'fast', 'compiled')):
            if aw >= 16 and tier == 'quick' and j != aw % 3:
                continue
            out.append({'fam': 'MEM', 'aw': aw, 'bw': 4, 'nr': 1, 'nw': 1, 'k': 'testbench', 'K': 2, 'add_reset': False, 'sim': simk,
                        'init': ('ones', 'alt')[aw % 2], 'wb': 'same'})
    return out


def build_bigconst(d):
    a = pyrtl.Input(40, 'a')
    o = pyrtl.Output(41, 'o')
    o <<= a + pyrtl.Const((1 << 36) + 5, bitwidth=40)
    o2 = pyrtl.Output(1, 'o2')
    o2 <<= a > pyrtl.Const(1 << 33, bitwidth=40)
    return pyrtl.working_block()


designs.register_family('BIGCONST', build_bigconst)
from . import c08 as _c08   # noqa: E402  (registers the MEM / ROM families)


def site_of(c):
    d = c.get('kind') or c.get('op') or c['fam']
    return 'C05:%s(add_reset=%s%s):%s:%s' % (c['k'], c['add_reset'], (',' + c['sim']) if c['k'] == 'testbench' else '', c['fam'], d)


WB = ['same', 'foreign', 'implicit']


@contextlib.contextmanager
def wb_mode(block, mode):
    """how the exporter is invoked: the block is the working block and passed as block= ('same'), passed as block= while an
    unrelated block is the working block ('foreign'), or the working block with no block argument ('implicit')"""
    if mode == 'foreign':
        from . import c11
        decoy = c11.decoy_block()
        with pyrtl.set_working_block(decoy, no_sanity_check=True):
            yield {'block': block}
    else:
        with pyrtl.set_working_block(block, no_sanity_check=True):
            yield ({} if mode == 'implicit' else {'block': block})


def export(block, add_reset, mode='same'):
    buf = io.StringIO()
    with wb_mode(block, mode) as kw:
        pyrtl.output_to_verilog(buf, add_reset=add_reset, **kw)
    return buf.getvalue()


def match_ports(block, mod):
    """{pyrtl wire name: verilog identifier} for inputs, outputs and registers"""
    mp = {}
    for cls, decl in ((pyrtl.Input, mod.inputs), (pyrtl.Output, mod.outputs), (pyrtl.Register, mod.regs)):
        wires = sorted(block.wirevector_subset(cls), key=lambda w: w.name)
        free = dict(decl)
        rest = []
        for w in wires:
            if w.name in free and free[w.name] == w.bitwidth:
                mp[w.name] = w.name
                del free[w.name]
            else:
                rest.append(w)
        for w in rest:
            cands = [n for n, width in free.items() if width == w.bitwidth]
            same_width = [x for x in rest if x.bitwidth == w.bitwidth]
            if len(cands) != 1 or len(same_width) != 1:
                return None, 'cannot match %s %r (%d bits) to a declared identifier: candidates %r' % (cls.__name__, w.name, w.bitwidth, cands)
            mp[w.name] = cands[0]
            del free[cands[0]]
        if free:
            return None, 'module declares extra %s identifiers %r' % (cls.__name__, sorted(free))
    return mp, None


def mem_names(block):
    out = {}
    for net in block.logic_subset('m@'):
        m = net.op_param[1]
        out['mem_%d' % m.id] = m
    return out


def run_module(case, ob, site):
    block = designs.build(case)
    if not exportable(block):
        return ob.fact('skipped-nand', True)
    ar = case['add_reset']
    try:
        text = export(block, ar, case.get('wb', 'same'))
    except Exception as e:
        return ob.fact('output_to_verilog-accepts-design', False, site + ':raises', detail='%s: %s' % (type(e).__name__, e))
    try:
        mod = vtrans.Module(text)
    except vtrans.VTransError as e:
        return ob.fact('emitted-module-is-well-formed', False, site + ':malformed', detail=str(e))
    ob.fact('reset-port-present-iff-requested', mod.has_rst == bool(ar), site + ':rst-port')
    mp, err = match_ports(block, mod)
    if mp is None:
        return ob.fact('ports-match-the-design', False, site + ':ports', detail=err)
    K = case['K']
    v = Vars()
    from .. import spec
    sp = spec.run(block, K, v, reg_init='reset', mem_init='sym')
    assume = [z3.Not(d) for d in sp.double_write]
    with sym_env([block]):
        rs = run_sim(block, K, v, kind='sim', reg_init='reset', mem_init='sym', track='io', assumptions=assume)
    ob.paths += len(rs)
    mems_by_v = mem_names(block)
    regs = {mp[r.name]: z3.BitVecVal(r.reset_value or 0, r.bitwidth) for r in block.wirevector_subset(pyrtl.Register)}
    vmems = mod.initial_mems(lambda name, aw, w: v.mem(mems_by_v[name].name, aw, w))
    outs_per_cycle = []
    rst0 = z3.BitVecVal(0, 1) if mod.has_rst else None
    try:
        for t in range(K):
            ins = {mp[w.name]: v.inp(w.name, t, w.bitwidth) for w in block.wirevector_subset(pyrtl.Input)}
            env, regs, vmems = mod.step(ins, regs, vmems, rst=rst0)
            outs_per_cycle.append(env)
    except vtrans.VTransError as e:
        return ob.fact('emitted-module-is-well-formed', False, site + ':malformed', detail=str(e))
    for r in rs:
        if r.exc is not None:
            ob.prove('Simulation-no-exception', z3.Not(r.cond()), assume, v, site=site + ':exception')
            continue
        goals = []
        for w in sorted(block.wirevector_subset(pyrtl.Output), key=lambda w: w.name):
            for t in range(K):
                goals.append(('out:%s@%d' % (w.name, t), to_bv(r.trace[w.name][t], w.bitwidth) == outs_per_cycle[t][mp[w.name]], site + ':output'))
        for vname, m in mems_by_v.items():
            if m.name in r.mems:
                qa = z3.BitVec('qaddr', m.addrwidth)
                goals.append(('mem:%s[all addresses]' % m.name, z3.Select(r.mems[m.name], qa) == z3.Select(vmems[vname], qa), site + ':mem'))
        for reg in block.wirevector_subset(pyrtl.Register):
            goals.append(('reg-next:%s' % reg.name, to_bv(r.regs_next[reg.name], reg.bitwidth) == regs[mp[reg.name]], site + ':reg'))
        ob.prove_all(goals, assume + r.pc, v)
    # reset step: from an arbitrary register state, one edge with rst=1 loads every reset value
    if mod.has_rst and mod.regs:
        v2 = Vars('rs_')
        regs2 = {mp[r.name]: v2.reg(r.name, r.bitwidth) for r in block.wirevector_subset(pyrtl.Register)}
        vm2 = mod.initial_mems(lambda name, aw, w: v2.mem(mems_by_v[name].name, aw, w))
        ins = {mp[w.name]: v2.inp(w.name, 0, w.bitwidth) for w in block.wirevector_subset(pyrtl.Input)}
        env, nregs, _ = mod.step(ins, regs2, vm2, rst=z3.BitVecVal(1, 1))
        for reg in block.wirevector_subset(pyrtl.Register):
            ob.prove('rst-loads-reset-value:%s' % reg.name, nregs[mp[reg.name]] == z3.BitVecVal(reg.reset_value or 0, reg.bitwidth), [], v2,
                     site=site + ':reset')


def init_values(case, block):
    kind = case.get('init', 'zero')
    regs, mems = {}, {}
    if kind == 'dflt':      # nothing given for the registers, one word per memory: everything else comes from default_value
        for mid, mem in simdrv.mems_of(block).items():
            mems[mem.name] = {0: 0}
        return regs, mems
    for r in block.wirevector_subset(pyrtl.Register):
        m = r.bitmask
        regs[r.name] = {'zero': 0, 'ones': m, 'alt': 0xAAAAAAAAAAAAAAAAAAAAAAAA & m}[kind]
        if kind == 'alt' and r.reset_value is not None:
            del regs[r.name]        # let the declared reset value apply
    for mid, mem in simdrv.mems_of(block).items():
        m = (1 << mem.bitwidth) - 1
        n = 1 << mem.addrwidth
        mems[mem.name] = {'zero': {}, 'ones': {0: m, n - 1: 1}, 'alt': {a: (5 * (a + 1)) & m for a in range(min(n, 3))}}[kind]
    return regs, mems


class _Trace(object):
    pc = []
    exc = None


def concrete_tb_run(block, kind, K, regs0, mems0, inputs_of, dv=0):
    """the real simulator on plain ints and plain dicts (replay): returns (tracer, trace-holder)"""
    tracked = sorted(block.wirevector_subset((pyrtl.Input, pyrtl.Output)), key=lambda w: w.name)
    tracer = pyrtl.SimulationTrace(wires_to_track=tracked, block=block)
    rmap = {r: regs0[r.name] for r in block.wirevector_subset(pyrtl.Register) if r.name in regs0}
    mmap = {m: dict(mems0[m.name]) for m in simdrv.mems_of(block).values() if m.name in mems0 and not isinstance(m, pyrtl.RomBlock)}
    cls = {'sim': pyrtl.Simulation, 'fast': pyrtl.FastSimulation, 'compiled': pyrtl.CompiledSimulation}[kind]
    sim = cls(tracer=tracer, register_value_map=rmap, memory_value_map=mmap, default_value=dv, block=block)
    for t in range(K):
        sim.step({w.name: inputs_of(w, t) for w in block.wirevector_subset(pyrtl.Input)})
    r = _Trace()
    r.trace = {w.name: list(tracer.trace[w.name]) for w in tracked}
    return tracer, r


def run_testbench(case, ob, site, concrete_inputs=None):
    block = designs.build(case)
    if not exportable(block):
        return ob.fact('skipped-nand', True)
    ar, K, kind = case['add_reset'], case['K'], case['sim']
    regs0, mems0 = init_values(case, block)
    dv = case.get('dv', 0)
    mdv = 0 if kind == 'compiled' else dv       # the documented exception: CompiledSimulation's memories ignore default_value
    v = Vars()
    holder = {}
    from .. import spec
    # the no-double-write precondition is evaluated for the ACTUAL initial contents (enables may depend on memory reads)
    spec_mems = {mem.name: SymMem.from_dict(mems0.get(mem.name, {}), mdv, mem.addrwidth, mem.bitwidth)
                 for mem in simdrv.mems_of(block).values() if not isinstance(mem, pyrtl.RomBlock)}
    assume = [z3.Not(d) for d in spec.run(block, K, v, reg_init=regs0 if regs0 or not dv else 'reset', mem_init=spec_mems,
                                          default_value=dv).double_write]

    if assume:
        s0 = z3.Solver()
        s0.add(*assume)
        if s0.check() == z3.unsat:
            ob.notes.append('design writes one address twice in every cycle (documented undefined): skipped')
            return ob.fact('skipped-double-write-design', True)

    def after(sim, t):
        return sim.tracer           # per explored path: that path's own tracer object
    if concrete_inputs is not None:
        subs = [(v.inp(w.name, t, w.bitwidth), z3.BitVecVal(concrete_inputs(w, t), w.bitwidth))
                for w in block.wirevector_subset(pyrtl.Input) for t in range(K)]
        if assume and not z3.is_true(z3.simplify(z3.substitute(z3.And(*assume), *subs))):
            return ob.fact('skipped-inputs-outside-the-precondition', True)     # two enabled writes to one address: undefined
        assume = []
        tracer, r0 = concrete_tb_run(block, kind, K, regs0, mems0, concrete_inputs, dv)
        r0.extra = [tracer]
        rs = [r0]
    elif kind == 'compiled':
        cm = CompiledModel(block, regvals=regs0, memvals=mems0, default_value=dv)
        rs = run_compiled(cm, K, v)
        if len([r for r in rs if r.exc is None]) != 1:
            return ob.fact('skipped-multi-path-trace', True)
        for r in rs:
            r.extra = [cm.sim.tracer]
    else:
        # the memory_value_map entries are TrackMem objects: the simulator and the trace hold whatever object relations the
        # real code creates (a recorded initial state that aliases the live memory sees the simulation's writes)
        meminit = {mem.name: sym.TrackMem.from_words(mems0.get(mem.name, {}), dv, mem.addrwidth, mem.bitwidth)
                   for mem in simdrv.mems_of(block).values() if not isinstance(mem, pyrtl.RomBlock)}
        with sym_env([block]):
            rs = run_sim(block, K, v, kind=kind, reg_init=regs0 if regs0 or not dv else 'reset', mem_init=meminit, track='io',
                         after_step=after, assumptions=assume, default_value=dv)
    rs = [r for r in rs if r.exc is None and r.extra]
    if not rs:
        return ob.fact('skipped-no-trace', True)
    ob.paths += len(rs)
    # one testbench per explored path (write-enable decisions): each path has its own trace object
    for r in rs[:6]:
        _check_testbench(case, ob, site, block, r, r.extra[-1], regs0, mems0, assume, v)


def _check_testbench(case, ob, site, block, r, tracer, regs0, mems0, assume, v):
    ar, K, kind = case['add_reset'], case['K'], case['sim']
    polluted = [mid for mid, mv in getattr(tracer, 'init_memvalue', {}).items() if isinstance(mv, sym.TrackMem) and mv.writes]
    if not ob.fact('recorded-initial-memory-state-is-a-snapshot', not polluted, site + ':tb-mem-init',
                   detail='the trace\'s initial memory contents changed while simulating (memory ids %r)' % polluted):
        return
    try:
        text = export(block, ar, case.get('wb', 'same'))
        mod = vtrans.Module(text)
    except Exception as e:
        return ob.fact('module-exports', False, site + ':module', detail=str(e))
    buf = io.StringIO()
    try:
        with wb_mode(block, case.get('wb', 'same')) as kw:
            pyrtl.output_verilog_testbench(buf, simulation_trace=tracer, add_reset=ar, vcd=None, **kw)
    except Exception as e:
        return ob.fact('output_verilog_testbench-accepts-trace', False, site + ':raises', detail='%s: %s' % (type(e).__name__, e))
    try:
        tb = vtrans.Testbench(buf.getvalue())
    except vtrans.VTransError as e:
        return ob.fact('emitted-testbench-is-well-formed', False, site + ':tb-malformed', detail=str(e))
    mp, err = match_ports(block, mod)
    if mp is None:
        return ob.fact('ports-match-the-design', False, site + ':ports', detail=err)
    want_ports = ['clk'] + (['rst'] if ar else []) + [p for p in mod.ports if p not in ('clk', 'rst')]
    ob.fact('testbench-instantiates-the-module-ports-by-name', sorted(tb.ports) == sorted(mod.ports), site + ':tb-ports', detail=[tb.ports, mod.ports])
    ob.fact('testbench-cycle-count', len(tb.cycles) == K, site + ':tb-cycles')
    ob.fact('testbench-holds-rst-low', tb.rst0 == bool(ar), site + ':tb-rst')
    # initial register state = the state the simulation started from
    for reg in block.wirevector_subset(pyrtl.Register):
        start = regs0.get(reg.name, reg.reset_value if reg.reset_value is not None else case.get('dv', 0))
        ob.fact('testbench-initialises-register:%s' % reg.name, tb.regs.get(mp[reg.name]) == start, site + ':tb-reg-init',
                detail={'register': reg.name, 'testbench': tb.regs.get(mp[reg.name]), 'simulation started from': start})
    mems_by_v = mem_names(block)
    for vname, m in mems_by_v.items():
        if isinstance(m, pyrtl.RomBlock):
            continue
        dflt = tb.mem_default.get(vname)
        ok = dflt is not None and dflt[0] == (1 << m.addrwidth)
        words = dict(tb.mem_words.get(vname, {}))
        bad = []
        if ok:
            for a in range(1 << m.addrwidth):
                want = mems0.get(m.name, {}).get(a, 0 if kind == 'compiled' else case.get('dv', 0))
                have = words.get(a, dflt[1])
                if want != have:
                    bad.append((a, have, want))
        ob.fact('testbench-initialises-memory:%s' % m.name, ok and not bad, site + ':tb-mem-init', detail={'memory': m.name, 'mismatches': bad[:3]})
    # traced inputs
    goals = []
    for t in range(min(K, len(tb.cycles))):
        for w in block.wirevector_subset(pyrtl.Input):
            ent = tb.cycles[t].get(mp[w.name])
            if ent is None:
                ob.fact('testbench-drives-input:%s@%d' % (w.name, t), False, site + ':tb-input-missing')
                continue
            width, tok = ent
            val = sym._PLACEHOLDERS[tok] if tok in sym._PLACEHOLDERS else int(tok)
            ob.fact('testbench-literal-width:%s@%d' % (w.name, t), width == w.bitwidth, site + ':tb-input-width')
            goals.append(('testbench-drives-traced-value:%s@%d' % (w.name, t),
                          to_bv(val, width) == to_bv(r.trace[w.name][t], width), site + ':tb-input'))
    # the module driven by the parsed testbench reproduces the traced outputs
    regs = {}
    for reg in block.wirevector_subset(pyrtl.Register):
        x = tb.regs.get(mp[reg.name], 0)
        regs[mp[reg.name]] = z3.BitVecVal(x & reg.bitmask, reg.bitwidth)
    vmems = {}
    for vname, (w_, size, _) in mod.mems.items():
        aw = max(1, (size - 1).bit_length())
        if vname in tb.mem_default:
            arr = z3.K(z3.BitVecSort(aw), z3.BitVecVal(tb.mem_default[vname][1] & ((1 << w_) - 1), w_))
            for a, x in tb.mem_words.get(vname, {}).items():
                arr = z3.Store(arr, z3.BitVecVal(a, aw), z3.BitVecVal(x & ((1 << w_) - 1), w_))
            vmems[vname] = arr
        else:
            vmems[vname] = mod.initial_mems(lambda n, a, w: z3.K(z3.BitVecSort(a), z3.BitVecVal(0, w)))[vname]
    try:
        for t in range(min(K, len(tb.cycles))):
            ins = {}
            for w in block.wirevector_subset(pyrtl.Input):
                width, tok = tb.cycles[t].get(mp[w.name], (w.bitwidth, '0'))
                val = sym._PLACEHOLDERS[tok] if tok in sym._PLACEHOLDERS else int(tok)
                ins[mp[w.name]] = to_bv(val, w.bitwidth)
            env, regs, vmems = mod.step(ins, regs, vmems, rst=z3.BitVecVal(0, 1) if mod.has_rst else None)
            for w in block.wirevector_subset(pyrtl.Output):
                goals.append(('module-driven-by-testbench-reproduces-trace:%s@%d' % (w.name, t),
                              env[mp[w.name]] == to_bv(r.trace[w.name][t], w.bitwidth), site + ':tb-replay'))
    except vtrans.VTransError as e:
        ob.fact('emitted-module-is-well-formed', False, site + ':malformed', detail=str(e))
    ob.prove_all(goals, assume + r.pc, v)


def run_case(case, ob, tier):
    site = site_of(case)
    if case['k'] == 'module':
        return run_module(case, ob, site)
    return run_testbench(case, ob, site)


def replay(cex):
    """re-run the export concretely: structural facts are re-evaluated; symbolic counterexamples are checked by evaluating the parsed
    module on the model's concrete inputs against the real Simulation"""
    case = cex['case']
    from ..core import Obligations
    if case['k'] == 'testbench':
        # the real simulator on plain ints/dicts, the real exporter, the parsed text checked concretely
        mv = cex.get('model', {}).get('inputs', {})
        K = case['K']
        # the counterexample's own inputs first, then a few input shapes (constant, first == last, all ones): text emitters
        # may depend on value patterns the symbolic run only sees as placeholders
        patterns = [lambda w, t: (t * 5 + 3) & w.bitmask, lambda w, t: 0, lambda w, t: w.bitmask,
                    lambda w, t: (3 if t in (0, K - 1) else 1 + t) & w.bitmask, lambda w, t: (1 if t == 0 else 0) & w.bitmask]
        tried = []
        for pi, pat in enumerate([None] + patterns):
            def inputs_of(w, t, pat=pat):
                if pat is None:
                    x = mv.get(w.name, {})
                    val = x.get(str(t), x.get(t))
                    return ((t * 5 + 3) & w.bitmask) if val is None else val
                return pat(w, t)
            if pat is None and not mv:
                continue
            ob = Obligations(PROP, case, 30000)
            run_testbench(case, ob, site_of(case), concrete_inputs=inputs_of)
            bad = [x['obligation'] for x in ob.sat]
            tried.append(pi)
            if bad:
                return True, 'testbench from a concrete %s run of the real code (input pattern %d): failing %r' % (case['sim'], pi, bad[:6])
        return False, 'testbench from concrete %s runs of the real code (input patterns %r): nothing fails' % (case['sim'], tried)
    if cex.get('structural'):
        ob = Obligations(PROP, case, 30000)
        run_case(case, ob, 'quick')
        bad = [x['obligation'] for x in ob.sat]
        return cex['obligation'] in bad or (bool(bad) and not cex.get('structural')), 'failing on re-execution against the real exporter: %r' % bad[:6]
    block = designs.build(case)
    text = export(block, case['add_reset'], case.get('wb', 'same'))
    mod = vtrans.Module(text)
    mp, err = match_ports(block, mod)
    mv = cex.get('model', {})
    K = case['K']
    trace, mems, sim = concrete.sim_concrete(block, K, mv, kind='sim', reg_init='reset', mem_init='sym', track='io')
    cv = concrete.ConcreteVars(mv)
    mems_by_v = mem_names(block)
    regs = {mp[r.name]: z3.BitVecVal(r.reset_value or 0, r.bitwidth) for r in block.wirevector_subset(pyrtl.Register)}
    vmems = mod.initial_mems(lambda name, aw, w: cv.mem(mems_by_v[name].name, aw, w))
    bad = []
    for t in range(K):
        ins = {mp[w.name]: cv.inp(w.name, t, w.bitwidth) for w in block.wirevector_subset(pyrtl.Input)}
        env, regs, vmems = mod.step(ins, regs, vmems, rst=z3.BitVecVal(0, 1) if mod.has_rst else None)
        for w in block.wirevector_subset(pyrtl.Output):
            term = env[mp[w.name]]
            # words a ROM's initial block leaves unassigned are x in Verilog: any filling may be observed
            for fill in (-1, 0):
                tt = term
                for mname, (mw, msize, _) in mod.mems.items():
                    maw = max(1, (msize - 1).bit_length())
                    tt = z3.substitute(tt, (z3.Array('uninit_%s' % mname, z3.BitVecSort(maw), z3.BitVecSort(mw)),
                                            z3.K(z3.BitVecSort(maw), z3.BitVecVal(fill & ((1 << mw) - 1), mw))))
                got = z3.simplify(tt).as_long()
                if got != trace[w.name][t]:
                    bad.append('cycle %d: Verilog %s = %d%s, Simulation %s = %d' % (
                        t, mp[w.name], got, ' (an uninitialised ROM word is read)' if fill else '', w.name, trace[w.name][t]))
                    break
    return bool(bad), 'case=%r inputs=%r\n%s\n--- emitted module ---\n%s' % (case, mv, '\n'.join(bad[:8]), text[:1500])
