"""C06 — hardware operators compute exact integer results at the documented widths.

Real code: WireVector._two_var_op and every dunder operator, __getitem__, truncate, sign_extended/zero_extended/
_extend_with_bit, as_wires, match_bitwidth, concat/concat_list, select, signed_add/mult/lt/le/gt/ge, shift_*,
barrel_shifter, Const.__init__/infer_val_and_bitwidth for int/bool/str operands (all run concretely to elaborate);
then the real Simulation runs symbolically and every output is compared with integer arithmetic for ALL values."""
import itertools
import pyrtl
from .. import gencheck
from ..gencheck import I, signed_val, unsigned_enc, ite, bits_of, from_bits

PROP = 'C06'
LEVEL = 'model_checking'
ASSUMPTIONS = [
    'operand values are bit-vector variables of the operand width (all values); widths/slices/constants are enumerated',
    'oracles are plain integer arithmetic on the same variables (two\'s-complement interpretation for signed_* helpers)',
    'Simulation is the semantics of the built netlist (C01)',
    'stubs/merge points of vf/simdrv.py',
]

BIN = {
    '+': (lambda a, b: a + b, lambda x, y: x + y, lambda wa, wb: max(wa, wb) + 1),
    '-': (lambda a, b: a - b, lambda x, y: x - y, lambda wa, wb: max(wa, wb) + 1),
    '*': (lambda a, b: a * b, lambda x, y: x * y, lambda wa, wb: wa + wb),
    '&': (lambda a, b: a & b, lambda x, y: x & y, lambda wa, wb: max(wa, wb)),
    '|': (lambda a, b: a | b, lambda x, y: x | y, lambda wa, wb: max(wa, wb)),
    '^': (lambda a, b: a ^ b, lambda x, y: x ^ y, lambda wa, wb: max(wa, wb)),
    'nand': (lambda a, b: a.nand(b), lambda x, y: ~(x & y), lambda wa, wb: max(wa, wb)),
    '<': (lambda a, b: a < b, lambda x, y: x < y, lambda wa, wb: 1),
    '<=': (lambda a, b: a <= b, lambda x, y: x <= y, lambda wa, wb: 1),
    '>': (lambda a, b: a > b, lambda x, y: x > y, lambda wa, wb: 1),
    '>=': (lambda a, b: a >= b, lambda x, y: x >= y, lambda wa, wb: 1),
    '==': (lambda a, b: a == b, lambda x, y: x == y, lambda wa, wb: 1),
    '!=': (lambda a, b: a != b, lambda x, y: x != y, lambda wa, wb: 1),
}
MODOPS = ('-', 'nand')


def _b2i(x):
    from ..sym import SymBool
    if isinstance(x, bool):
        return int(x)
    if isinstance(x, SymBool):
        return x.as_int()
    return x


def it_binop(c):
    f, g, wf = BIN[c['op']]
    a, b = I(c['wa'], 'a'), I(c['wb'], 'b')
    r = f(a, b)
    return {'outs': {'r': r}, 'widths': {'r': wf(c['wa'], c['wb'])},
            'oracle': lambda ins: {'r': _b2i(g(ins['a'], ins['b']))}, 'mod': {'r'} if c['op'] in MODOPS else set()}


def _pyconst(kind, k, w):
    """the raw python operand of a given kind and the integer it denotes as an unsigned operand of width w"""
    if kind == 'int':
        return k
    if kind == 'bool':
        return bool(k)
    if kind == 'vstr':
        return "%d'd%d" % (w, k)
    if kind == 'vbin':
        return "%d'b%s" % (w, format(k, 'b'))
    if kind == 'vhex':
        return "%d'h%x" % (w, k)
    if kind == 'vhexx':
        return "%d'x%x" % (w, k)
    if kind == 'voct':
        return "%d'o%o" % (w, k)
    if kind == 'const':
        return pyrtl.Const(k, bitwidth=w)
    if kind == 'sconst':
        return pyrtl.Const(k, bitwidth=w, signed=True)
    raise ValueError(kind)


def it_constop(c):
    """wire OP python-operand (or reversed) behaves exactly like wire OP Const(equivalent)"""
    f, g, wf = BIN[c['op']]
    a = I(c['wa'], 'a')
    k, kind, wk = c['k'], c['kind'], c['wk']
    raw = _pyconst(kind, k, wk)
    kval = k if k >= 0 else unsigned_enc(k, wk)
    if kind in ('int', 'bool'):
        ref = pyrtl.Const(int(k))
        wk_eff = len(ref)
    else:
        ref = pyrtl.Const(kval, bitwidth=wk)
        wk_eff = wk
    if c['side'] == 'r':
        r, r2 = f(a, raw), f(a, ref)
        orc = lambda ins: _b2i(g(ins['a'], kval))
        wdoc = wf(c['wa'], wk_eff)
    else:
        if c['op'] == 'nand':
            r, r2 = pyrtl.as_wires(raw).nand(a), ref.nand(a)
        else:
            r, r2 = f(raw, a), f(ref, a)
        orc = lambda ins: _b2i(g(kval, ins['a']))
        wdoc = wf(wk_eff, c['wa'])
    return {'outs': {'r': r, 'r_const': r2}, 'widths': {'r': len(r2)} if c['op'] == '*' else {'r': wdoc, 'r_const': wdoc},
            'oracle': lambda ins: {'r': orc(ins), 'r_const': orc(ins)},
            'mod': {'r', 'r_const'} if c['op'] in MODOPS else set()}


def it_invert(c):
    a = I(c['wa'], 'a')
    return {'outs': {'r': ~a}, 'widths': {'r': c['wa']}, 'oracle': lambda ins: {'r': ~ins['a']}, 'mod': {'r'}}


def it_slice(c):
    w = c['wa']
    a = I(w, 'a')
    sl = c['sl']
    key = sl if isinstance(sl, int) else slice(*sl)
    idx = range(w)[key]
    idx = [idx] if isinstance(idx, int) else list(idx)
    if not idx:
        c['expect_error'] = True
    r = a[key]
    return {'outs': {'r': r}, 'widths': {'r': len(idx)},
            'oracle': lambda ins: {'r': from_bits([(ins['a'] >> i) & 1 for i in idx])}}


def it_concat(c):
    ws = c['ws']
    pool = [I(w, 'a%d' % i) for i, w in enumerate(ws)]
    # 'pick': which pool wire sits at each position (the same wire may occur several times in one concat)
    pick = c.get('pick') or list(range(len(ws)))
    ins_ = [pool[i] for i in pick]
    r = pyrtl.concat(*ins_)
    r2 = pyrtl.concat_list(ins_)

    def orc(ins):
        v = 0
        for i in pick:
            v = (v << ws[i]) | ins['a%d' % i]
        v2 = 0
        for i in reversed(pick):
            v2 = (v2 << ws[i]) | ins['a%d' % i]
        return {'r': v, 'r_list': v2}
    total = sum(ws[i] for i in pick)
    return {'outs': {'r': r, 'r_list': r2}, 'widths': {'r': total, 'r_list': total}, 'oracle': orc}


def it_assign(c):
    """<<= into a narrower / equal / wider pre-declared destination, and into an undeclared-width wire"""
    wa, wd = c['wa'], c['wd']
    a = I(wa, 'a')
    d = pyrtl.WireVector(wd if wd else None, 'd')
    d <<= a
    w_eff = wd or wa
    return {'outs': {'r': d}, 'widths': {'r': w_eff}, 'oracle': lambda ins: {'r': ins['a'] & ((1 << w_eff) - 1)}}


def it_assign_const(c):
    """<<= / |= of a Const (signed or not, explicit or inferred width) into a narrower / equal / wider destination: the constant's
    two's-complement bits are zero-extended or truncated like any other wire's"""
    k, wk, signed, wd, form = c['k'], c['wk'], c['signed'], c['wd'], c['form']
    a = I(1, 'a')
    raw = pyrtl.Const(k, bitwidth=wk, signed=signed) if wk else pyrtl.Const(k, signed=signed)
    enc = k if k >= 0 else k + (1 << len(raw))
    d = pyrtl.WireVector(wd, 'd')
    if form == 'assign':
        d <<= raw
        exp = lambda ins: enc & ((1 << wd) - 1)
    else:
        with pyrtl.conditional_assignment:
            with a:
                d |= raw
        exp = lambda ins: ite(ins['a'] == 1, enc & ((1 << wd) - 1), 0)
    return {'outs': {'r': d, 'a_': a}, 'widths': {'r': wd}, 'oracle': lambda ins: {'r': exp(ins), 'a_': ins['a']}}


ROMDATA = [0xAB, 0x12, 0xFF, 0x80]


def it_memread(c):
    """the object a memory read `mem[addr]` returns, used as an operand more than once and at different widths"""
    a = I(2, 'a')
    rom = pyrtl.RomBlock(8, 2, list(ROMDATA), name='rom')
    x = rom[a]
    outs = {}
    uses = c['uses']
    for n, u in enumerate(uses):
        if u == 'narrow':
            d = pyrtl.WireVector(4, 'd%d' % n)
            d <<= x
        elif u == 'same':
            d = pyrtl.WireVector(8, 'd%d' % n)
            d <<= x
        elif u == 'wide':
            d = pyrtl.WireVector(11, 'd%d' % n)
            d <<= x
        elif u == 'plus':
            d = x + 1
        elif u == 'slice':
            d = x[2:7]
        elif u == 'invert':
            d = ~x
        else:
            raise ValueError(u)
        outs['r%d' % n] = d

    def orc(ins):
        word = 0
        for i in reversed(range(4)):
            word = ite(ins['a'] == i, ROMDATA[i], word)
        fns = {'narrow': lambda w: w & 15, 'same': lambda w: w, 'wide': lambda w: w, 'plus': lambda w: w + 1,
               'slice': lambda w: (w >> 2) & 31, 'invert': lambda w: 255 - w}
        return {'r%d' % n: fns[u](word) for n, u in enumerate(uses)}
    return {'outs': outs, 'oracle': orc}


def it_extend(c):
    wa, wd = c['wa'], c['wd']
    a = I(wa, 'a')
    if wd < wa:
        c['expect_error'] = True
    return {'outs': {'z': a.zero_extended(wd), 's': a.sign_extended(wd)}, 'widths': {'z': wd, 's': wd},
            'oracle': lambda ins: {'z': ins['a'], 's': unsigned_enc(signed_val(ins['a'], wa), wd)}}


def it_truncate(c):
    wa, wd = c['wa'], c['wd']
    a = I(wa, 'a')
    if wd > wa:
        c['expect_error'] = True
    return {'outs': {'r': a.truncate(wd)}, 'widths': {'r': wd}, 'oracle': lambda ins: {'r': ins['a'] & ((1 << wd) - 1)}}


def it_select(c):
    s, a, b = I(1, 's'), I(c['wa'], 'a'), I(c['wb'], 'b')
    return {'outs': {'r': pyrtl.select(s, a, b)}, 'widths': {'r': max(c['wa'], c['wb'])},
            'oracle': lambda ins: {'r': ite(ins['s'] == 1, ins['a'], ins['b'])}}


def it_signed(c):
    wa, wb = c['wa'], c['wb']
    a, b = I(wa, 'a'), I(wb, 'b')
    f = c['f']
    fn = {'add': pyrtl.signed_add, 'mult': pyrtl.signed_mult, 'lt': pyrtl.signed_lt, 'le': pyrtl.signed_le,
          'gt': pyrtl.signed_gt, 'ge': pyrtl.signed_ge}[f]
    r = fn(a, b)
    wdoc = {'add': max(wa, wb) + 1, 'mult': wa + wb}.get(f, 1)

    def orc(ins):
        x, y = signed_val(ins['a'], wa), signed_val(ins['b'], wb)
        if f == 'add':
            return {'r': unsigned_enc(x + y, wdoc)}
        if f == 'mult':
            return {'r': unsigned_enc(x * y, wdoc)}
        return {'r': _b2i({'lt': x < y, 'le': x <= y, 'gt': x > y, 'ge': x >= y}[f])}
    return {'outs': {'r': r}, 'widths': {'r': wdoc}, 'oracle': orc}


def it_signed_int(c):
    """signed helpers with a Python int operand (converted to a two's complement constant)"""
    wa, k, f = c['wa'], c['k'], c['f']
    a = I(wa, 'a')
    fn = {'add': pyrtl.signed_add, 'mult': pyrtl.signed_mult, 'lt': pyrtl.signed_lt, 'le': pyrtl.signed_le, 'gt': pyrtl.signed_gt,
          'ge': pyrtl.signed_ge}[f]
    r = fn(a, k) if c['side'] == 'r' else fn(k, a)
    if f in ('lt', 'le', 'gt', 'ge'):
        def orc_cmp(ins):
            x = signed_val(ins['a'], wa)
            l_, r_ = (x, k) if c['side'] == 'r' else (k, x)
            res = {'lt': l_ < r_, 'le': l_ <= r_, 'gt': l_ > r_, 'ge': l_ >= r_}[f]
            return {'r': ite(res, 1, 0)}
        return {'outs': {'r': r}, 'widths': {'r': 1}, 'oracle': orc_cmp}
    wk = len(pyrtl.Const(k, signed=True))
    wdoc = max(wa, wk) + 1 if f == 'add' else wa + wk

    def orc(ins):
        x = signed_val(ins['a'], wa)
        return {'r': unsigned_enc(x + k if f == 'add' else x * k, wdoc)}
    return {'outs': {'r': r}, 'widths': {'r': wdoc}, 'oracle': orc}


def _shift_oracle(kind, x, s, w):
    m = (1 << w) - 1
    if kind == 'sll' or kind == 'sla':
        return (x << s) & m
    if kind == 'srl':
        return x >> s
    return unsigned_enc(signed_val(x, w) >> s, w)


def it_shift_wire(c):
    w, ws, kind = c['wa'], c['ws'], c['kind']
    a, s = I(w, 'a'), I(ws, 's')
    fn = {'sll': pyrtl.shift_left_logical, 'sla': pyrtl.shift_left_arithmetic, 'srl': pyrtl.shift_right_logical,
          'sra': pyrtl.shift_right_arithmetic}[kind]
    r = fn(a, s)
    return {'outs': {'r': r}, 'widths': {'r': w}, 'oracle': lambda ins: {'r': _shift_oracle(kind, ins['a'], ins['s'], w)}}


def it_shift_const(c):
    w, k, kind = c['wa'], c['k'], c['kind']
    a = I(w, 'a')
    fn = {'sll': pyrtl.shift_left_logical, 'sla': pyrtl.shift_left_arithmetic, 'srl': pyrtl.shift_right_logical,
          'sra': pyrtl.shift_right_arithmetic}[kind]
    r = fn(a, k)
    return {'outs': {'r': r}, 'widths': {'r': w}, 'oracle': lambda ins: {'r': _shift_oracle(kind, ins['a'], k, w)}}


def it_barrel(c):
    from pyrtl.rtllib import barrel
    w, ws = c['wa'], c['ws']
    a, s, bit, d = I(w, 'a'), I(ws, 's'), I(1, 'bit'), I(1, 'dir')
    r = barrel.barrel_shifter(a, bit, d, s)
    m = (1 << w) - 1

    def orc(ins):
        x, sh, b, dr = ins['a'], ins['s'], ins['bit'], ins['dir']
        fill = ite(b == 1, m, 0)
        left = ((x << sh) | (fill & ~(m << sh))) & m
        right = (x >> sh) | (fill & ~(m >> sh) & m)
        return {'r': ite(dr == 1, left, right)}
    return {'outs': {'r': r}, 'widths': {'r': w}, 'oracle': orc}


def it_reduce(c):
    w = c['wa']
    a = I(w, 'a')
    m = (1 << w) - 1

    def orc(ins):
        x = ins['a']
        par = 0
        for i in range(w):
            par = par ^ ((x >> i) & 1)
        return {'and': _b2i(x == m), 'or': _b2i(x != 0), 'xor': par}
    return {'outs': {'and': pyrtl.and_all_bits(a), 'or': pyrtl.or_all_bits(a), 'xor': pyrtl.xor_all_bits(a)},
            'widths': {'and': 1, 'or': 1, 'xor': 1}, 'oracle': orc}


ITEMS = {'binop': it_binop, 'constop': it_constop, 'invert': it_invert, 'slice': it_slice, 'concat': it_concat,
         'assign': it_assign, 'assign_const': it_assign_const, 'extend': it_extend, 'truncate': it_truncate, 'select': it_select, 'signed': it_signed,
         'signed_int': it_signed_int, 'shift_wire': it_shift_wire, 'shift_const': it_shift_const, 'barrel': it_barrel,
         'reduce': it_reduce, 'memread': it_memread}

WQ = [1, 2, 3, 4, 5, 8]
WT = WQ + [7, 16, 31, 32, 33, 63, 64, 65, 127, 128, 129, 130]


def bounds(tier):
    return {'width pairs': 'all pairs of %r' % (WQ if tier == 'quick' else WT,), '* and signed_mult': '<= 6x6 quick / 8x8 thorough',
            'shift amount widths': '1..6', 'slices': 'i,j in {None,-w..w}, k in {None,1,-1,2,-2} for w<=7 (quick: w<=4)',
            'operand kinds': ['int', 'bool', "w'd k", "w'b k", "w'h k", 'Const', 'Const signed']}


def cases(tier, seed):
    out = []
    W = WQ if tier == 'quick' else WT
    mulmax = 6 if tier == 'quick' else 8
    for op in BIN:
        for wa, wb in itertools.product(W, W):
            if op == '*' and (wa > mulmax or wb > mulmax):
                continue
            if tier != 'quick' and wa > 8 and wb > 8 and (wa not in (64, 65) or wb not in (63, 64, 65, 128)):
                continue
            out.append({'item': 'binop', 'op': op, 'wa': wa, 'wb': wb})
    for wa in W:
        out.append({'item': 'invert', 'wa': wa})
        if wa <= 16:
            out.append({'item': 'reduce', 'wa': wa})
    # python operands on both sides of every operator
    for op in BIN:
        for wa in ([1, 3, 5, 64] if tier == 'quick' else [1, 2, 3, 4, 5, 8, 16, 49, 53, 64, 65, 128]):
            if op == '*' and wa > 5:
                continue
            ks = sorted({0, 1, (1 << wa) - 1, 1 << (wa - 1), (1 << wa) + 1})
            for k in ks:
                for side in 'lr':
                    out.append({'item': 'constop', 'op': op, 'wa': wa, 'k': k, 'kind': 'int', 'wk': 0, 'side': side})
                    wk = max(1, k.bit_length())
                    for kind in ('vstr', 'vbin', 'vhex', 'const'):
                        if tier == 'quick' and kind in ('vbin', 'vhex') and side == 'l':
                            continue
                        out.append({'item': 'constop', 'op': op, 'wa': wa, 'k': k, 'kind': kind, 'wk': wk + (k % 2), 'side': side})
            for k in (0, 1):
                for side in 'lr':
                    out.append({'item': 'constop', 'op': op, 'wa': wa, 'k': k, 'kind': 'bool', 'wk': 1, 'side': side})
            for k in (-1, -(1 << (wa - 1))) if wa > 1 else (-1,):
                wk = max(wa, 2)
                for side in 'lr':
                    out.append({'item': 'constop', 'op': op, 'wa': wa, 'k': k, 'kind': 'sconst', 'wk': wk, 'side': side})
    # concats in which one wire occurs several times; slices that cross a limb boundary; arithmetic shifts by a wire amount (the
    # barrel shifter repeats its fill wire): on all three back ends
    for be in ('sim', 'fast', 'compiled'):
        for ws_, pick in (([3], [0, 0]), ([2, 3], [0, 1, 0]), ([1, 4], [0, 0, 1]), ([2, 3], [1, 0, 1, 0]), ([65, 3], [0, 1, 0])):
            out.append({'item': 'concat', 'ws': ws_, 'pick': pick, 'backend': be})
        for wa in (65, 70, 130):
            for sl in ([60, 70, None], [1, None, None], [3, None, None], [63, 65, None], [64, wa, None], [0, 64, None], [62, wa - 1, None],
                       [None, None, 2], [None, None, -1]):
                out.append({'item': 'slice', 'wa': wa, 'sl': sl, 'backend': be})
        for kind in SHIFTS if 'SHIFTS' in globals() else ('sll', 'sla', 'srl', 'sra'):
            for w_, ws2 in ((5, 3), (8, 4), (65, 7)):
                out.append({'item': 'shift_wire', 'kind': kind, 'wa': w_, 'ws': ws2, 'backend': be})
    # the operators at the 64-bit limb boundaries on the other two back ends
    for be in ('compiled', 'fast'):
        for op in ('+', '-', '<', '==', '&') + (('*',) if tier != 'quick' else ()):
            for wa, wb in ((64, 64), (65, 64), (128, 128), (129, 127), (130, 64), (192, 192)) if op != '*' else ((33, 33), (64, 64)):
                if tier == 'quick' and be == 'fast' and wa not in (128, 65):
                    continue
                out.append({'item': 'binop', 'op': op, 'wa': wa, 'wb': wb, 'backend': be})
    # every hex digit as the leading digit of a Verilog-style string (digits that are also base letters: b, d), in each base
    for lead in range(1, 16):
        for k in ((lead << 4) | 5, (lead << 8) | 0xb7):
            for kind in ('vhex', 'vhexx', 'voct', 'vbin', 'vstr'):
                if tier == 'quick' and kind in ('voct', 'vbin', 'vstr') and lead not in (1, 0xb, 0xd):
                    continue
                out.append({'item': 'constop', 'op': '+', 'wa': 12, 'k': k, 'kind': kind, 'wk': 12, 'side': 'r'})
    # slices with Python index semantics
    for w in ([1, 2, 3, 4] if tier == 'quick' else [1, 2, 3, 4, 5, 6, 7]):
        for i in range(-w, w):
            out.append({'item': 'slice', 'wa': w, 'sl': i})
        rng = [None] + list(range(-w, w + 1))
        for i, j, k in itertools.product(rng, rng, [None, 1, -1, 2, -2]):
            out.append({'item': 'slice', 'wa': w, 'sl': [i, j, k]})
    for w in ([8] if tier == 'quick' else [8, 64, 65, 130]):
        for sl in ([None, None, -1], [1, -1, None], [w - 1, None, None], [None, None, 3], [-3, None, None], [2, w - 2, 2]):
            out.append({'item': 'slice', 'wa': w, 'sl': sl})
    for ws in ([1], [1, 1], [3, 1], [1, 4, 2], [2, 3, 1, 5], [8, 1, 8], [64, 1, 65]):
        out.append({'item': 'concat', 'ws': ws})
    for wa, wd in itertools.product(W if tier == 'quick' else [1, 3, 8, 64, 65], repeat=2):
        out.append({'item': 'assign', 'wa': wa, 'wd': wd})
        out.append({'item': 'extend', 'wa': wa, 'wd': wd})
        out.append({'item': 'truncate', 'wa': wa, 'wd': wd})
        out.append({'item': 'select', 'wa': wa, 'wb': wd})
    for wa in W:
        out.append({'item': 'assign', 'wa': wa, 'wd': 0})
    for k, wk, signed in ((-3, None, True), (-3, 8, True), (-1, None, True), (-1, 1, True), (-4, 3, True), (5, None, True), (3, 3, True),
                          (5, None, False), (7, 3, False), (0, None, True), (-128, None, True)):
        for wd in (1, 2, 3, 8, 9, 65):
            for form in ('assign', 'cond'):
                out.append({'item': 'assign_const', 'k': k, 'wk': wk, 'signed': signed, 'wd': wd, 'form': form})
    for f in ('add', 'mult', 'lt', 'le', 'gt', 'ge'):
        for wa, wb in itertools.product(W, W):
            if f == 'mult' and (wa > mulmax - 1 or wb > mulmax - 1):
                continue
            if wa > 65 or wb > 65:
                continue
            out.append({'item': 'signed', 'f': f, 'wa': wa, 'wb': wb})
    for f in ('add', 'mult', 'lt', 'le', 'gt', 'ge'):
        for wa in (1, 3, 4):
            for k in (-4, -1, 0, 1, 3, 5):
                for side in 'lr':
                    out.append({'item': 'signed_int', 'f': f, 'wa': wa, 'k': k, 'side': side})
    for kind in ('sll', 'sla', 'srl', 'sra'):
        for w in ([1, 2, 3, 4, 5, 8] if tier == 'quick' else [1, 2, 3, 4, 5, 6, 7, 8, 9, 16, 33]):
            for ws in range(1, 7):
                if tier == 'quick' and ws > 4 and w > 5:
                    continue
                out.append({'item': 'shift_wire', 'kind': kind, 'wa': w, 'ws': ws})
            for k in range(0, w + 2):
                out.append({'item': 'shift_const', 'kind': kind, 'wa': w, 'k': k})
    for w in ([1, 2, 3, 5, 6, 8] if tier == 'quick' else [1, 2, 3, 4, 5, 6, 7, 8, 9, 12, 17]):
        for ws in range(1, 6):
            out.append({'item': 'barrel', 'wa': w, 'ws': ws})
    for uses in itertools.permutations(['narrow', 'same', 'wide', 'plus', 'slice', 'invert'], 2):
        out.append({'item': 'memread', 'uses': list(uses)})
    out.append({'item': 'memread', 'uses': ['narrow', 'wide', 'plus', 'same', 'invert', 'slice']})
    out.append({'item': 'memread', 'uses': ['wide', 'narrow', 'plus']})
    return out


def site_of(c):
    s = 'C06:%s' % c['item']
    for k in ('op', 'f', 'kind'):
        if k in c:
            s += ':%s=%s' % (k, c[k])
    if c['item'] == 'binop' and c['op'] == '*':
        s += ':mixed-widths' if c['wa'] != c['wb'] else ':equal-widths'
    if c['item'] == 'constop' and c['op'] == '*':
        s += ':const-operand'
    return s


def run_case(case, ob, tier):
    gencheck.check_item(ob, case, ITEMS[case['item']], site_of(case))


def replay(cex):
    return gencheck.replay_item(cex, ITEMS[cex['case']['item']])
