"""C17 — timing, path and fan-out analyses equal their graph-theoretic definitions.

Real code: TimingAnalysis.__init__/_generate_timing_map/max_length/critical_path/max_freq run on SYMBOLIC gate delays
(gate_delay_funcs is a user parameter; the harness passes functions returning solver variables), analysis.paths and
analysis.fanout run concretely and are compared with an SMT characterisation of simple net paths / a direct count."""
import itertools
import z3
import pyrtl
from pyrtl import analysis
from pyrtl.memory import RomBlock
from .. import designs, sym
from ..sym import SymInt, explore, to_bv, to_cond, is_sym, stubs

PROP = 'C17'
LEVEL = 'model_checking'
ASSUMPTIONS = [
    'gate delays are non-negative solver variables, one per (op, operand width) resp. per memory; r and @ nets return -1 '
    '(documented: a negative delay ends the path)',
    'oracle for timing: explicit enumeration of all register-free source-to-wire paths of the (small) design, max of sums',
    'paths(): an SMT characterisation of simple net paths (positions as integer variables, adjacency constraints, all-different); '
    'a memory write net is followed by a read net of the same memory',
    'max_freq: IEEE double arithmetic modelled with z3 FloatingPoint (round-nearest-even), max_length a free finite variable in [0, 1e9]',
    'stub: max in pyrtl.analysis (ite-based on symbolic arguments)',
]
DW = 10


def bounds(tier):
    return {'designs': 'EXPR/SEQ/MISC designs with <= %d nets (critical_path: <= 7 nets)' % (12 if tier == 'quick' else 16),
            'paths': 'all (src, dst) pairs of Inputs/Registers x Outputs/Registers', 'max_freq': 'tech in {130, 65, 45, 250}, ffoverhead in {None, 0, 100, 383}'}


def run_timing_history(case, ob, site):
    """analyses are independent of one another: a default-model analysis gives the same delays before and after an analysis
    of the same block under a custom (symbolic) delay model"""
    block = designs.build(case)
    with stubs(analysis, max=zmax):
        pb = explore(lambda: analysis.TimingAnalysis(block=block))
    ok = len(pb) == 1 and pb[0].exc is None and all(isinstance(x, (int, float)) for x in pb[0].result.timing_map.values())
    if not ob.fact('default-analysis-is-concrete', ok, site + ':first-analysis',
                   detail='the default-model analysis already depends on delay models of earlier analyses in this process'):
        return
    before = pb[0].result
    funcs, cache = delay_funcs()
    with stubs(analysis, max=zmax):
        paths = explore(lambda: analysis.TimingAnalysis(block=block, gate_delay_funcs=funcs))

        def again():
            ta = analysis.TimingAnalysis(block=block)
            return ta, ta.max_length()
        after = explore(again)
    ob.paths += len(paths) + len(after)
    for p in after:
        if p.exc is not None:
            ob.prove('default-analysis-after-custom-one-accepts-design', z3.Not(p.cond()), [], None, site=site + ':exception')
            continue
        ta, ml = p.result
        goals = [('default-timing-unchanged-by-earlier-custom-analysis:%s' % w.name, zcond(ta.timing_map[w] == before.timing_map[w]),
                  site + ':timing_map') for w in sorted(before.timing_map, key=lambda w: w.name) if w in ta.timing_map]
        ob.fact('same-wires-timed', set(ta.timing_map) == set(before.timing_map), site + ':timed-wires')
        goals.append(('default-max_length-unchanged', zcond(ml == before.max_length()), site + ':max_length'))
        ob.prove_all(goals, p.pc + [d.t >= 0 for d in cache.values()], None)


def run_timing_copy(case, ob, site):
    """the default-model analysis of a copy equals that of its source (the copy is the same design)"""
    block = designs.build(case)
    ta = analysis.TimingAnalysis(block=block)
    cp = pyrtl.copy_block(block, update_working_block=False)
    tb = analysis.TimingAnalysis(block=cp)
    byname = {w.name: x for w, x in tb.timing_map.items()}
    bad = {w.name: (x, byname.get(w.name)) for w, x in ta.timing_map.items() if byname.get(w.name) != x}
    ob.fact('copy-has-the-timing-of-its-source', not bad, site + ':timing_map', detail=bad)
    ob.fact('copy-has-the-max_length-of-its-source', ta.max_length() == tb.max_length(), site + ':max_length',
            detail=[ta.max_length(), tb.max_length()])


def cases(tier, seed):
    out = []
    n = 40 if tier == 'quick' else 800
    for i, c in enumerate(designs.expr_cases(n, seed + 5, n=5, maxw=4)):
        c['n'] = 3 + i % (7 if tier == 'quick' else 11)
        out.append(dict(c, k='timing'))
        out.append(dict(c, k='paths'))
    for c in designs.seq_cases(widths=(3,)) + designs.misc_cases() + designs.dup_cases()[:10]:
        out.append(dict(c, k='timing'))
        out.append(dict(c, k='paths'))
    for name in ('reconv', 'self_and', 'mem_wr_rd', 'two_mems', 'reg_loop', 'diamond3',
                 'mem_rd_to_wraddr', 'mem_rd_to_wrdata', 'mem_two_rd_feedback'):
        out.append({'fam': 'GRAPH', 'kind': name, 'k': 'timing'})
        out.append({'fam': 'GRAPH', 'kind': name, 'k': 'paths'})
    out = [dict(c, wb='foreign' if i % 3 == 1 else 'same') for i, c in enumerate(out)]
    for tech in (130, 65, 45, 250):
        for ff in (None, 0, 100, 383):
            out.append({'k': 'max_freq', 'tech': tech, 'ff': ff})
    for name in ('reconv', 'mem_wr_rd', 'diamond3'):
        out.append({'fam': 'GRAPH', 'kind': name, 'k': 'timing_history', 'wb': 'same'})
    for name in ('mem_wr_rd', 'two_mems', 'mem_rd_to_wraddr', 'reconv'):
        out.append({'fam': 'GRAPH', 'kind': name, 'k': 'paths', 'form': 'copy', 'wb': 'same'})
        out.append({'fam': 'GRAPH', 'kind': name, 'k': 'timing_copy', 'wb': 'same'})
    return out


def build_graph(d):
    k = d['kind']
    if k == 'reconv':
        a, b = pyrtl.Input(3, 'a'), pyrtl.Input(3, 'b')
        t = a & b
        u = t | a
        v = t ^ b
        o = pyrtl.Output(4, 'o')
        o <<= u + v
    elif k == 'self_and':       # src feeds a net directly and through another route
        a = pyrtl.Input(2, 'a')
        o = pyrtl.Output(2, 'o')
        o <<= a & ~a
    elif k == 'mem_wr_rd':
        m = pyrtl.MemBlock(bitwidth=3, addrwidth=2, name='m', asynchronous=True)
        a, d_, we, ra = pyrtl.Input(2, 'a'), pyrtl.Input(3, 'd'), pyrtl.Input(1, 'we'), pyrtl.Input(2, 'ra')
        m[a] <<= pyrtl.MemBlock.EnabledWrite(d_ ^ 1, we)
        o = pyrtl.Output(3, 'o')
        o <<= m[ra] + 1
    elif k == 'two_mems':
        m1 = pyrtl.MemBlock(bitwidth=3, addrwidth=2, name='m1', asynchronous=True)
        m2 = pyrtl.MemBlock(bitwidth=5, addrwidth=2, name='m2', asynchronous=True)
        a, d_ = pyrtl.Input(2, 'a'), pyrtl.Input(3, 'd')
        m1[a] <<= d_
        m2[a] <<= pyrtl.concat(d_, d_[0:2])
        o1, o2 = pyrtl.Output(3, 'o1'), pyrtl.Output(5, 'o2')
        o1 <<= m1[a]
        o2 <<= m2[a] | m2[(a + 1)[0:2]]
    elif k == 'mem_rd_to_wraddr':   # a read port's data is the write address of the same memory
        m = pyrtl.MemBlock(bitwidth=2, addrwidth=2, name='m', asynchronous=True)
        a, d_ = pyrtl.Input(2, 'a'), pyrtl.Input(2, 'd')
        rd = m[a]
        m[rd] <<= d_
        o = pyrtl.Output(2, 'o')
        o <<= rd
    elif k == 'mem_rd_to_wrdata':   # read-modify-write: read data feeds write data and enable
        m = pyrtl.MemBlock(bitwidth=3, addrwidth=2, name='m', asynchronous=True)
        a, we = pyrtl.Input(2, 'a'), pyrtl.Input(1, 'we')
        rd = m[a]
        m[a] <<= pyrtl.MemBlock.EnabledWrite((rd + 1)[0:3], we & rd[0])
        o = pyrtl.Output(3, 'o')
        o <<= rd ^ 5
    elif k == 'mem_two_rd_feedback':  # two read ports, one feeding the write port, both observed
        m = pyrtl.MemBlock(bitwidth=2, addrwidth=2, name='m', asynchronous=True)
        a, b = pyrtl.Input(2, 'a'), pyrtl.Input(2, 'b')
        r1, r2 = m[a], m[b]
        m[r1] <<= r2
        o1, o2 = pyrtl.Output(2, 'o1'), pyrtl.Output(2, 'o2')
        o1 <<= r1
        o2 <<= r2 | r1
    elif k == 'reg_loop':
        r = pyrtl.Register(3, 'r')
        a = pyrtl.Input(3, 'a')
        r.next <<= (r + a)[0:3] ^ a
        o = pyrtl.Output(3, 'o')
        o <<= r & a
    elif k == 'diamond3':
        a = pyrtl.Input(2, 'a')
        x, y, z = ~a, a & a, a | a
        o = pyrtl.Output(2, 'o')
        o <<= (x ^ y) & z
    return pyrtl.working_block()


designs.register_family('GRAPH', build_graph)


# ------------------------------------------------------------------------------------------

class SymZ(object):
    """a natural-number delay as a z3 Int term (max-plus reasoning is linear integer arithmetic)"""
    __hash__ = None

    def __init__(self, t, nonneg=True):
        self.t, self.nonneg = t, nonneg

    @staticmethod
    def lift(x):
        return x.t if isinstance(x, SymZ) else z3.IntVal(int(x))

    def __add__(self, o):
        return SymZ(self.t + SymZ.lift(o), self.nonneg and (isinstance(o, SymZ) and o.nonneg or not isinstance(o, SymZ) and o >= 0))

    __radd__ = __add__

    def _cmp(self, o, f):
        return sym.SymBool.mk(z3.simplify(f(self.t, SymZ.lift(o))))

    def __lt__(self, o):
        if self.nonneg and not isinstance(o, SymZ) and o <= 0:
            return False
        return self._cmp(o, lambda a, b: a < b)

    def __le__(self, o):
        return self._cmp(o, lambda a, b: a <= b)

    def __gt__(self, o):
        return self._cmp(o, lambda a, b: a > b)

    def __ge__(self, o):
        if self.nonneg and not isinstance(o, SymZ) and o <= 0:
            return True
        return self._cmp(o, lambda a, b: a >= b)

    def __eq__(self, o):
        return self._cmp(o, lambda a, b: a == b)

    def __ne__(self, o):
        return self._cmp(o, lambda a, b: a != b)


def zmax(*args):
    if len(args) == 1 and not isinstance(args[0], (SymZ, int)):
        args = list(args[0])
    if not any(isinstance(a, SymZ) for a in args):
        return max(args)
    acc = args[0]
    for a in args[1:]:
        ta, tb = SymZ.lift(acc), SymZ.lift(a)
        acc = SymZ(z3.If(tb > ta, tb, ta), True)
    return acc


def zcond(x):
    return to_cond(x) if not isinstance(x, bool) else z3.BoolVal(x)


def delay_funcs():
    """gate_delay_funcs returning solver variables (memoised per (op, width) / memory)"""
    cache = {}

    def mk(op):
        def f(x):
            if op in 'r@':
                return -1
            key = (op, x.name if hasattr(x, 'addrwidth') else x)
            if key not in cache:
                cache[key] = SymZ(z3.Int('d_%s_%s' % (op if op.isalnum() else 'op%d' % ord(op), key[1])))
            return cache[key]
        return f
    return {op: mk(op) for op in 'w~&|^n+-*<>=xcsrm@'}, cache


def delay_of(net, funcs):
    if net.op == 'm':
        return funcs['m'](net.op_param[1])
    return funcs[net.op](len(net.args[0]))


def all_paths_to(block, wire, producers, memo):
    """every register-free path (list of nets) from an Input/Const/Register to `wire`"""
    if wire in memo:
        return memo[wire]
    if isinstance(wire, (pyrtl.Input, pyrtl.Const, pyrtl.Register)) or wire not in producers:
        memo[wire] = [[]]
        return memo[wire]
    n = producers[wire]
    res = []
    for a in n.args:
        for p in all_paths_to(block, a, producers, memo):
            res.append(p + [n])
    memo[wire] = res
    return res


def run_timing(case, ob, site):
    block = designs.build(case)
    if len(block.logic) > (14 if True else 0):
        ob.notes.append('design larger than the bound: skipped')
        ob.fact('skipped', True)
        return
    funcs, cache = delay_funcs()
    with stubs(analysis, max=zmax):
        if case.get('wb') == 'foreign':
            pyrtl.set_working_block(_decoy(), no_sanity_check=True)
        paths = explore(lambda: analysis.TimingAnalysis(block=block, gate_delay_funcs=funcs))
    ob.paths += len(paths)
    producers = {}
    for n in block.logic:
        if n.op not in 'r@':
            for d in n.dests:
                producers[d] = n
    memo = {}
    for p in paths:
        if p.exc is not None:
            ob.prove('TimingAnalysis-accepts-design', z3.Not(p.cond()), [], None, site=site + ':exception')
            continue
        ta = p.result
        goals = []
        best = 0
        for w in sorted(block.wirevector_set, key=lambda w: w.name):
            if w not in ta.timing_map:
                # wires behind a negative-delay net (register/write) only: every non-register wire must be timed
                ob.fact('wire-timed:%s' % w.name, isinstance(w, pyrtl.Register) or w not in producers and not isinstance(w, (pyrtl.Input, pyrtl.Const)),
                        site + ':untimed')
                continue
            ps = all_paths_to(block, w, producers, memo)
            sums = []
            for path in ps:
                s = 0
                for n in path:
                    s = s + delay_of(n, funcs)
                sums.append(s)
            exp = zmax(sums) if len(sums) > 1 else sums[0]
            best = zmax(best, exp)
            goals.append(('timing:%s' % w.name, zcond(ta.timing_map[w] == exp), site + ':timing_map'))
        with stubs(analysis, max=zmax):
            ml = ta.max_length()
        goals.append(('max_length', zcond(ml == best), site + ':max_length'))
        nonneg = [d.t >= 0 for d in cache.values()]
        ob.prove_all(goals, p.pc + nonneg, None)
        if len(block.logic) <= 7:
            check_critical(ob, block, ta, funcs, producers, memo, p.pc, site, nonneg)


def check_critical(ob, block, ta, funcs, producers, memo, pc, site, nonneg=()):
    nonneg = list(nonneg)
    with stubs(analysis, max=zmax):
        cps = explore(lambda: ta.critical_path(print_cp=False, cp_limit=1000), assumptions=list(pc) + nonneg, max_paths=600)
    ob.paths += len(cps)
    with stubs(analysis, max=zmax):
        ml = ta.max_length()
    # oracle: all complete paths (source wire, nets)
    allp = []
    for w in block.wirevector_set:
        if w in ta.timing_map:
            for path in all_paths_to(block, w, producers, memo):
                first = path[0].args if path else None
                allp.append((w, path))
    for q in cps:
        if q.exc is not None:
            ob.prove('critical_path-no-exception', z3.Not(q.cond()), pc, None, site=site + ':cp-exception')
            continue
        returned = q.result
        rset = set()
        goals = []
        for first, nets in returned:
            s = 0
            for n in nets:
                s = s + delay_of(n, funcs)
            goals.append(('critical-path-sums-to-max_length', zcond(s == ml), site + ':cp-sum'))
            rset.add(tuple(id(n) for n in nets))
            chain_ok = all(any(a is nets[i].dests[0] for a in nets[i + 1].args) for i in range(len(nets) - 1))
            starts_ok = (not nets) or any(a is first for a in nets[0].args)
            ob.fact('critical-path-is-a-connected-chain-from-its-first-wire', chain_ok and starts_ok, site + ':cp-chain')
        # every oracle path that attains the maximum (and ends where nothing extends it) is returned
        for w, path in allp:
            s = 0
            for n in path:
                s = s + delay_of(n, funcs)
            if tuple(id(n) for n in path) not in rset and path:
                goals.append(('maximal-path-is-returned', z3.Not(zcond(s == ml)), site + ':cp-missing'))
        ob.prove_all(goals, list(pc) + nonneg + q.pc, None)


# ------------------------------------------------------------------------------------------

def smt_paths(block, src, dst, returned):
    """(missing?, extra?) using an SMT characterisation of simple net paths from src to dst"""
    nets = sorted(block.logic, key=lambda n: (n.op, n.dests[0].name if n.dests else '', tuple(a.name for a in n.args)))
    idx = {id(n): i for i, n in enumerate(nets)}
    N = len(nets)

    def succ(n):
        """nets that can follow n on a path"""
        if n.op == '@':
            return [r for r in nets if r.op == 'm' and r.op_param[1] is n.op_param[1]]
        d = n.dests[0]
        return [m for m in nets if any(a is d for a in m.args)]
    adj = {(idx[id(n)], idx[id(m)]) for n in nets for m in succ(n)}
    starts = [idx[id(n)] for n in nets if any(a is src for a in n.args)]
    ends = [idx[id(n)] for n in nets if n.dests and n.dests[0] is dst and n.op != '@']
    L = N
    pos = [z3.Int('p%d' % i) for i in range(L)]
    ln = z3.Int('len')
    s = z3.Solver()
    s.add(ln >= 1, ln <= L)
    for i in range(L):
        s.add(z3.If(i < ln, z3.And(pos[i] >= 0, pos[i] < N), pos[i] == -1))
    s.add(z3.Or(*[pos[0] == k for k in starts]) if starts else z3.BoolVal(False))
    for i in range(L):
        s.add(z3.Implies(ln == i + 1, z3.Or(*[pos[i] == k for k in ends]) if ends else z3.BoolVal(False)))
    for i in range(L - 1):
        s.add(z3.Implies(i + 1 < ln, z3.Or(*[z3.And(pos[i] == a, pos[i + 1] == b) for a, b in adj]) if adj else z3.BoolVal(False)))
    for i in range(L):
        for j in range(i + 1, L):
            s.add(z3.Implies(j < ln, pos[i] != pos[j]))
    # simple: the path never comes back to the source wire (a wire has one producer, so distinct nets give distinct wires otherwise)
    back = [idx[id(n)] for n in nets if n.dests and n.dests[0] is src]
    for i in range(L):
        for k in back:
            if src is dst:
                s.add(z3.Implies(i + 1 < ln, pos[i] != k))
            else:
                s.add(pos[i] != k)
    rpaths = [[idx[id(n)] for n in p] for p in returned]
    extra = []
    for rp in rpaths:
        if len(rp) > L:           # more nets than the block has: some net repeats
            extra.append(rp)
            continue
        t = z3.Solver()
        t.add(s.assertions())
        t.add(ln == len(rp))
        for i, k in enumerate(rp):
            t.add(pos[i] == k)
        if t.check() != z3.sat:
            extra.append(rp)
    for rp in rpaths:
        if len(rp) <= L:
            s.add(z3.Not(z3.And(ln == len(rp), *[pos[i] == k for i, k in enumerate(rp)])))
    missing = None
    if s.check() == z3.sat:
        m = s.model()
        k = m[ln].as_long()
        missing = [nets[m[pos[i]].as_long()] for i in range(k)]
    return missing, extra, nets


def _decoy():
    b = pyrtl.Block()
    with pyrtl.set_working_block(b, no_sanity_check=True):
        x = pyrtl.Input(2, 'x_other')
        y = pyrtl.Output(2, 'y_other')
        y <<= ~x
    return b


def run_paths(case, ob, site):
    # what paths() returns may depend on the order in which the block's sets of identity-hashed nets are walked: the same
    # design is built several times (different object addresses, hence different orders)
    for rep in range(8):
        _run_paths_once(case, ob, site)
        if ob.sat:
            break


def _run_paths_once(case, ob, site):
    block = designs.build(case)
    if case.get('form') == 'copy':
        # "for every design": also one that copy_block() produced
        block = pyrtl.copy_block(block, update_working_block=True)
    if len(block.logic) > 14:
        ob.fact('skipped', True)
        return
    srcs = sorted(block.wirevector_subset((pyrtl.Input, pyrtl.Register)), key=lambda w: w.name)
    dsts = sorted(block.wirevector_subset((pyrtl.Output, pyrtl.Register)), key=lambda w: w.name)
    if case.get('wb') == 'foreign':      # the block is passed as block= while an unrelated block is the working block
        pyrtl.set_working_block(_decoy(), no_sanity_check=True)
    res = analysis.paths(srcs, dsts, block=block)
    if (len(srcs) + len(dsts)) % 2 == 0:
        # the single-wire call forms and the default dst (all Outputs) must agree with the batch call
        for s_ in srcs[:2]:
            one = analysis.paths(s_, None, block=block)
            outs_ = sorted(block.wirevector_subset(pyrtl.Output), key=lambda w: w.name)
            same = set(one.keys()) == {s_} and set(one[s_].keys()) == set(outs_) and all(
                sorted(tuple(id(n) for n in p) for p in one[s_][o_]) == sorted(tuple(id(n) for n in p) for p in res[s_][o_]) for o_ in outs_)
            ob.fact('paths(src)-default-dst-equals-batch-call:%s' % s_.name, same, site + ':call-forms')
    weight = lambda net: 1 + 3 * len(net.args) + (7 if net.op in 'm@' else 0)
    for s_ in srcs:
        for d_ in dsts:
            got = res[s_][d_]
            # distance(): the same paths, each mapped to the sum of f over its nets
            dist = analysis.distance(s_, d_, weight, block=block)
            want = {tuple(id(n) for n in p): sum(weight(n) for n in p) for p in got}
            have = {tuple(id(n) for n in k_): v_ for k_, v_ in dist.items()}
            ob.fact('distance-sums-f-over-each-path:%s->%s' % (s_.name, d_.name), have == want, site + ':distance',
                    detail={'src': s_.name, 'dst': d_.name})
            missing, extra, nets = smt_paths(block, s_, d_, got)
            ob.n += 1
            ob.paths += 1
            if missing is None:
                ob.unsat += 1
            else:
                ob.sat.append({'property': PROP, 'obligation': 'every-simple-net-path-is-returned', 'site': site + ':missing-path',
                               'case': case, 'src': s_.name, 'dst': d_.name, 'missing': [str(n) for n in missing]})
            ob.fact('returned-paths-are-simple-net-paths:%s->%s' % (s_.name, d_.name), not extra, site + ':bogus-path',
                    detail={'src': s_.name, 'dst': d_.name})
            dup = len(set(tuple(id(n) for n in p) for p in got)) != len(got)
            ob.fact('no-duplicate-paths:%s->%s' % (s_.name, d_.name), not dup, site + ':duplicate-path')
    # fanout
    for w in block.wirevector_set:
        cnt = sum(1 for n in block.logic for a in n.args if a is w)
        ob.fact('fanout:%s' % w.name, analysis.fanout(w) == cnt, site + ':fanout', detail={'wire': w.name, 'count': cnt})
    if ob.sample is None:
        ob.sample = {'obligation': 'paths/fanout of %d src x %d dst pairs' % (len(srcs), len(dsts)), 'result': 'unsat'}


# ------------------------------------------------------------------------------------------
# max_freq on an IEEE-754 double proxy

RM = z3.RNE()
F64 = z3.Float64()


class SymFloat(object):
    def __init__(self, t):
        self.t = t

    @staticmethod
    def lift(x):
        if isinstance(x, SymFloat):
            return x.t
        return z3.FPVal(float(x), F64)

    def __add__(self, o):
        return SymFloat(z3.fpAdd(RM, self.t, SymFloat.lift(o)))

    def __radd__(self, o):
        return SymFloat(z3.fpAdd(RM, SymFloat.lift(o), self.t))

    def __mul__(self, o):
        return SymFloat(z3.fpMul(RM, self.t, SymFloat.lift(o)))

    def __rmul__(self, o):
        return SymFloat(z3.fpMul(RM, SymFloat.lift(o), self.t))

    def __truediv__(self, o):
        return SymFloat(z3.fpDiv(RM, self.t, SymFloat.lift(o)))

    def __rtruediv__(self, o):
        return SymFloat(z3.fpDiv(RM, SymFloat.lift(o), self.t))

    def __sub__(self, o):
        return SymFloat(z3.fpSub(RM, self.t, SymFloat.lift(o)))

    def __rsub__(self, o):
        return SymFloat(z3.fpSub(RM, SymFloat.lift(o), self.t))


def max_freq_circuit():
    pyrtl.reset_working_block()
    a = pyrtl.Input(2, 'a')
    o = pyrtl.Output(2, 'o')
    o <<= ~a
    return pyrtl.working_block()


def run_max_freq(case, ob, site):
    block = max_freq_circuit()
    ta = analysis.TimingAnalysis(block=block)
    Lv = z3.FP('L', F64)
    L = SymFloat(Lv)
    ta.timing_map = {w: L for w in ta.timing_map}
    pre = [z3.fpGEQ(Lv, z3.FPVal(0.0, F64)), z3.fpLEQ(Lv, z3.FPVal(1e9, F64))]
    if case['ff'] == 0:
        pre.append(z3.fpGT(Lv, z3.FPVal(0.0, F64)))     # (a zero clock period has no frequency: ZeroDivisionError on real floats)
    with stubs(analysis, max=lambda xs: list(xs)[0]):
        got = ta.max_freq(tech_in_nm=case['tech'], ffoverhead=case['ff']) if case['ff'] is not None else ta.max_freq(tech_in_nm=case['tech'])
    scale = z3.FPVal(case['tech'] / 130.0, F64)      # Dennard scaling: delays shrink with the feature size
    if case['ff'] is None:
        period = z3.fpMul(RM, scale, z3.fpAdd(RM, z3.fpAdd(RM, Lv, z3.FPVal(189.0, F64)), z3.FPVal(194.0, F64)))
    else:
        period = z3.fpAdd(RM, z3.fpMul(RM, scale, Lv), z3.FPVal(float(case['ff']), F64))
    exp = z3.fpDiv(RM, z3.FPVal(1e6 * 1.0, F64), period)
    ok = isinstance(got, SymFloat)
    ob.fact('max_freq-is-a-float-function-of-max_length', ok, site + ':shape')
    if ok:
        def ext(m):
            val = m.eval(Lv, model_completion=True)
            try:
                fr = z3.simplify(z3.fpToReal(val)).as_fraction()
                return {'L': float(fr)}
            except Exception:
                return {'L': str(val)}
        name = 'max_freq(tech=%s, ffoverhead=%s)' % (case['tech'], case['ff'])
        # ground instances first: a wrong formula is refuted by constant folding in milliseconds, whereas the solver may
        # need minutes to find a floating-point witness on its own; the general query follows only if these hold
        for L0 in (0.0, 1.0, 100.0, 1234.5):
            if L0 == 0.0 and case['ff'] == 0:
                continue
            if ob.prove('%s at max_length=%s' % (name, L0), (got.t == exp), pre + [z3.fpEQ(Lv, z3.FPVal(L0, F64))], None,
                        site=site, extract=ext) == 'sat':
                ob.paths += 1
                return
        ob.prove(name, (got.t == exp), pre, None, site=site, extract=ext)
    ob.paths += 1


def site_of(c):
    if c['k'] == 'max_freq':
        return 'C17:max_freq'
    d = c.get('kind') or c['fam']
    return 'C17:%s:%s%s' % (c['k'], d, ':copy' if c.get('form') == 'copy' else '')


def run_case(case, ob, tier):
    {'timing': run_timing, 'paths': run_paths, 'max_freq': run_max_freq, 'timing_history': run_timing_history, 'timing_copy': run_timing_copy}[case['k']](case, ob, site_of(case))


def replay(cex):
    c = cex['case']
    if c['k'] == 'timing_history':
        # concrete: default analysis, an analysis with every gate delay 1000, default analysis again
        block = designs.build(c)
        before = analysis.TimingAnalysis(block=block)
        analysis.TimingAnalysis(block=block, gate_delay_funcs={op: (lambda x: -1) if op in 'r@' else (lambda x: 1000) for op in 'w~&|^n+-*<>=xcsrm@'})
        after = analysis.TimingAnalysis(block=block)
        bad = ['%s: %r before, %r after an analysis under a custom delay model' % (w.name, before.timing_map[w], after.timing_map.get(w))
               for w in before.timing_map if after.timing_map.get(w) != before.timing_map[w]]
        return bool(bad), '\n'.join(sorted(bad)[:6])
    if c['k'] == 'timing_copy':
        from ..core import Obligations
        ob = Obligations(PROP, c, 10000)
        run_timing_copy(c, ob, site_of(c))
        return bool(ob.sat), 'timing of the copy differs from its source: %r' % [(x['obligation'], x.get('detail')) for x in ob.sat][:3]
    if c['k'] == 'paths':
        block = designs.build(c)
        if c.get('form') == 'copy':
            block = pyrtl.copy_block(block, update_working_block=True)
        if cex.get('structural'):
            from ..core import Obligations
            ob = Obligations(PROP, c, 10000)
            run_paths(c, ob, site_of(c))
            bad = [x['obligation'] for x in ob.sat if x.get('structural')]
            return cex['obligation'] in bad, 'failing facts on replay: %r' % bad[:5]
        def one(block, s_, d_, res):
            got = res[s_][d_]
            # independent confirmation by a plain depth-first enumeration of simple net paths
            found = []

            def dfs(w, path):
                for n in block.logic:
                    if any(a is w for a in n.args) and all(n is not p for p in path):
                        if n.op == '@':
                            for r in block.logic:
                                if r.op == 'm' and r.op_param[1] is n.op_param[1] and all(r is not p for p in path):
                                    if r.dests[0] is d_:
                                        found.append(path + [n, r])
                                    dfs(r.dests[0], path + [n, r])
                        else:
                            if n.dests[0] is d_:
                                found.append(path + [n])
                            if n.dests[0] is not s_:
                                dfs(n.dests[0], path + [n])
            dfs(s_, [])
            gotset = set(tuple(id(n) for n in p) for p in got)
            miss = [p for p in found if tuple(id(n) for n in p) not in gotset]
            return bool(miss), 'paths(%s, %s) returned %d path(s); simple net path(s) not returned: %s' % (
                s_.name, d_.name, len(got), [[str(n).strip() for n in p] for p in miss[:2]])
        # what paths() returns may depend on the order in which the block's sets are walked, which differs from process to
        # process: the pair of the counterexample first, then the other (src, dst) pairs, on a few fresh builds
        text = ''
        for attempt in range(40):
            if attempt:
                block = designs.build(c)
                if c.get('form') == 'copy':
                    block = pyrtl.copy_block(block, update_working_block=True)
            by = block.wirevector_by_name
            srcs = sorted(block.wirevector_subset((pyrtl.Input, pyrtl.Register)), key=lambda w: w.name)
            dsts = sorted(block.wirevector_subset((pyrtl.Output, pyrtl.Register)), key=lambda w: w.name)
            pairs = [(by[cex['src']], by[cex['dst']])] + [(x, y) for x in srcs for y in dsts if (x.name, y.name) != (cex['src'], cex['dst'])]
            # the call form of the check: one batch call for all pairs (what one pair's search leaves behind may matter)
            res = analysis.paths(srcs, dsts, block=block) if attempt % 2 == 0 else None
            for s_, d_ in pairs:
                bad, t_ = one(block, s_, d_, res if res is not None else analysis.paths(s_, d_, block=block))
                text = text or t_
                if bad:
                    return True, t_
        return False, text
    if c['k'] == 'max_freq':
        L = cex.get('L')
        if not isinstance(L, (int, float)):
            return False, 'max_freq counterexample without a finite max_length: %r' % (L,)
        block = max_freq_circuit()
        ta = analysis.TimingAnalysis(block=block)
        ta.timing_map = {w: float(L) for w in ta.timing_map}
        got = ta.max_freq(tech_in_nm=c['tech'], ffoverhead=c['ff']) if c['ff'] is not None else ta.max_freq(tech_in_nm=c['tech'])
        scale = c['tech'] / 130.0
        period = scale * (float(L) + 189.0 + 194.0) if c['ff'] is None else scale * float(L) + float(c['ff'])
        exp = 1e6 * 1.0 / period
        return got != exp, 'max_length=%r tech=%r ffoverhead=%r: max_freq() = %r, documented formula gives %r' % (
            L, c['tech'], c['ff'], got, exp)
    # timing: evaluate with concrete delays from the model is not recorded per variable; re-run symbolically
    from ..core import Obligations
    ob = Obligations(PROP, c, 20000)
    run_timing(c, ob, site_of(c))
    return bool(ob.sat), 'timing obligations failing again on re-execution of the real TimingAnalysis: %r' % [x['obligation'] for x in ob.sat][:5]
