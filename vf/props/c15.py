"""C15 — all observation channels of a simulation agree; illegal inputs are refused.

Real code run symbolically: Simulation/FastSimulation/CompiledSimulation step, step_multiple, inspect, SimulationTrace
add_step/add_fast_step/__len__/print_vcd, rtl_assert/check_rtl_assertions, CompiledSimulation.run (input validation,
packing). print_trace (C-level number formatting) is decided on solver-chosen concrete traces."""
import io
import re
import z3
import pyrtl
from pyrtl import simulation as simmod
from .. import designs, simdrv, sym, concrete
from ..simdrv import Vars, run_sim, sym_env, CompiledModel, run_compiled
from ..sym import SymInt, explore, to_bv, to_cond, is_sym

PROP = 'C15'
LEVEL = 'model_checking'
ASSUMPTIONS = [
    'inputs / expected outputs / initial state are solver variables; illegal-input clause: the value is an UNCONSTRAINED integer '
    'in [-2^(w+2), 2^(w+2))',
    'report / VCD text is produced from symbolic values through format placeholders and parsed back into terms',
    'print_trace: number formatting happens in C (str.format), so it is decided on solver-chosen concrete traces covering every '
    'digit-length class (bounded witness check, stated as such)',
    'stubs/merge points of vf/simdrv.py; ctrans model for the compiled back end',
]
SIMS = ['sim', 'fast', 'compiled']


def bounds(tier):
    return {'designs': 'EXPR/SEQ %d' % (20 if tier == 'quick' else 300), 'K': 3, 'simulators': SIMS,
            'illegal input range': '[-2^(w+2), 2^(w+2)) for w in {1, 4, 8, 64, 70}'}


def cases(tier, seed):
    out = []
    ds = designs.expr_cases(14 if tier == 'quick' else 280, seed + 21, n=5, maxw=5, nrom=0) + \
        [c for c in designs.seq_cases(widths=(3,)) if c['kind'] in ('chain', 'counter', 'mem_rdw', 'reg_out')]
    for c in ds:
        for s in SIMS:
            out.append(dict(c, k='inspect', sim=s, K=3))
    for c in ds[:10 if tier == 'quick' else 150]:
        for s in SIMS:
            out.append(dict(c, k='step_multiple', sim=s, K=2, keys=('name', 'wire')[len(out) % 2]))
            out.append(dict(c, k='step_multiple', sim=s, K=3, form='nsteps', keys=('name', 'wire')[len(out) % 2]))
            out.append(dict(c, k='vcd', sim=s, K=2))
            out.append(dict(c, k='print_trace', sim=s, K=3))
    for kind_ in ('digits', 'mixed', 'odd', 'long', 'collide'):
        for s in SIMS:
            out.append({'fam': 'VCDN', 'kind': kind_, 'k': 'vcd', 'sim': s, 'K': 2, 'seed': len(out)})
            out.append({'fam': 'VCDN', 'kind': kind_, 'k': 'print_trace', 'sim': s, 'K': 3})
            out.append({'fam': 'VCDN', 'kind': kind_, 'k': 'step_multiple', 'sim': s, 'K': 2, 'keys': ('name', 'wire')[len(out) % 2]})
    for s in ('sim', 'fast'):
        for w in (1, 3):
            for exc in ('custom', 'pyrtl', 'internal', 'value', 'lookup', 'runtime', 'keyerror', 'keyerror_sub'):
                if w == 3 and exc not in ('custom', 'pyrtl'):
                    continue
                out.append({'k': 'rtl_assert', 'sim': s, 'w': w, 'K': 3, 'exc': exc})
            out.append({'k': 'rtl_assert_channels', 'sim': s, 'w': w, 'K': 3})
            out.append({'k': 'rtl_assert', 'sim': s, 'w': w, 'K': 3, 'exc': 'custom', 'track': 'subset'})
    for s in SIMS:
        for w in (1, 4, 8, 64, 70):
            out.append({'k': 'illegal', 'sim': s, 'w': w})
            if s != 'compiled':
                out.append({'k': 'illegal', 'sim': s, 'w': w, 'dv': (1 << w) + 1})
                out.append({'k': 'illegal', 'sim': s, 'w': w, 'dv': 1})
            if s != 'compiled':
                for ill in ('big', 'neg'):
                    out.append({'k': 'rejected_step', 'sim': s, 'w': w, 'illegal': ill})
    for s in SIMS:
        out.append({'k': 'step_multiple_resume', 'sim': s})
        out.append({'k': 'dup_track', 'sim': s, 'K': 3})
    for c in ds[:8 if tier == 'quick' else 150]:
        for s in SIMS:
            out.append(dict(c, k='default_tracer', sim=s, K=2))
    for kind_ in ('plain', 'direct'):
        for s in SIMS:
            out.append({'fam': 'PROBE', 'kind': kind_, 'k': 'default_tracer', 'sim': s, 'K': 3})
            out.append({'fam': 'PROBE', 'kind': kind_, 'k': 'inspect', 'sim': s, 'K': 2})
    for kind_ in ('wide_in', 'wide_out', 'reg'):
        out.append({'fam': 'RUNMANY', 'kind': kind_, 'k': 'run_many', 'sim': 'compiled', 'K': 3})
    for c in ds[:4 if tier == 'quick' else 40]:
        out.append(dict(c, k='run_many', sim='compiled', K=3))
    for c in [c for c in ds if c['fam'] == 'SEQ'] + ds[:6 if tier == 'quick' else 60]:
        for s in ('sim', 'fast'):
            out.append(dict(c, k='two_sims', sim=s, K=2))
    return out


def site_of(c):
    return 'C15:%s:%s' % (c['k'], c['sim'])


def make_sim(kind, block, regs=None, default_value=0):
    if kind == 'sim':
        return simdrv.symbolize_mems(pyrtl.Simulation(block=block, default_value=default_value,
                                                      tracer=pyrtl.SimulationTrace(block=block, wires_to_track='all')), block, kind)
    if kind == 'fast':
        return simdrv.symbolize_mems(pyrtl.FastSimulation(block=block, default_value=default_value,
                                                          tracer=pyrtl.SimulationTrace(block=block, wires_to_track='all')), block, kind)
    raise ValueError(kind)


# ------------------------------------------------------------------------------------------

def do_inspect(case, ob, site):
    block = designs.build(case)
    K = case['K']
    v = Vars()
    kind = case['sim']

    def after(sim, t):
        tr = sim.tracer.trace
        names = list(tr)
        return {'inspect': {n: sim.inspect(n) for n in names}, 'last': {n: tr[n][-1] for n in names},
                'len': len(sim.tracer), 'lens': {n: len(tr[n]) for n in names}}
    if kind == 'compiled':
        cm = CompiledModel(block)
        extras = []

        def body_inputs(t):
            return None
        # run step by step, observing after each step
        def run():
            cm.reset()
            from pyrtl import compilesim as cs
            sim = cm.sim
            sim._crun = lambda steps, ibuf, obuf: cm.crun(steps, ibuf, obuf)
            out = []
            with sym.stubs(cs, ctypes=simdrv._CtypesShim(), int=sym.sym_int):
                for t in range(K):
                    sim.step({w.name: SymInt.mk(v.inp(w.name, t, w.bitwidth), False) for w in block.wirevector_subset(pyrtl.Input)})
                    out.append(after(sim, t))
            return out
        paths = explore(run)
        results = [(p.pc, p.exc, p.result) for p in paths]
    else:
        with sym_env([block]):
            rs = run_sim(block, K, v, kind=kind, reg_init='reset', mem_init='default', track='all', after_step=after)
        results = [(r.pc, r.exc, r.extra) for r in rs]
    ob.paths += len(results)
    for pc, exc, extra in results:
        if exc is not None:
            ob.prove('no-exception', z3.Not(z3.And(*pc)) if pc else z3.BoolVal(False), [], v, site=site + ':exception')
            continue
        goals = []
        for t, e in enumerate(extra):
            ob.fact('trace-length-equals-steps@%d' % t, e['len'] == t + 1 and all(x == t + 1 for x in e['lens'].values()), site + ':length')
            for n in e['inspect']:
                w = block.wirevector_by_name[n]
                goals.append(('inspect(%s)==trace[-1]@%d' % (n, t), to_bv(e['inspect'][n], w.bitwidth + 2) == to_bv(e['last'][n], w.bitwidth + 2),
                              site + ':inspect'))
        ob.prove_all(goals, pc, v)


def build_vcdn(d):
    """names whose natural order (x2 < x10) differs from their lexicographic order, illegal VCD characters, distinct widths"""
    names = {'digits': ['x2', 'x10', 'y9', 'y12'], 'mixed': ['a10b2', 'a2b10', 'o1', 'o01x'], 'odd': ['q.1', 'q%', 'r[3]', 'r[12]'],
             # longer than any column of a report; the outputs agree in their first ten (and twenty) characters
             # names that look like the identifiers print_vcd generates, next to names it has to replace (before and after them)
             'collide': ['_vcd_tmp_0', 'a[0]', '_vcd_tmp_1', 'sum[0]'],
             'long': ['operand_number_one', 'operand_number_two', 'result_of_the_datapath_sum', 'result_of_the_datapath_xor']}[d['kind']]
    a, b = pyrtl.Input(2, names[0]), pyrtl.Input(3, names[1])
    o1, o2 = pyrtl.Output(4, names[2]), pyrtl.Output(5, names[3])
    o1 <<= a + b
    o2 <<= pyrtl.concat(b, a) ^ 21
    return pyrtl.working_block()


designs.register_family('VCDN', build_vcdn)


def build_probe(d):
    """named registers that reach Outputs through ONE net other than a plain wire (after direct_connect_outputs: an inverter, a
    bit select, a memory read) and, for one of them, through a real probe (a 'w' net): which internal wires the compiled
    simulator can report, and with which values"""
    a = pyrtl.Input(3, 'a')
    flag = pyrtl.Register(3, 'flag')
    flag.next <<= a ^ flag
    ptr = pyrtl.Register(2, 'ptr')
    ptr.next <<= a[0:2]
    seen = pyrtl.Register(3, 'seen')
    seen.next <<= a
    m = pyrtl.MemBlock(bitwidth=3, addrwidth=2, name='m', asynchronous=True)
    m[a[0:2]] <<= flag
    o1, o2, o3, o4 = pyrtl.Output(3, 'o1'), pyrtl.Output(2, 'o2'), pyrtl.Output(3, 'o3'), pyrtl.Output(3, 'o4')
    o1 <<= ~flag
    o2 <<= flag[1:3]
    o3 <<= m[ptr]
    o4 <<= seen
    b = pyrtl.working_block()
    if d.get('kind') == 'direct':
        pyrtl.direct_connect_outputs(b)
    return b


designs.register_family('PROBE', build_probe)


def _decoy_block():
    b = pyrtl.Block()
    with pyrtl.set_working_block(b, no_sanity_check=True):
        x = pyrtl.Input(2, 'x_other')
        y = pyrtl.Output(2, 'y_other')
        y <<= ~x
    return b


def do_default_tracer(case, ob, site):
    """the simulator's OWN default tracer (no tracer argument), with the simulated block passed as block= while another block
    is the working block: every explicitly named wire of the simulated block is traced with the value a full trace shows"""
    block = designs.build(case)
    K, kind = case['K'], case['sim']
    v = Vars()
    named = {w.name for w in block.wirevector_set if not (w.name.startswith('tmp') or w.name.startswith('const_') or w.name.endswith("'"))
             and not isinstance(w, pyrtl.Const)}
    io = {w.name for w in block.wirevector_subset((pyrtl.Input, pyrtl.Output))}
    decoy = _decoy_block()
    from .. import spec
    assume = [z3.Not(d) for d in spec.run(block, K, v, reg_init='reset', mem_init='default').double_write]
    with sym_env([block]):
        ref = run_sim(block, K, v, kind='sim', reg_init='reset', mem_init='default', track='all', assumptions=assume)

    def inputs(t):
        return {w.name: SymInt.mk(v.inp(w.name, t, w.bitwidth), False) for w in block.wirevector_subset(pyrtl.Input)}

    def run():
        with pyrtl.set_working_block(decoy, no_sanity_check=True):
            if kind == 'compiled':
                cm = CompiledModel(block, default_tracer=True)
                cm.reset()
                from pyrtl import compilesim as cs
                sim = cm.sim
                sim._crun = lambda steps, ibuf, obuf: cm.crun(steps, ibuf, obuf)
                with sym.stubs(cs, ctypes=simdrv._CtypesShim(), int=sym.sym_int):
                    for t in range(K):
                        sim.step(inputs(t))
            else:
                cls = pyrtl.Simulation if kind == 'sim' else pyrtl.FastSimulation
                sim = simdrv.symbolize_mems(cls(block=block), block, kind)
                for t in range(K):
                    sim.step(inputs(t))
            return {n: list(sim.tracer.trace[n]) for n in sim.tracer.trace}
    if kind == 'compiled':
        paths = explore(run, assumptions=assume)
    else:
        with sym_env([block]):
            paths = explore(run, assumptions=assume)
    ob.paths += len(paths) + len(ref)
    for p in paths:
        if p.exc is not None:
            ob.prove('default-tracer:no-exception(%s)' % type(p.exc).__name__, z3.Not(z3.And(*p.pc)) if p.pc else z3.BoolVal(False), [], v,
                     site=site + ':exception')
            continue
        got = p.result
        if kind == 'compiled':
            ob.fact('default-tracer-covers-inputs-and-outputs', io <= set(got) <= named, site + ':names', detail=sorted(set(got) ^ io))
        else:
            ob.fact('default-tracer-tracks-the-named-wires-of-the-simulated-block', set(got) == named, site + ':names',
                    detail=sorted(set(got) ^ named))
        for r in ref:
            if r.exc is not None:
                continue
            goals = []
            for n in sorted(set(got) & set(r.trace)):
                w = block.wirevector_by_name[n]
                ob.fact('default-trace-length:%s' % n, len(got[n]) == K, site + ':length')
                for t in range(min(K, len(got[n]))):
                    goals.append(('default-trace:%s@%d' % (n, t), to_bv(got[n][t], w.bitwidth + 1) == to_bv(r.trace[n][t], w.bitwidth + 1),
                                  site + ':value'))
            ob.prove_all(goals, assume + list(p.pc) + list(r.pc), v, vacuity=False)


def build_runmany(d):
    """input and output buffers of different numbers of 64-bit words"""
    if d['kind'] == 'wide_in':
        a, b = pyrtl.Input(70, 'a'), pyrtl.Input(3, 'b')
        o = pyrtl.Output(8, 'o')
        o <<= (a[60:68] ^ b)[0:8]
    elif d['kind'] == 'wide_out':
        a = pyrtl.Input(5, 'a')
        o = pyrtl.Output(130, 'o')
        o2 = pyrtl.Output(66, 'o2')
        o <<= pyrtl.concat(a, pyrtl.Const(0, 120), a)
        o2 <<= pyrtl.concat(a, pyrtl.Const(1, 61))
    else:
        a, b = pyrtl.Input(65, 'a'), pyrtl.Input(64, 'b')
        r = pyrtl.Register(65, 'r')
        r.next <<= a ^ b
        o = pyrtl.Output(65, 'o')
        o <<= r
    return pyrtl.working_block()


designs.register_family('RUNMANY', build_runmany)


def do_run_many(case, ob, site):
    """CompiledSimulation.run([step0, step1, ...]) in ONE call is equivalent to stepping one at a time: traced inputs and outputs"""
    block = designs.build(case)
    K = case['K']
    v = Vars()
    with sym_env([block]):
        ref = run_sim(block, K, v, kind='sim', reg_init='reset', mem_init='default', track='io')
    cm = CompiledModel(block)
    rs = run_compiled(cm, K, v, one_call=True)
    ob.paths += len(ref) + len(rs)
    for r in rs:
        if r.exc is not None:
            ob.prove('run(list)-no-exception(%s)' % type(r.exc).__name__, z3.Not(r.cond()), [], v, site=site + ':exception')
            continue
        for q in ref:
            if q.exc is not None:
                continue
            goals = []
            for w in block.wirevector_subset((pyrtl.Input, pyrtl.Output)):
                ob.fact('run(list)-trace-length:%s' % w.name, len(r.trace.get(w.name, [])) == K, site + ':length')
                for t in range(min(K, len(r.trace.get(w.name, [])))):
                    goals.append(('run(list):%s@%d' % (w.name, t), to_bv(r.trace[w.name][t], w.bitwidth + 1) == to_bv(q.trace[w.name][t], w.bitwidth + 1),
                                  site + ':value'))
            ob.prove_all(goals, list(r.pc) + list(q.pc), v, vacuity=False)


def do_two_sims(case, ob, site):
    """two simulators created one after the other on the same block with default arguments are independent: whatever the first
    one was fed, the second starts from the declared reset state and empty memories (no state carried through shared defaults)"""
    block = designs.build(case)
    K, kind = case['K'], case['sim']
    v1, v2 = Vars('first_'), Vars()
    from .. import spec
    shared = case.get('shared_map')
    # 'shared_map': both simulators are given the SAME memory_value_map object (a testbench re-run): the second one starts from
    # the contents the caller put there, whatever the first one wrote
    contents = {m.name: {0: 1, (1 << m.addrwidth) - 1: 1 if m.bitwidth > 1 else 0} for m in simdrv.mems_of(block).values()
                if not isinstance(m, pyrtl.RomBlock)} if shared else {}
    minit = {m.name: sym.SymMem.from_dict(contents[m.name], 0, m.addrwidth, m.bitwidth) for m in simdrv.mems_of(block).values()
             if m.name in contents} if shared else 'default'
    assume = [z3.Not(d) for d in spec.run(block, K, v2, reg_init='reset', mem_init=minit).double_write]
    with sym_env([block]):
        ref = run_sim(block, K, v2, kind='sim', reg_init='reset', mem_init=minit, track='io', assumptions=assume)

    def ins(vv, t):
        return {w.name: SymInt.mk(vv.inp(w.name, t, w.bitwidth), False) for w in block.wirevector_subset(pyrtl.Input)}

    def run():
        cls = pyrtl.Simulation if kind == 'sim' else pyrtl.FastSimulation
        # the first simulator runs on plain ints (all-ones inputs: every enable high, every word non-zero) and on the very
        # objects it created, so that whatever it leaves behind in shared state is really there
        mvm = {m: dict(contents[m.name]) for m in simdrv.mems_of(block).values() if m.name in contents}
        kw = {'memory_value_map': mvm} if shared else {}
        first = cls(block=block, **kw)
        for t in range(K + 1):
            first.step({w.name: w.bitmask for w in block.wirevector_subset(pyrtl.Input)})
        second = cls(block=block, **kw)
        # the second simulator's memories as it created them (an aliased default would already hold the first one's words)
        polluted = []
        for mid, m in simdrv.mems_of(block).items():
            store = second.memvalue.get(mid) if kind == 'sim' else second.mems.get(second._mem_varname(m))
            if isinstance(store, dict) and store != contents.get(m.name, {}):
                polluted.append(m.name)
            if store is not None and not isinstance(store, dict) and not isinstance(m, pyrtl.RomBlock):
                polluted.append(m.name + ' (shared object)')
        second = simdrv.symbolize_mems(second, block, kind)
        for t in range(K):
            second.step(ins(v2, t))
        return {'trace': {n: list(second.tracer.trace[n]) for n in second.tracer.trace}, 'polluted': polluted}
    with sym_env([block]):
        paths = explore(run, assumptions=assume, max_paths=512)
    ob.paths += len(paths) + len(ref)
    for p in paths:
        if p.exc is not None:
            ob.prove('two-sims:no-exception(%s)' % type(p.exc).__name__, z3.Not(z3.And(*p.pc)) if p.pc else z3.BoolVal(False), assume, v2,
                     site=site + ':exception')
            continue
        ob.fact('second-simulator-starts-from-the-contents-it-was-given', not p.result['polluted'], site + ':memory-carried-over',
                detail=p.result['polluted'])
        for r in ref:
            if r.exc is not None:
                continue
            goals = []
            for w in block.wirevector_subset(pyrtl.Output):
                if w.name in p.result['trace']:
                    for t in range(K):
                        goals.append(('second-simulator:%s@%d' % (w.name, t),
                                      to_bv(p.result['trace'][w.name][t], w.bitwidth + 1) == to_bv(r.trace[w.name][t], w.bitwidth + 1),
                                      site + ':value'))
            ob.prove_all(goals, assume + list(p.pc) + list(r.pc), v2, vacuity=False)


PH = re.compile(r'<<\d+(?::[a-z])?>>')


def parse_report(text):
    """[(step, name, expected token, actual token)] from a step_multiple report"""
    rows = []
    for line in text.split('\n')[2:]:
        parts = line.split()
        if len(parts) == 4:
            rows.append((int(parts[0]), parts[1], parts[2], parts[3]))
    return rows


def tok_value(tok):
    if tok in sym._PLACEHOLDERS:
        return sym._PLACEHOLDERS[tok]
    return int(tok)


def do_step_multiple(case, ob, site):
    block = designs.build(case)
    K = case['K']
    kind = case['sim']
    v = Vars()
    ins = sorted(block.wirevector_subset(pyrtl.Input), key=lambda w: w.name)
    outs = sorted(block.wirevector_subset(pyrtl.Output), key=lambda w: w.name)[:2]
    # both documented key kinds: wire names and the WireVectors themselves
    key = (lambda w: w) if case.get('keys') == 'wire' else (lambda w: w.name)
    provided = {key(w): [SymInt.mk(v.inp(w.name, t, w.bitwidth), False) for t in range(K)] for w in ins}
    # expectations may be any non-negative integer, also ones the wire cannot hold (those can never match)
    expected = {key(w): [SymInt.mk(z3.BitVec('exp_%s_%d' % (w.name, t), w.bitwidth + 2), False) for t in range(K)] for w in outs}
    if not provided:
        return ob.fact('skipped-no-inputs', True)
    # 'nsteps' form: no expectations, an explicit nsteps smaller than the number of supplied values (the rest is not simulated)
    nsteps_form = case.get('form') == 'nsteps'
    Kn = K - 1 if nsteps_form else K
    smkw = {'nsteps': Kn} if nsteps_form else {}
    if nsteps_form:
        expected = {}
    # reference: the same steps one at a time
    if kind == 'compiled':
        cm = CompiledModel(block)
        ref = run_compiled(cm, K, v)
    else:
        with sym_env([block]):
            ref = run_sim(block, K, v, kind=kind, reg_init='reset', mem_init='default', track='io')
    ref = [r for r in ref if r.exc is None]
    if len(ref) != 1:
        return ob.fact('skipped-multi-path-reference', True)
    ref = ref[0]

    def body():
        buf = io.StringIO()
        if kind == 'compiled':
            from pyrtl import compilesim as cs
            cm.reset()
            sim = cm.sim
            sim._crun = lambda steps, ibuf, obuf: cm.crun(steps, ibuf, obuf)
            with sym.stubs(cs, ctypes=simdrv._CtypesShim(), int=sym.sym_int):
                sim.step_multiple(provided, expected, file=buf, **smkw)
        else:
            sim = (pyrtl.Simulation if kind == 'sim' else pyrtl.FastSimulation)(
                block=block, tracer=pyrtl.SimulationTrace(block=block, wires_to_track=ins + list(block.wirevector_subset(pyrtl.Output))))
            simdrv.symbolize_mems(sim, block, kind)
            sim.step_multiple(provided, expected, file=buf, **smkw)
        return buf.getvalue(), {n: list(sim.tracer.trace[n]) for n in sim.tracer.trace}
    if kind == 'compiled':
        paths = explore(body, max_paths=1 << 10)
    else:
        with sym_env([block]):
            paths = explore(body, max_paths=1 << 10)
    ob.paths += len(paths)
    for p in paths:
        if p.exc is not None:
            ob.prove('step_multiple-no-exception', z3.Not(p.cond()), [], v, site=site + ':exception')
            continue
        text, trace = p.result
        goals = []
        for n, vals in trace.items():
            w = block.wirevector_by_name[n]
            ob.fact('trace-length:%s' % n, len(vals) == Kn, site + ':length', detail='%d entries after step_multiple(nsteps=%d)' % (len(vals), Kn))
            for t in range(min(Kn, len(vals))):
                goals.append(('same-trace-as-single-steps:%s@%d' % (n, t), to_bv(vals[t], w.bitwidth + 1) == to_bv(ref.trace[n][t], w.bitwidth + 1),
                              site + ':trace'))
        rows = parse_report(text)
        listed = {(st, nm): (e, a) for st, nm, e, a in rows}
        ob.fact('report-lists-each-pair-once', len(listed) == len(rows), site + ':report-duplicates')
        for w in (outs if not nsteps_form else []):
            for t in range(K):
                ev = expected[key(w)][t]
                av = ref.trace[w.name][t]
                differs = to_cond(ev != av) if (is_sym(ev) or is_sym(av)) else z3.BoolVal(ev != av)
                if (t, w.name) in listed:
                    etok, atok = listed[(t, w.name)]
                    goals.append(('reported-pair-really-mismatches:%s@%d' % (w.name, t), differs, site + ':report-extra'))
                    goals.append(('reported-expected-value:%s@%d' % (w.name, t), to_bv(tok_value(etok), w.bitwidth + 3) == to_bv(ev, w.bitwidth + 3), site + ':report-values'))
                    goals.append(('reported-actual-value:%s@%d' % (w.name, t), to_bv(tok_value(atok), w.bitwidth + 1) == to_bv(av, w.bitwidth + 1), site + ':report-values'))
                else:
                    goals.append(('unreported-pair-matches:%s@%d' % (w.name, t), z3.Not(differs), site + ':report-missing'))
        ob.prove_all(goals, ref.pc + p.pc, v)


def do_step_multiple_resume(case, ob, site):
    """step_multiple on a simulator that has already stepped: the report compares against THIS call's cycles (concrete witness
    values chosen so that every earlier cycle differs from the later ones)"""
    kind = case['sim']
    pyrtl.reset_working_block()
    a = pyrtl.Input(4, 'a')
    r = pyrtl.Register(4, 'r')
    r.next <<= r + a
    o = pyrtl.Output(4, 'o')
    o <<= r
    cls = {'sim': pyrtl.Simulation, 'fast': pyrtl.FastSimulation, 'compiled': pyrtl.CompiledSimulation}[kind]
    sim = cls()
    sim.step({'a': 3})
    sim.step({'a': 5})
    buf = io.StringIO()
    sim.step_multiple({'a': [1, 2, 4]}, {'o': [8, 9, 0]}, file=buf)      # actual o: 8, 9, 11
    rows = parse_report(buf.getvalue())
    ob.fact('report-after-earlier-steps-lists-exactly-the-mismatch', rows == [(2, 'o', '0', '11')], site + ':resume', detail=rows)
    ob.fact('trace-length-after-resume', len(sim.tracer) == 5, site + ':length')


def do_vcd(case, ob, site):
    block = designs.build(case)
    K = case['K']
    kind = case['sim']
    v = Vars()
    if kind == 'compiled':
        cm = CompiledModel(block)
        rs = run_compiled(cm, K, v)
        sims = None
    else:
        with sym_env([block]):
            rs = run_sim(block, K, v, kind=kind, reg_init='reset', mem_init='default', track='io')
    rs = [r for r in rs if r.exc is None]
    if len(rs) != 1:
        return ob.fact('skipped-multi-path', True)
    r = rs[0]
    # rebuild a tracer holding the symbolic trace and print it with the real print_vcd
    tracked = sorted(block.wirevector_subset((pyrtl.Input, pyrtl.Output)), key=lambda w: w.name)
    tr = pyrtl.SimulationTrace(wires_to_track=tracked, block=block)
    for n in r.trace:
        tr.trace[n].extend(r.trace[n])
    def body():
        buf = io.StringIO()
        tr.print_vcd(file=buf, include_clock=bool(case.get('seed', 0) % 2))
        return buf.getvalue()
    # (print_vcd may decide what to dump by comparing samples: those decisions are explored like any other branch)
    with sym.stubs(simmod, bin=sym.sym_bin, str=_vcd_str):
        paths = explore(body, assumptions=list(r.pc), max_paths=256)
    ob.paths += len(paths)
    names = {tr.internal_names[w.name]: w for w in tracked}
    for p in paths:
        if p.exc is not None:
            ob.prove('print_vcd-no-exception(%s)' % type(p.exc).__name__, z3.Not(p.cond()), list(r.pc), v, site=site + ':exception')
            continue
        widths, values = parse_vcd(p.result)
        # (identifiers are what tells the value lines apart: two wires that share one cannot be decoded; the sanitizer's own
        #  table is not taken at its word for this)
        decl = [ln.split()[3] for ln in p.result.split('\n') if ln.startswith('$var') and ln.split()[3] != 'clk']
        ob.fact('vcd-gives-every-traced-wire-its-own-identifier', len(decl) == len(tracked) and len(set(decl)) == len(decl) and len(names) == len(tracked),
                site + ':identifiers', detail='%d traced wires, $var identifiers %r' % (len(tracked), decl))
        ob.fact('vcd-declares-every-traced-wire-once', sorted(widths) == sorted(names), site + ':vars', detail=[sorted(widths), sorted(names)])
        goals = []
        for ident, w in names.items():
            ob.fact('vcd-var-width:%s' % w.name, widths.get(ident) == w.bitwidth, site + ':width')
            last = None
            for t in range(K):
                # a value change dump: a signal keeps its last dumped value until it is dumped again
                tok = values.get((t * 10, ident), last)
                last = tok
                if tok is None:
                    goals.append(('vcd-has-value:%s@%d' % (w.name, t), z3.BoolVal(False), site + ':missing-value'))
                    continue
                val = vcd_tok_value(tok)
                goals.append(('vcd-value:%s@%d' % (w.name, t), to_bv(val, w.bitwidth + 1) == to_bv(r.trace[w.name][t], w.bitwidth + 1), site + ':value'))
        ob.prove_all(goals, list(r.pc) + list(p.pc), v)


def _vcd_str(x=''):
    if isinstance(x, sym.SymNumeral):
        return x.prefix + str(x)
    return str(x)


def parse_vcd(text):
    widths, values = {}, {}
    time = None
    for line in text.split('\n'):
        parts = line.split()
        if not parts:
            continue
        if parts[0] == '$var':
            if parts[3] != 'clk':
                widths[parts[3]] = int(parts[2])
        elif parts[0].startswith('#'):
            time = int(parts[0][1:])
        elif parts[0].startswith('b') and len(parts) == 2 and time is not None:
            if parts[1] != 'clk':
                values[(time, parts[1])] = parts[0][1:]
    return widths, values


def vcd_tok_value(tok):
    m = re.match(r'<<\d+:b>>$', tok)
    if m:
        return sym._PLACEHOLDERS[tok]
    return int(tok, 2)


def do_print_trace(case, ob, site):
    """bounded witness check: concrete traces chosen by the solver to hit every digit-length class of each wire"""
    block = designs.build(case)
    K = case['K']
    kind = case['sim']
    ins = sorted(block.wirevector_subset(pyrtl.Input), key=lambda w: w.name)
    # witness inputs putting a value in every digit-length class: all ones, zero, and a mid-length value (found by the solver)
    s = z3.Solver()
    v = Vars()
    for t in range(K):
        for w in ins:
            x = v.inp(w.name, t, w.bitwidth)
            if t % 3 == 0:
                s.add(x == z3.BitVecVal(w.bitmask, w.bitwidth))
            elif t % 3 == 1:
                s.add(x == 0)
            elif w.bitwidth > 1:
                s.add(z3.Extract(w.bitwidth - 1, w.bitwidth - 1, x) == 0, x != 0)
    if s.check() != z3.sat:
        return ob.fact('witness-exists', False, site + ':harness')
    mv = v.model_values(s.model())
    trace, mems, sim = concrete.sim_concrete(block, K, mv, kind=kind, reg_init='reset', mem_init='default', track='io')
    for base in (2, 8, 10, 16):
        for compact in (False, True):
            buf = io.StringIO()
            sim.tracer.print_trace(file=buf, base=base, compact=compact)
            lines = [l for l in buf.getvalue().split('\n') if l.strip() and not l.strip().startswith('---')]
            got = {}
            for l in lines:
                parts = l.split()
                if compact:
                    got[parts[0]] = parts[1] if len(parts) > 1 else ''
                else:
                    got[parts[0]] = [int(x, base) for x in parts[1:]]
            ok = True
            for n, vals in trace.items():
                if compact:
                    ok = ok and got.get(n) == ''.join(format(x, {2: 'b', 8: 'o', 10: 'd', 16: 'x'}[base]) for x in vals)
                else:
                    ok = ok and got.get(n) == list(vals)
            ob.fact('print_trace(base=%d,compact=%s)-encodes-the-trace' % (base, compact), ok, site + ':print_trace', detail={'base': base, 'compact': compact})


def do_rtl_assert(case, ob, site):
    kind, w, K = case['sim'], case['w'], case['K']
    pyrtl.reset_working_block()
    a = pyrtl.Input(w, 'a')
    o = pyrtl.Output(w, 'o')
    o <<= a

    class MyErr(Exception):
        pass

    class MyPyrtlErr(pyrtl.PyrtlError):
        pass
    # any Exception instance other than a KeyError is a legal second argument (documented)
    class MyKeyErr(KeyError):
        pass
    exp = {'custom': MyErr, 'pyrtl': pyrtl.PyrtlError, 'internal': pyrtl.PyrtlInternalError, 'value': ValueError,
           'lookup': IndexError, 'runtime': MyPyrtlErr, 'keyerror': KeyError, 'keyerror_sub': MyKeyErr}[case.get('exc', 'custom')]('assertion failed')
    try:
        pyrtl.rtl_assert(a != ((1 << w) - 1), exp)
    except pyrtl.PyrtlError:
        # KeyError (and whatever is one) is documented as not usable: refusing it up front is fine; ACCEPTING it obliges the
        # simulators to raise it like any other exception (checked below)
        ob.fact('exception-class-refused-only-if-a-KeyError', isinstance(exp, KeyError), site + ':refused')
        return
    block = pyrtl.working_block()
    # 'subset': the caller's tracer lists the wires the caller is interested in, not the Output rtl_assert made
    track = [a, o] if case.get('track') == 'subset' else 'io'
    v = Vars()
    with sym_env([block]):
        rs = run_sim(block, K, v, kind=kind, reg_init='reset', mem_init='default', track=track)
    ob.paths += len(rs)
    bad = [v.inp('a', t, w) == (1 << w) - 1 for t in range(K)]
    covered = []
    for r in rs:
        pc = r.pc
        if r.exc is None:
            ob.prove('no-exception-only-if-never-asserted-low', z3.Not(z3.Or(*bad)), pc, v, site=site + ':missed')
        elif r.exc is exp:
            # which cycle? the trace recorded so far is not available; use the path condition: first bad cycle exists
            first = z3.Or(*[z3.And(bad[t], *[z3.Not(bad[u]) for u in range(t)]) for t in range(K)])
            ob.prove('exception-only-when-wire-is-0', first, pc, v, site=site + ':spurious')
        else:
            ob.prove('raises-only-the-registered-exception', z3.Not(r.cond()), [], v, site=site + ':wrong-exception')
        covered.append(r.cond())
    # raised on the FIRST such cycle and not before: per prefix length
    for t in range(K):
        vt = Vars()
        with sym_env([block]):
            rt = run_sim(block, t + 1, vt, kind=kind, reg_init='reset', mem_init='default', track=track)
        for r in rt:
            badt = [vt.inp('a', u, w) == (1 << w) - 1 for u in range(t + 1)]
            if r.exc is None:
                ob.prove('runs-%d-cycles-without-exception-only-if-never-low' % (t + 1), z3.Not(z3.Or(*badt)), r.pc, vt, site=site + ':late')
            else:
                ob.prove('exception-within-%d-cycles-only-if-low-by-then' % (t + 1), z3.Or(*badt), r.pc, vt, site=site + ':early')


def do_rtl_assert_channels(case, ob, site):
    """a caller that catches the rtl_assert exception still sees agreeing channels: the cycle on which the assertion fired was
    simulated (it is in the trace, the trace has one entry per step) and inspect() shows it"""
    kind, w, K = case['sim'], case['w'], case['K']
    pyrtl.reset_working_block()
    a = pyrtl.Input(w, 'a')
    r = pyrtl.Register(w, 'r')
    r.next <<= a
    o = pyrtl.Output(w, 'o')
    o <<= a ^ r

    class MyErr(Exception):
        pass
    exp = MyErr('assertion failed')
    pyrtl.rtl_assert(a != ((1 << w) - 1), exp)
    block = pyrtl.working_block()
    v = Vars()

    def body():
        sim = make_sim(kind, block)
        obs = []
        for t in range(K):
            try:
                sim.step({'a': SymInt.mk(v.inp('a', t, w), False)})
                fired = False
            except MyErr:
                fired = True
            obs.append((fired, len(sim.tracer.trace['a']), {n: (sim.inspect(n), sim.tracer.trace[n][-1]) for n in ('a', 'o', 'r')}))
        return obs
    with sym_env([block]):
        paths = explore(body)
    ob.paths += len(paths)
    for p in paths:
        if p.exc is not None:
            ob.prove('no-other-exception(%s)' % type(p.exc).__name__, z3.Not(p.cond()), [], v, site=site + ':exception')
            continue
        goals = []
        for t, (fired, n, chans) in enumerate(p.result):
            ob.fact('trace-has-one-entry-per-step@%d' % t, n == t + 1, site + ':trace-length',
                    detail='%d entries after %d steps (assertion fired in this step: %s)' % (n, t + 1, fired))
            for name, (ins_, last) in chans.items():
                goals.append(('inspect(%s)==last-trace-entry@%d%s' % (name, t, ':after-assertion' if fired else ''),
                              to_bv(ins_, w + 1) == to_bv(last, w + 1), site + ':inspect'))
            goals.append(('trace-records-the-input@%d' % t, to_bv(chans['a'][1], w) == v.inp('a', t, w), site + ':trace-value'))
        ob.prove_all(goals, list(p.pc), v)


def do_dup_track(case, ob, site):
    """a wires_to_track list that names a wire more than once (two overlapping lists put together): still one trace entry per
    wire and step"""
    kind, K = case['sim'], case['K']
    pyrtl.reset_working_block()
    a, b = pyrtl.Input(3, 'a'), pyrtl.Input(3, 'b')
    r = pyrtl.Register(3, 'r')
    r.next <<= a ^ b
    o = pyrtl.Output(3, 'o')
    o <<= r + a
    block = pyrtl.working_block()
    dup = [a, o, r, a, b, o, a] if kind != 'compiled' else [a, o, a, b, o, a]
    v = Vars()

    def ins(t):
        return {'a': SymInt.mk(v.inp('a', t, 3), False), 'b': SymInt.mk(v.inp('b', t, 3), False)}

    def body():
        tracer = pyrtl.SimulationTrace(wires_to_track=dup, block=block)
        if kind == 'compiled':
            cm = CompiledModel(block, tracked=dup)
            cm.reset()
            from pyrtl import compilesim as cs
            sim = cm.sim
            sim._crun = lambda steps, ibuf, obuf: cm.crun(steps, ibuf, obuf)
            with sym.stubs(cs, ctypes=simdrv._CtypesShim(), int=sym.sym_int):
                for t in range(K):
                    sim.step(ins(t))
        else:
            cls = pyrtl.Simulation if kind == 'sim' else pyrtl.FastSimulation
            sim = cls(block=block, tracer=tracer)
            for t in range(K):
                sim.step(ins(t))
        tr = sim.tracer.trace
        return {n: list(tr[n]) for n in tr}, {n: sim.inspect(n) for n in ('a', 'b', 'o')}
    if kind == 'compiled':
        paths = explore(body)
    else:
        with sym_env([block]):
            paths = explore(body)
    ob.paths += len(paths)
    for p in paths:
        if p.exc is not None:
            ob.prove('no-exception(%s)' % type(p.exc).__name__, z3.Not(p.cond()), [], v, site=site + ':exception')
            continue
        tr, insp = p.result
        goals = []
        for n in sorted(tr):
            ob.fact('one-trace-entry-per-step:%s' % n, len(tr[n]) == K, site + ':trace-length', detail='%d entries after %d steps' % (len(tr[n]), K))
        for n in ('a', 'b'):
            for t in range(min(K, len(tr.get(n, [])))):
                goals.append(('trace-records-the-input:%s@%d' % (n, t), to_bv(tr[n][t], 3) == v.inp(n, t, 3), site + ':trace-value'))
        for n in ('a', 'b', 'o'):
            if tr.get(n):
                goals.append(('inspect(%s)==last-trace-entry' % n, to_bv(insp[n], 4) == to_bv(tr[n][-1], 4), site + ':inspect'))
        ob.prove_all(goals, list(p.pc), v)


def do_illegal(case, ob, site):
    kind, w = case['sim'], case['w']
    pyrtl.reset_working_block()
    a = pyrtl.Input(w, 'a')
    o = pyrtl.Output(w, 'o')
    o <<= a
    block = pyrtl.working_block()
    val = SymInt(z3.BitVec('val', w + 3), True)
    legal = z3.And(to_cond(val >= 0), to_cond(val < (1 << w)))
    if kind == 'compiled':
        cm = CompiledModel(block)

        def body():
            from pyrtl import compilesim as cs
            cm.reset()
            sim = cm.sim
            sim._crun = lambda steps, ibuf, obuf: cm.crun(steps, ibuf, obuf)
            with sym.stubs(cs, ctypes=simdrv._CtypesShim(), int=sym.sym_int):
                sim.step({'a': val})
            return sim.tracer.trace['a'][-1], sim.tracer.trace['o'][-1]
        paths = explore(body)
    else:
        def body():
            # (a non-zero default_value is what an Input "holds" before the first step: it need not fit the Input)
            sim = make_sim(kind, block, default_value=case.get('dv', 0))
            sim.step({'a': val})
            return sim.tracer.trace['a'][-1], sim.tracer.trace['o'][-1]
        with sym_env([block]):
            paths = explore(body)
    ob.paths += len(paths)
    ex = lambda m: {'value': m.eval(val.t, model_completion=True).as_signed_long()}
    for p in paths:
        if p.exc is None:
            ob.prove('accepted-only-if-0<=v<2^w', legal, p.pc, None, site=site + ':accepts-illegal', extract=ex)
            ta, to_ = p.result
            ob.prove('accepted-value-is-simulated-unchanged', z3.And(to_cond(ta == val), to_cond(to_ == val)), p.pc, None,
                     site=site + ':value', extract=ex)
        elif isinstance(p.exc, pyrtl.PyrtlError):
            ob.prove('rejected-only-if-illegal', z3.Not(legal), p.pc, None, site=site + ':rejects-legal', extract=ex)
        else:
            ob.prove('rejects-with-PyrtlError(%s)' % type(p.exc).__name__, z3.Not(p.cond()), [], None, site=site + ':wrong-exception', extract=ex)


def rejected_design(w):
    pyrtl.reset_working_block()
    a, b = pyrtl.Input(w, 'a'), pyrtl.Input(w, 'b')
    r = pyrtl.Register(w, 'r')
    r.next <<= a ^ b
    o = pyrtl.Output(w + 1, 'o')
    o <<= a + r
    return pyrtl.working_block()


def do_rejected_step(case, ob, site):
    """a step refused for one illegal input is not partly applied: afterwards every observation channel still shows the last
    accepted step, and the next legal step behaves as if the refused one had not been attempted"""
    kind, w = case['sim'], case['w']
    block = rejected_design(w)
    v = Vars()
    a0, b0, a1, a2, b2 = (SymInt.mk(v.inp(n, t, w), False) for n, t in (('a', 0), ('b', 0), ('a', 1), ('a', 2), ('b', 2)))
    illegal = case['illegal']           # the refused value of b: one past the range, or negative

    def body():
        sim = make_sim(kind, block)
        sim.step({'a': a0, 'b': b0})
        try:
            sim.step({'a': a1, 'b': (1 << w) if illegal == 'big' else -1})
            refused = False
        except pyrtl.PyrtlError:
            refused = True
        seen = {n: sim.inspect(n) for n in ('a', 'b', 'o', 'r')}
        last = {n: sim.tracer.trace[n][-1] for n in ('a', 'b', 'o', 'r')}
        n_steps = len(sim.tracer.trace['a'])
        sim.step({'a': a2, 'b': b2})
        return refused, seen, last, n_steps, {n: sim.tracer.trace[n][-1] for n in ('a', 'b', 'o', 'r')}
    with sym_env([block]):
        paths = explore(body)
    ob.paths += len(paths)
    for p in paths:
        if p.exc is not None:
            ob.prove('no-exception(%s)' % type(p.exc).__name__, z3.Not(p.cond()), [], v, site=site + ':exception')
            continue
        refused, seen, last, n_steps, after = p.result
        ob.fact('illegal-input-refused', refused, site + ':accepted')
        ob.fact('trace-length-unchanged-by-refused-step', n_steps == 1, site + ':trace-length')
        goals = [('inspect(%s)==last-trace-entry-after-refused-step' % n, to_bv(seen[n], w + 2) == to_bv(last[n], w + 2), site + ':inspect')
                 for n in ('a', 'b', 'o', 'r')]
        # the following legal step: r holds a0^b0 (latched by the accepted step), o = a2 + r
        r1 = a0 ^ b0
        goals.append(('next-step:r', to_bv(after['r'], w + 2) == to_bv(r1, w + 2), site + ':next-step'))
        goals.append(('next-step:o', to_bv(after['o'], w + 2) == to_bv(a2 + r1, w + 2), site + ':next-step'))
        ob.prove_all(goals, list(p.pc), v)


KINDS = {'inspect': do_inspect, 'step_multiple': do_step_multiple, 'vcd': do_vcd, 'print_trace': do_print_trace,
         'rtl_assert': do_rtl_assert, 'default_tracer': do_default_tracer, 'two_sims': do_two_sims, 'run_many': do_run_many, 'illegal': do_illegal, 'step_multiple_resume': do_step_multiple_resume,
         'rejected_step': do_rejected_step, 'rtl_assert_channels': do_rtl_assert_channels, 'dup_track': do_dup_track}


def run_case(case, ob, tier):
    KINDS[case['k']](case, ob, site_of(case))


def replay(cex):
    c = cex['case']
    k = c['k']
    from ..core import Obligations
    if k == 'illegal':
        val = cex.get('value')
        pyrtl.reset_working_block()
        a = pyrtl.Input(c['w'], 'a')
        o = pyrtl.Output(c['w'], 'o')
        o <<= a
        cls = {'sim': pyrtl.Simulation, 'fast': pyrtl.FastSimulation, 'compiled': pyrtl.CompiledSimulation}[c['sim']]
        sim = cls(default_value=c['dv']) if c.get('dv') else cls()
        legal = 0 <= val < (1 << c['w'])
        try:
            sim.step({'a': val})
            acc = True
            seen = sim.inspect('o')
        except pyrtl.PyrtlError:
            acc, seen = False, None
        except Exception as e:
            return True, 'step({a: %d}) raised %r (not PyrtlError)' % (val, e)
        bad = (acc != legal) or (acc and seen != val)
        return bad, '%s.step({a: %d}) on a %d-bit input: %s, o=%r' % (cls.__name__, val, c['w'], 'accepted' if acc else 'rejected', seen)
    if k == 'rejected_step':
        return replay_rejected_step(c, cex.get('model', {}))
    if cex.get('structural') or k in ('print_trace', 'step_multiple_resume', 'rtl_assert_channels', 'dup_track'):
        ob = Obligations(PROP, c, 20000)
        KINDS[k](c, ob, site_of(c))
        bad = [x['obligation'] for x in ob.sat]
        return cex['obligation'] in bad or (bool(bad) and k in ('print_trace', 'step_multiple_resume', 'rtl_assert_channels', 'dup_track')), 'failing on re-execution: %r' % bad[:5]
    # symbolic obligations: re-execute with the model values substituted concretely
    mv = cex.get('model', {})
    block = designs.build(c) if 'fam' in c else None
    if k == 'inspect' and block is not None:
        trace, mems, sim = concrete.sim_concrete(block, c['K'], mv, kind=c['sim'], reg_init='reset', mem_init='default', track='all' if c['sim'] != 'compiled' else 'io')
        bad = []
        for n in trace:
            if sim.inspect(n) != trace[n][-1]:
                bad.append('%s: inspect=%r trace[-1]=%r' % (n, sim.inspect(n), trace[n][-1]))
        return bool(bad), '\n'.join(bad[:5])
    if k == 'two_sims' and block is not None:
        return replay_two_sims(c, block, mv)
    if k == 'run_many' and block is not None:
        ref, _, _ = concrete.sim_concrete(block, c['K'], mv, kind='sim', reg_init='reset', mem_init='default', track='io')
        sim = pyrtl.CompiledSimulation(block=block, tracer=pyrtl.SimulationTrace(
            wires_to_track=sorted(block.wirevector_subset((pyrtl.Input, pyrtl.Output)), key=lambda w: w.name), block=block))
        try:
            sim.run([concrete.input_vector(block, mv, t) for t in range(c['K'])])
        except Exception as e:
            return True, 'CompiledSimulation.run(list) raised %r' % (e,)
        bad = ['%s: run(list) traced %r, stepping gives %r' % (n, list(sim.tracer.trace[n]), ref[n]) for n in ref
               if list(sim.tracer.trace[n]) != ref[n]]
        return bool(bad), '; '.join(bad[:4])
    if k == 'default_tracer' and block is not None:
        cls = {'sim': pyrtl.Simulation, 'fast': pyrtl.FastSimulation, 'compiled': pyrtl.CompiledSimulation}[c['sim']]
        ref, _, _ = concrete.sim_concrete(block, c['K'], mv, kind='sim', reg_init='reset', mem_init='default', track='all')
        try:
            with pyrtl.set_working_block(_decoy_block(), no_sanity_check=True):
                sim = cls(block=block)
                for t in range(c['K']):
                    sim.step(concrete.input_vector(block, mv, t))
        except Exception as e:
            return True, '%s(block=b) with its default tracer and another working block raised %r' % (cls.__name__, e)
        bad = ['%s: %r vs %r' % (n, list(sim.tracer.trace[n]), ref[n]) for n in sim.tracer.trace if n in ref and list(sim.tracer.trace[n]) != ref[n]]
        return bool(bad), 'default tracer values differ from a full trace: %s' % bad[:4]
    ob = Obligations(PROP, c, 20000)
    KINDS[k](c, ob, site_of(c))
    return bool(ob.sat), 'obligations failing again on re-execution of the real code: %r' % [x['obligation'] for x in ob.sat][:5]


def replay_rejected_step(c, mv):
    w = c['w']
    block = rejected_design(w)
    cls = {'sim': pyrtl.Simulation, 'fast': pyrtl.FastSimulation}[c['sim']]
    sim = cls(block=block)
    ins = mv.get('inputs', {})
    g = lambda n, t: int(ins.get(n, {}).get(str(t), ins.get(n, {}).get(t, 0)))
    sim.step({'a': g('a', 0), 'b': g('b', 0)})
    bad = []
    try:
        sim.step({'a': g('a', 1), 'b': (1 << w) if c['illegal'] == 'big' else -1})
        bad.append('the illegal input was accepted')
    except pyrtl.PyrtlError:
        pass
    for n in ('a', 'b', 'o', 'r'):
        if sim.inspect(n) != sim.tracer.trace[n][-1]:
            bad.append('after the refused step inspect(%s) = %r but the last trace entry is %r' % (n, sim.inspect(n), sim.tracer.trace[n][-1]))
    if len(sim.tracer.trace['a']) != 1:
        bad.append('trace length %d after one accepted step' % len(sim.tracer.trace['a']))
    sim.step({'a': g('a', 2), 'b': g('b', 2)})
    r1 = g('a', 0) ^ g('b', 0)
    if sim.inspect('r') != r1 or sim.inspect('o') != g('a', 2) + r1:
        bad.append('the step after the refused one shows r=%r o=%r, expected %r %r' % (sim.inspect('r'), sim.inspect('o'), r1, g('a', 2) + r1))
    return bool(bad), '\n'.join(bad)


def replay_two_sims(c, block, mv):
    """concrete: a first simulator is driven with all-ones inputs (every enable high, every word non-zero), then a second one is
    created with default arguments and driven with the counterexample's inputs; it must behave like a simulator created with
    fresh, explicitly empty maps"""
    cls = {'sim': pyrtl.Simulation, 'fast': pyrtl.FastSimulation, 'compiled': pyrtl.CompiledSimulation}[c['sim']]
    K = c['K']
    ins = sorted(block.wirevector_subset(pyrtl.Input), key=lambda w: w.name)
    contents = {m: {0: 1, (1 << m.addrwidth) - 1: 1 if m.bitwidth > 1 else 0} for m in simdrv.mems_of(block).values()
                if not isinstance(m, pyrtl.RomBlock)} if c.get('shared_map') else {}
    mvm = {m: dict(d) for m, d in contents.items()}
    kw = {'memory_value_map': mvm} if c.get('shared_map') else {}
    first = cls(block=block, **kw)
    for t in range(K + 1):
        first.step({w.name: w.bitmask for w in ins})
    second = cls(block=block, **kw)
    fresh = pyrtl.Simulation(block=block, register_value_map={}, memory_value_map={m: dict(d) for m, d in contents.items()})
    bad = []
    for m in simdrv.mems_of(block).values():
        if isinstance(m, pyrtl.RomBlock) or m.addrwidth > 10:
            continue
        view = second.inspect_mem(m)
        for a in range(1 << m.addrwidth):
            got = view.get(a, 0) if isinstance(view, dict) else view[a]
            if got != contents.get(m, {}).get(a, 0):
                bad.append('before its first step the second simulator holds %s[%d] = %r, it was given %r'
                           % (m.name, a, got, contents.get(m, {}).get(a, 0)))
    for t in range(K):
        vec = concrete.input_vector(block, mv, t)
        second.step(vec)
        fresh.step(vec)
        for w in block.wirevector_subset(pyrtl.Output):
            if second.inspect(w.name) != fresh.inspect(w.name):
                bad.append('cycle %d: %s = %r in the second simulator, %r in a fresh one' % (t, w.name, second.inspect(w.name), fresh.inspect(w.name)))
    return bool(bad), '\n'.join(bad[:6])
