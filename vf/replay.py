"""Replay a counterexample file on the unmodified code (no proxy engine, no stubs).
exit 0 + 'REPRODUCED' if the real code shows the recorded disagreement, exit 3 + 'NOT-REPRODUCED' otherwise."""
import sys
import json
import importlib


def main(path):
    cex = json.load(open(path))
    prop = cex['property']
    mod = importlib.import_module('vf.props.' + prop.lower())
    ok, text = mod.replay(cex)
    print(text)
    if ok:
        print('REPRODUCED property=%s site=%s' % (prop, cex.get('site')))
        return 0
    print('NOT-REPRODUCED property=%s site=%s' % (prop, cex.get('site')))
    return 3


if __name__ == '__main__':
    sys.exit(main(sys.argv[1]))
