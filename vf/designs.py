"""Bounded design families (the program dimension). Every design is a JSON-able descriptor; build(desc)
elaborates it with the real PyRTL API in a fresh working block and returns the block."""
import random
import itertools
import pyrtl
from pyrtl import LogicNet

WQ = [1, 2, 3, 4, 5, 8]
WT = WQ + [7, 16, 31, 32, 33, 63, 64, 65, 127, 128, 129, 130]


def _net(block, op, op_param, args, dests):
    block.add_net(LogicNet(op, op_param, tuple(args), tuple(dests)))


def build_op(d):
    """one primitive between Inputs and an Output / Register (direct LogicNet so that the destination may truncate)"""
    b = pyrtl.working_block()
    op, wa, wd = d['op'], d['wa'], d['wd']
    dk = d.get('dest', 'out')
    if dk == 'out':
        dest = pyrtl.Output(wd, 'o')
    elif dk == 'reg':
        dest = pyrtl.WireVector(wd, 'dw')
        r = pyrtl.Register(wd, 'r', reset_value=d.get('reset'))
        r.next <<= dest
        o = pyrtl.Output(wd, 'o')
        o <<= r
    if op in 'w~':
        a = pyrtl.Input(wa, 'a')
        _net(b, op, None, [a], [dest])
    elif op in '&|^n+-*<>=':
        a, c = pyrtl.Input(wa, 'a'), pyrtl.Input(wa, 'b')
        _net(b, op, None, [a, c], [dest])
    elif op == 'x':
        s, a, c = pyrtl.Input(1, 's'), pyrtl.Input(wa, 'a'), pyrtl.Input(wa, 'b')
        _net(b, op, None, [s, a, c], [dest])
    elif op == 'c':
        args = [pyrtl.Input(w, 'a%d' % i) for i, w in enumerate(d['ws'])]
        _net(b, op, None, args, [dest])
    elif op == 's':
        a = pyrtl.Input(wa, 'a')
        _net(b, op, tuple(d['idx']), [a], [dest])
    elif op == 'm':
        mem = pyrtl.MemBlock(bitwidth=wd, addrwidth=wa, name='m', asynchronous=True,
                             max_write_ports=None)
        ra = pyrtl.Input(wa, 'ra')
        wa_, wdta, we = pyrtl.Input(wa, 'wa'), pyrtl.Input(wd, 'wd'), pyrtl.Input(1, 'we')
        mem[wa_] <<= pyrtl.MemBlock.EnabledWrite(wdta, we)
        dest <<= mem[ra]
    elif op == 'rom':
        data = d['data']
        rom = pyrtl.RomBlock(bitwidth=wd, addrwidth=wa, romdata=data, name='rom', asynchronous=True,
                             pad_with_zeros=d.get('pad', False))
        ra = pyrtl.Input(wa, 'ra')
        dest <<= rom[ra]
    else:
        raise ValueError(op)
    if d.get('spare'):
        pyrtl.Input(d['spare'], 'spare')   # declared but unread Input (legal; must stay part of the interface)
    return b


def op_cases(widths, ops='w~&|^n+-*<>=xcsm', mul_max=16, dests=('out',)):
    out = []
    for op in ops:
        for wa in widths:
            if op in 'w~&|^nx':
                wds = sorted({wa, max(1, wa - 1), 1})
            elif op in '+-':
                wds = sorted({wa + 1, wa, max(1, wa // 2)})
            elif op == '*':
                if wa > mul_max:
                    continue
                wds = sorted({2 * wa, wa + 1, 1})
            elif op in '<>=':
                wds = [1]
            elif op == 'c':
                for ws in ([wa], [wa, 1], [1, wa, 3], [2, wa, 1, 5]):
                    tot = sum(ws)
                    for wd in sorted({tot, max(1, tot - 1)}):
                        out.append({'fam': 'OP', 'op': 'c', 'wa': wa, 'ws': ws, 'wd': wd})
                continue
            elif op == 's':
                idxs = {tuple(range(wa)), tuple(range(wa - 1, -1, -1)), tuple(range(0, wa, 2)), (wa - 1,) * 3,
                        (0, wa - 1, 0), tuple(range(wa // 2, wa))}
                for idx in sorted(idxs):
                    if idx:
                        out.append({'fam': 'OP', 'op': 's', 'wa': wa, 'idx': list(idx), 'wd': len(idx)})
                        if len(idx) > 1:    # truncating destination
                            out.append({'fam': 'OP', 'op': 's', 'wa': wa, 'idx': list(idx), 'wd': len(idx) - 1})
                continue
            elif op == 'm':
                if wa > 8:
                    continue
                for wd in sorted({1, 3, wa}):
                    out.append({'fam': 'OP', 'op': 'm', 'wa': wa, 'wd': wd})
                continue
            for wd in wds:
                for dk in dests:
                    out.append({'fam': 'OP', 'op': op, 'wa': wa, 'wd': wd, 'dest': dk})
    return out


# ------------------------------------------------------------------------------------------

def build_expr(d):
    """seeded random well-formed DAG built through the public API"""
    rng = random.Random(d['seed'])
    n = d['n']
    maxw = d.get('maxw', 8)
    nreg = d.get('nreg', rng.randint(0, 2))
    nmem = d.get('nmem', rng.randint(0, 1))
    nrom = d.get('nrom', rng.randint(0, 1))
    ops = d.get('ops', ['+', '-', '*', '&', '|', '^', '~', 'n', '<', '>', '=', 'x', 'c', 's', 'trunc', 'const'])
    b = pyrtl.working_block()
    pool = []
    used = set()
    nin = rng.randint(1, 3)
    for i in range(nin):
        pool.append(pyrtl.Input(rng.randint(1, maxw), 'i%d' % i))
    regs = []
    for i in range(nreg):
        w = rng.randint(1, maxw)
        rv = rng.choice([None, None, 0, rng.randrange(1 << w)])
        r = pyrtl.Register(w, 'r%d' % i, reset_value=rv)
        regs.append(r)
        pool.append(r)
    mems = []
    for i in range(nmem):
        m = pyrtl.MemBlock(bitwidth=rng.randint(1, maxw), addrwidth=rng.randint(1, 3), name='m%d' % i,
                           asynchronous=True, max_write_ports=None)
        mems.append(m)
    roms = []
    for i in range(nrom):
        aw, bw = rng.randint(1, 3), rng.randint(1, maxw)
        kind = rng.choice(['list', 'dict', 'func'])
        vals = [rng.randrange(1 << bw) for _ in range(1 << aw)]
        if kind == 'list':
            data = vals
        elif kind == 'dict':
            data = {a: v for a, v in enumerate(vals)}
        else:
            data = (lambda vals: (lambda a: vals[a]))(vals)
        roms.append(pyrtl.RomBlock(bitwidth=bw, addrwidth=aw, romdata=data, name='rom%d' % i, asynchronous=True))

    def pick():
        w = rng.choice(pool)
        used.add(w)
        return w

    def resize(w, width):
        if len(w) == width:
            return w
        if len(w) > width:
            return w[:width]
        return w.zero_extended(width)

    for _ in range(n):
        op = rng.choice(ops)
        a = pick()
        if op in '+-&|^n<>=':
            c = pick()
            r = {'+': lambda: a + c, '-': lambda: a - c, '&': lambda: a & c, '|': lambda: a | c,
                 '^': lambda: a ^ c, 'n': lambda: a.nand(c), '<': lambda: a < c, '>': lambda: a > c,
                 '=': lambda: a == c}[op]()
        elif op == '*':
            c = pick()
            a2, c2 = resize(a, min(len(a), 4)), resize(c, min(len(c), 4))
            r = a2 * c2
        elif op == '~':
            r = ~a
        elif op == 'x':
            s = resize(pick(), 1)
            c = pick()
            r = pyrtl.select(s, a, c)
        elif op == 'c':
            c = pick()
            r = pyrtl.concat(a, c)
            if len(r) > 2 * maxw:
                r = r[:2 * maxw]
        elif op == 's':
            lo = rng.randrange(len(a))
            hi = rng.randint(lo + 1, len(a))
            st = rng.choice([1, 1, 2, -1])
            r = a[lo:hi:st] if st > 0 else a[lo:hi][::-1]
            if len(r) == 0:
                r = a[lo]
        elif op == 'trunc':
            r = resize(a, rng.randint(1, maxw))
        else:  # const
            w = rng.randint(1, maxw)
            r = a + pyrtl.Const(rng.randrange(1 << w), bitwidth=w)
        if len(r) > 3 * maxw:
            r = r[:3 * maxw]
        pool.append(r)
    # memory ports
    for m in mems:
        for p in range(rng.randint(1, 2)):
            ra = resize(pick(), m.addrwidth)
            pool.append(m[ra])
        for p in range(rng.randint(1, 2)):
            wa_, wd, we = resize(pick(), m.addrwidth), resize(pick(), m.bitwidth), resize(pick(), 1)
            m[wa_] <<= pyrtl.MemBlock.EnabledWrite(wd, we)
    for rom in roms:
        pool.append(rom[resize(pick(), rom.addrwidth)])
    for r in regs:
        r.next <<= resize(pick(), len(r))
    # every wire must be used: unread wires become Outputs
    k = 0
    readers = set()
    for net in b.logic:
        readers.update(net.args)
    for w in pool:
        if w not in readers and not isinstance(w, pyrtl.Output):
            o = pyrtl.Output(len(w), 'o%d' % k)
            k += 1
            o <<= w
    if k == 0:
        o = pyrtl.Output(len(pool[-1]), 'o0')
        o <<= pool[-1]
    return b


def expr_cases(count, seed, n=8, **kw):
    return [dict({'fam': 'EXPR', 'seed': seed * 100003 + i, 'n': n}, **kw) for i in range(count)]


# ------------------------------------------------------------------------------------------

def build_seq(d):
    k = d['kind']
    w = d.get('w', 4)
    if k == 'chain':
        a = pyrtl.Input(w, 'a')
        r1, r2 = pyrtl.Register(w, 'r1', reset_value=d.get('rv1')), pyrtl.Register(w, 'r2', reset_value=d.get('rv2'))
        r1.next <<= a
        r2.next <<= r1
        o = pyrtl.Output(w, 'o')
        o <<= r2
    elif k == 'swap':
        en = pyrtl.Input(1, 'en')
        r1, r2 = pyrtl.Register(w, 'r1', reset_value=1), pyrtl.Register(w, 'r2', reset_value=(1 << w) - 1)
        r1.next <<= pyrtl.select(en, r2, r1)
        r2.next <<= pyrtl.select(en, r1, r2)
        o = pyrtl.Output(w, 'o')
        o <<= r1 ^ r2
        o2 = pyrtl.Output(w, 'o2')
        o2 <<= r1
    elif k == 'reg_out':
        a = pyrtl.Input(w, 'a')
        r = pyrtl.Register(w, 'r', reset_value=d.get('rv1'))
        r.next <<= a + r
        o = pyrtl.Output(w, 'o')
        o <<= r
    elif k == 'counter':
        r = pyrtl.Register(w, 'r', reset_value=d.get('rv1', 3 % (1 << w)))
        en = pyrtl.Input(1, 'en')
        r.next <<= pyrtl.select(en, r + 1, r)
        o = pyrtl.Output(w, 'o')
        o <<= r
    elif k == 'mem_rdw':
        aw = d.get('aw', 2)
        m = pyrtl.MemBlock(bitwidth=w, addrwidth=aw, name='m', asynchronous=True, max_write_ports=None)
        ra, wa_, wd, we = pyrtl.Input(aw, 'ra'), pyrtl.Input(aw, 'wa'), pyrtl.Input(w, 'wd'), pyrtl.Input(1, 'we')
        o = pyrtl.Output(w, 'o')
        o <<= m[ra]
        o2 = pyrtl.Output(w, 'o2')
        o2 <<= m[wa_]
        m[wa_] <<= pyrtl.MemBlock.EnabledWrite(wd, we)
    elif k == 'mem_2w':
        aw = d.get('aw', 2)
        m = pyrtl.MemBlock(bitwidth=w, addrwidth=aw, name='m', asynchronous=True, max_write_ports=None)
        ra = pyrtl.Input(aw, 'ra')
        o = pyrtl.Output(w, 'o')
        o <<= m[ra]
        for i in range(2):
            wa_, wd, we = pyrtl.Input(aw, 'wa%d' % i), pyrtl.Input(w, 'wd%d' % i), pyrtl.Input(1, 'we%d' % i)
            m[wa_] <<= pyrtl.MemBlock.EnabledWrite(wd, we)
    elif k == 'rom_reg':
        aw = d.get('aw', 2)
        rom = pyrtl.RomBlock(bitwidth=w, addrwidth=aw, romdata=[(7 * i + 3) % (1 << w) for i in range(1 << aw)],
                             name='rom', asynchronous=True)
        r = pyrtl.Register(aw, 'r', reset_value=1)
        a = pyrtl.Input(aw, 'a')
        r.next <<= r + a
        o = pyrtl.Output(w, 'o')
        o <<= rom[r]
    elif k == 'mem_reg_addr':
        aw = d.get('aw', 2)
        m = pyrtl.MemBlock(bitwidth=w, addrwidth=aw, name='m', asynchronous=True, max_write_ports=None)
        r = pyrtl.Register(aw, 'r')
        d_ = pyrtl.Input(w, 'd')
        we = pyrtl.Input(1, 'we')
        r.next <<= r + 1
        m[r] <<= pyrtl.MemBlock.EnabledWrite(d_, we)
        o = pyrtl.Output(w, 'o')
        o <<= m[r]
        acc = pyrtl.Register(w, 'acc', reset_value=2 % (1 << w))
        acc.next <<= acc + m[r]
        o2 = pyrtl.Output(w, 'o2')
        o2 <<= acc
    elif k == 'reg_wide_next':
        # an 'r' net whose next-value wire is wider than the register (well formed: the register truncates)
        a, c = pyrtl.Input(w, 'a'), pyrtl.Input(w, 'b')
        wide = pyrtl.concat(a, c) + 1                      # 2w+1 bits
        r = pyrtl.Register(w, 'r', reset_value=d.get('rv1'))
        _net(pyrtl.working_block(), 'r', None, [wide], [r])
        o = pyrtl.Output(w, 'o')
        o <<= r
        o2 = pyrtl.Output(w + 1, 'o2')
        o2 <<= r + 1
    elif k == 'two_mems':
        # two independent memories, neither given initial contents: a word written to one must not show up in the other
        m1 = pyrtl.MemBlock(bitwidth=w, addrwidth=2, name='ma', asynchronous=True)
        m2 = pyrtl.MemBlock(bitwidth=w, addrwidth=2, name='mb', asynchronous=True)
        wa_, wd, we1, we2, ra = pyrtl.Input(2, 'wa'), pyrtl.Input(w, 'wd'), pyrtl.Input(1, 'we1'), pyrtl.Input(1, 'we2'), pyrtl.Input(2, 'ra')
        m1[wa_] <<= pyrtl.MemBlock.EnabledWrite(wd, we1)
        m2[wa_] <<= pyrtl.MemBlock.EnabledWrite(~wd, we2)
        o1, o2 = pyrtl.Output(w, 'o1'), pyrtl.Output(w, 'o2')
        o1 <<= m1[ra]
        o2 <<= m2[ra]
    else:
        raise ValueError(k)
    return pyrtl.working_block()


def seq_cases(widths=(1, 4)):
    out = []
    for w in widths:
        for k in ('chain', 'swap', 'reg_out', 'counter', 'mem_rdw', 'mem_2w', 'rom_reg', 'mem_reg_addr', 'reg_wide_next', 'two_mems'):
            out.append({'fam': 'SEQ', 'kind': k, 'w': w})
        out.append({'fam': 'SEQ', 'kind': 'chain', 'w': w, 'rv1': 1, 'rv2': (1 << w) - 1})
        out.append({'fam': 'SEQ', 'kind': 'reg_out', 'w': w, 'rv1': (1 << w) - 1})
    return out


FAMILIES = {'OP': build_op, 'EXPR': build_expr, 'SEQ': build_seq}


def always_double_writes(block):
    """True when NO input/state avoids two enabled writes to one address of a memory in a cycle (then the documented
    'undefined' exemption leaves nothing to check and every harness's assumption would be vacuous)"""
    if not any(n.op == '@' for n in block.logic):
        return False
    import z3
    from . import spec
    from .simdrv import Vars
    sp = spec.run(block, 1, Vars('dw_'), reg_init='sym', mem_init='sym')
    if not sp.double_write:
        return False
    s = z3.Solver()
    s.add(*[z3.Not(d) for d in sp.double_write])
    return s.check() == z3.unsat


def build(desc):
    pyrtl.reset_working_block()
    if desc['fam'] == 'EXPR':
        # seeded designs that can only ever double-write are replaced by the next seed (deterministic in desc)
        for attempt in range(8):
            d = dict(desc, seed=desc['seed'] + 7919 * attempt)
            pyrtl.reset_working_block()
            b = FAMILIES['EXPR'](d)
            if not always_double_writes(b):
                return b
        return b
    return FAMILIES[desc['fam']](desc)


def register_family(name, fn):
    FAMILIES[name] = fn


# ------------------------------------------------------------------------------------------
# families biased towards what the optimisation passes touch (C04)

def build_constop(d):
    """gate with 0/1/2 constant operands: op in ~&|^n, width w, const positions cp (subset of {0,1}), values"""
    b = pyrtl.working_block()
    op, w = d['op'], d['w']
    vals = d['vals']
    args = []
    for i in range(1 if op == '~' else 2):
        if i in d['cp']:
            args.append(pyrtl.Const(vals[i], bitwidth=w))
        else:
            args.append(pyrtl.Input(w, 'a%d' % i))
    t = pyrtl.WireVector(w, 't')
    _net(b, op, None, args, [t])
    o = pyrtl.Output(w, 'o')
    if d.get('through_reg'):
        r = pyrtl.Register(w, 'r')
        r.next <<= t
        o <<= r
    else:
        o <<= t
    if not any(isinstance(a, pyrtl.Input) for a in args):
        x = pyrtl.Input(1, 'x')
        o2 = pyrtl.Output(1, 'o2')
        o2 <<= x
    return b


def constop_cases():
    out = []
    for op in '~&|^n':
        for w in (1, 2, 3):
            m = (1 << w) - 1
            cps = [[0]] if op == '~' else [[0], [1], [0, 1]]
            for cp in cps:
                for vals in itertools.product(sorted({0, 1, m, m >> 1}), repeat=2):
                    for tr in (False, True):
                        if tr and not (w == 1 and vals[0] in (0, 1)):
                            continue
                        out.append({'fam': 'CONSTOP', 'op': op, 'w': w, 'cp': cp, 'vals': list(vals), 'through_reg': tr})
    return out


def build_carg(d):
    """a word-level primitive with ONE argument position tied to a constant (op in + - * < > = x c s & | ^ n; position pos;
    value val): the shapes on which lowering / folding / code generation take their constant-operand shortcuts"""
    b = pyrtl.working_block()
    op, w, pos, val = d['op'], d['w'], d['pos'], d['val']
    nargs = {'x': 3, 'c': 3, 's': 1}.get(op, 2)
    args = []
    for i in range(nargs):
        wi = 1 if (op == 'x' and i == 0) else w
        if i == pos:
            args.append(pyrtl.Const(val & ((1 << wi) - 1), bitwidth=wi))
        else:
            args.append(pyrtl.Input(wi, 'a%d' % i))
    if op == 's':
        idx = tuple(range(w - 1, -1, -1))
        t = pyrtl.WireVector(w, 't')
        _net(b, 's', idx, args, [t])
    else:
        natural = {'+': w + 1, '-': w + 1, '*': 2 * w, '<': 1, '>': 1, '=': 1, 'x': w, 'c': 3 * w}.get(op, w)
        t = pyrtl.WireVector(natural, 't')
        _net(b, op, None, args, [t])
    o = pyrtl.Output(len(t), 'o')
    o <<= t
    if not any(isinstance(a, pyrtl.Input) for a in args):
        x = pyrtl.Input(1, 'x')
        o2 = pyrtl.Output(1, 'o2')
        o2 <<= x
    return b


def carg_cases(widths=(1, 3)):
    out = []
    for op in '+-*<>=xcs&|^n':
        for w in widths:
            nargs = {'x': 3, 'c': 3, 's': 1}.get(op, 2)
            for pos in range(nargs):
                m = 1 if (op == 'x' and pos == 0) else (1 << w) - 1
                for val in sorted({0, 1, m}):
                    out.append({'fam': 'CARG', 'op': op, 'w': w, 'pos': pos, 'val': val})
    return out


def build_dup(d):
    """duplicated sub-expressions with commuted / non-commuted operands"""
    op, w = d['op'], d['w']
    a, c = pyrtl.Input(w, 'a'), pyrtl.Input(w, 'b')
    f = {'+': lambda x, y: x + y, '-': lambda x, y: x - y, '*': lambda x, y: x * y, '&': lambda x, y: x & y,
         '|': lambda x, y: x | y, '^': lambda x, y: x ^ y, 'n': lambda x, y: x.nand(y), '<': lambda x, y: x < y,
         '>': lambda x, y: x > y, '=': lambda x, y: x == y, 'c': lambda x, y: pyrtl.concat(x, y),
         'x': lambda x, y: pyrtl.select(x[0], x, y)}[op]
    e1, e2, e3 = f(a, c), f(c, a), f(a, c)
    for i, e in enumerate((e1, e2, e3)):
        o = pyrtl.Output(len(e), 'o%d' % i)
        o <<= e
    if d.get('const'):
        k1, k2 = pyrtl.Const(d['const'], bitwidth=w), pyrtl.Const(d['const'], bitwidth=w)
        o = pyrtl.Output(len(f(a, k1)), 'o3')
        o <<= f(a, k1)
        o4 = pyrtl.Output(len(f(k2, a)), 'o4')
        o4 <<= f(k2, a)
    return pyrtl.working_block()


def dup_cases():
    out = []
    for op in '+-*&|^n<>=cx':
        for w in (1, 3):
            out.append({'fam': 'DUP', 'op': op, 'w': w})
            out.append({'fam': 'DUP', 'op': op, 'w': w, 'const': (1 << w) - 1})
    return out


class DesignAssertion(Exception):
    """the exception of the rtl_assert in the 'rtl_assert' MISC design"""


def build_misc(d):
    k = d['kind']
    w = d.get('w', 3)
    if k == 'rtl_assert':
        a, b = pyrtl.Input(w, 'a'), pyrtl.Input(w, 'b')
        r = pyrtl.Register(w, 'r')
        r.next <<= a ^ r
        o = pyrtl.Output(w, 'o')
        o <<= r & b
        ok = pyrtl.WireVector(1, 'ok')
        ok <<= ~((a == b) & (r == a))
        pyrtl.rtl_assert(ok, DesignAssertion('a == b == r'))
        return pyrtl.working_block()
    if k == 'dup_regs':
        # registers that load the very same wire but start from different values: not duplicates of one another
        a = pyrtl.Input(w, 'a')
        n = a ^ pyrtl.Input(w, 'b')
        rs = [pyrtl.Register(w, 'r0', reset_value=0), pyrtl.Register(w, 'r1', reset_value=1), pyrtl.Register(w, 'r2')]
        for i, r in enumerate(rs):
            r.next <<= n
            o = pyrtl.Output(w, 'o%d' % i)
            o <<= r
    elif k == 'dead_memwrite':
        # logic that only feeds a memory write port
        m = pyrtl.MemBlock(bitwidth=w, addrwidth=2, name='m', asynchronous=True)
        a, c, we = pyrtl.Input(w, 'a'), pyrtl.Input(2, 'wa'), pyrtl.Input(1, 'we')
        m[c] <<= pyrtl.MemBlock.EnabledWrite((a + 1)[:w] ^ a, we & (a == 1))
        ra = pyrtl.Input(2, 'ra')
        o = pyrtl.Output(w, 'o')
        o <<= m[ra]
    elif k == 'slices':
        a = pyrtl.Input(w, 'a')
        o0, o1, o2 = pyrtl.Output(w, 'o0'), pyrtl.Output(w, 'o1'), pyrtl.Output(w, 'o2')
        o0 <<= a[0:w]
        o1 <<= a[::-1]
        t = a[0:w]
        o2 <<= t[0:w] & a[:]
    elif k == 'const_reg':
        r = pyrtl.Register(w, 'r', reset_value=d.get('rv'))
        r.next <<= pyrtl.Const(d.get('cv', 1), bitwidth=w)
        a = pyrtl.Input(w, 'a')
        o = pyrtl.Output(w, 'o')
        o <<= r ^ a
    elif k == 'const_reg_bit':
        r = pyrtl.Register(1, 'r', reset_value=d.get('rv'))
        r.next <<= pyrtl.Const(d.get('cv', 1), bitwidth=1)
        a = pyrtl.Input(1, 'a')
        o = pyrtl.Output(1, 'o')
        o <<= r & a
    elif k == 'wire_chain':
        a = pyrtl.Input(w, 'a')
        t1, t2 = pyrtl.WireVector(w, 't1'), pyrtl.WireVector(w, 't2')
        t1 <<= a
        t2 <<= t1
        r = pyrtl.Register(w, 'r')
        r.next <<= t2
        o = pyrtl.Output(w, 'o')
        o <<= r
        o2 = pyrtl.Output(w, 'o2')
        o2 <<= t2
    elif k == 'in_to_out':
        a = pyrtl.Input(w, 'a')
        o = pyrtl.Output(w, 'o')
        o <<= a
        o2 = pyrtl.Output(w, 'o2')
        o2 <<= a
    elif k == 'reg_to_out':
        a = pyrtl.Input(w, 'a')
        r = pyrtl.Register(w, 'r', reset_value=d.get('rv'))
        r.next <<= a
        o = pyrtl.Output(w, 'o')
        o <<= r
    elif k == 'mem_to_out':
        m = pyrtl.MemBlock(bitwidth=w, addrwidth=2, name='m', asynchronous=True)
        ra, wa_, wd, we = pyrtl.Input(2, 'ra'), pyrtl.Input(2, 'wa'), pyrtl.Input(w, 'wd'), pyrtl.Input(1, 'we')
        m[wa_] <<= pyrtl.MemBlock.EnabledWrite(wd, we)
        o = pyrtl.Output(w, 'o')
        o <<= m[ra]
    elif k == 'fanout':
        a, c = pyrtl.Input(w, 'a'), pyrtl.Input(w, 'b')
        t = a ^ c
        outs = [t & a, t | c, t + a, ~t, pyrtl.concat(t, t, t), t[0]]
        for i, e in enumerate(outs[:d.get('n', 6)]):
            o = pyrtl.Output(len(e), 'o%d' % i)
            o <<= e
    elif k == 'same_net_fanout':
        # a wire read several times by ONE net and by no other
        a, c = pyrtl.Input(w, 'a'), pyrtl.Input(w, 'b')
        t = a ^ c
        o = pyrtl.Output(3 * w, 'o')
        o <<= pyrtl.concat(t, t, t)
        u = a & c
        o2 = pyrtl.Output(1, 'o2')
        o2 <<= pyrtl.select(u[0], u[0], u[0]) if w == 1 else pyrtl.select(u[0], u, u)[0]
        m = pyrtl.MemBlock(bitwidth=1, addrwidth=1, name='m', asynchronous=True)
        x = pyrtl.Input(1, 'x')
        y = ~x
        m[y] <<= pyrtl.MemBlock.EnabledWrite(y, y)
        o3 = pyrtl.Output(1, 'o3')
        o3 <<= m[x]
    elif k == 'wide_concat':
        ws = d.get('ws', [1, 2, 3, 1])
        ins = [pyrtl.Input(x, 'a%d' % i) for i, x in enumerate(ws)]
        o = pyrtl.Output(sum(ws), 'o')
        o <<= pyrtl.concat(*ins)
        o2 = pyrtl.Output(3, 'o2')
        o2 <<= pyrtl.concat(*ins)[1:4] if sum(ws) >= 4 else pyrtl.concat(*ins)[0:1]
    elif k == 'const_folds':
        # several all-constant nets of DIFFERENT widths that fold to the same number, with width-sensitive consumers
        x = pyrtl.Input(2, 'x')
        z1 = pyrtl.Const(0, bitwidth=1) & pyrtl.Const(1, bitwidth=1)          # 1 bit, value 0
        z2 = pyrtl.Const(2, bitwidth=2) & pyrtl.Const(1, bitwidth=2)          # 2 bits, value 0
        one3 = pyrtl.Const(5, bitwidth=3) ^ pyrtl.Const(4, bitwidth=3)        # 3 bits, value 1
        one1 = pyrtl.Const(1, bitwidth=1) | pyrtl.Const(0, bitwidth=1)        # 1 bit, value 1
        o = pyrtl.Output(5, 'o')
        o <<= pyrtl.concat(x, z2, z1)
        o2 = pyrtl.Output(6, 'o2')
        o2 <<= pyrtl.concat(one1, x, one3)
        o3 = pyrtl.Output(4, 'o3')
        o3 <<= pyrtl.concat(z1, x, one1)
    elif k == 'mem_const_addr':
        # a read port whose address is a constant while another port writes the memory (the read is not a constant)
        m = pyrtl.MemBlock(bitwidth=w, addrwidth=2, name='m', asynchronous=True)
        wa_, wd, we = pyrtl.Input(2, 'wa'), pyrtl.Input(w, 'wd'), pyrtl.Input(1, 'we')
        m[wa_] <<= pyrtl.MemBlock.EnabledWrite(wd, we)
        o = pyrtl.Output(w, 'o')
        o <<= m[2]
        o2 = pyrtl.Output(w, 'o2')
        o2 <<= m[pyrtl.Const(1, bitwidth=2)] ^ pyrtl.Const(1, bitwidth=w)
    elif k == 'mem_clear_port':
        # one port writes a constant 0 (a clear port), another writes data
        m = pyrtl.MemBlock(bitwidth=w, addrwidth=2, name='m', asynchronous=True, max_write_ports=None)
        ca, clr = pyrtl.Input(2, 'ca'), pyrtl.Input(1, 'clr')
        wa_, wd, we, ra = pyrtl.Input(2, 'wa'), pyrtl.Input(w, 'wd'), pyrtl.Input(1, 'we'), pyrtl.Input(2, 'ra')
        m[ca] <<= pyrtl.MemBlock.EnabledWrite(pyrtl.Const(0, bitwidth=w), clr)
        m[wa_] <<= pyrtl.MemBlock.EnabledWrite(wd, we)
        o = pyrtl.Output(w, 'o')
        o <<= m[ra]
    elif k == 'mem_tied_enable':
        # a write port whose enable is tied to constant 0 (never writes) next to a live one; and one tied to 1
        m = pyrtl.MemBlock(bitwidth=w, addrwidth=2, name='m', asynchronous=True, max_write_ports=None)
        m2 = pyrtl.MemBlock(bitwidth=w, addrwidth=1, name='m2', asynchronous=True)
        ta, td = pyrtl.Input(2, 'ta'), pyrtl.Input(w, 'td')
        wa_, wd, we, ra = pyrtl.Input(2, 'wa'), pyrtl.Input(w, 'wd'), pyrtl.Input(1, 'we'), pyrtl.Input(2, 'ra')
        m[ta] <<= pyrtl.MemBlock.EnabledWrite(td, pyrtl.Const(0, bitwidth=1))
        m[wa_] <<= pyrtl.MemBlock.EnabledWrite(wd, we)
        m2[ra[0]] <<= pyrtl.MemBlock.EnabledWrite(td, pyrtl.Const(1, bitwidth=1))
        o = pyrtl.Output(w, 'o')
        o <<= m[ra]
        o2 = pyrtl.Output(w, 'o2')
        o2 <<= m2[wa_[0]]
    elif k == 'rom_sparse_pad':
        # dict ROM data with holes, padded with zeros: keys beyond the NUMBER of entries hold non-zero words
        rom = pyrtl.RomBlock(bitwidth=8, addrwidth=4, romdata={0: 7, 3: 0x19, 9: 0x2A, 12: 1, 15: 0x80}, name='rom',
                             asynchronous=True, pad_with_zeros=True)
        a = pyrtl.Input(4, 'a')
        o = pyrtl.Output(8, 'o')
        o <<= rom[a]
    elif k == 'mem_write_only':
        # a memory that is only ever written (a log): no read port at all, multi-bit address and data
        m = pyrtl.MemBlock(bitwidth=w, addrwidth=2, name='log', asynchronous=True)
        a, d_, we = pyrtl.Input(2, 'wa'), pyrtl.Input(w, 'wd'), pyrtl.Input(1, 'we')
        m[a] <<= pyrtl.MemBlock.EnabledWrite(~d_, we)
        o = pyrtl.Output(w, 'o')
        o <<= d_ & 1
    elif k == 'rom_many_ports':
        # more read ports than one ROM instance allows: build_new_roms makes further instances behind the scenes, each of
        # which must be the same ROM (contents, padding)
        # (data for every address: reading it never depends on the padding, so no case splits; the instances' attributes are
        #  compared by C01)
        rom = pyrtl.RomBlock(bitwidth=5, addrwidth=3, romdata=[3, 9, 17, 30, 1, 0, 22, 5], name='rom', asynchronous=True, pad_with_zeros=True,
                             max_read_ports=2, build_new_roms=True)
        a, b = pyrtl.Input(3, 'a'), pyrtl.Input(3, 'b')
        for i, adr in enumerate((a, b, a, pyrtl.Const(6, 3), b)):      # (repeated address wires: no further case splits)
            o = pyrtl.Output(5, 'o%d' % i)
            o <<= rom[adr]
    else:
        raise ValueError(k)
    return pyrtl.working_block()


def misc_cases():
    out = []
    for k in ('dead_memwrite', 'slices', 'wire_chain', 'in_to_out', 'reg_to_out', 'mem_to_out', 'fanout', 'wide_concat',
              'same_net_fanout'):
        for w in (1, 3):
            out.append({'fam': 'MISC', 'kind': k, 'w': w})
    out.append({'fam': 'MISC', 'kind': 'reg_to_out', 'w': 3, 'rv': 5})
    out.append({'fam': 'MISC', 'kind': 'wide_concat', 'w': 3, 'ws': [2, 2, 2, 2, 2]})
    for rv, cv in ((None, 0), (None, 1), (1, 1), (0, 1), (1, 0)):
        out.append({'fam': 'MISC', 'kind': 'const_reg_bit', 'rv': rv, 'cv': cv})
        out.append({'fam': 'MISC', 'kind': 'const_reg', 'w': 3, 'rv': None if rv is None else rv * 5, 'cv': cv * 5})
    out.append({'fam': 'MISC', 'kind': 'const_folds'})
    for k in ('mem_const_addr', 'mem_clear_port', 'mem_tied_enable'):
        out.append({'fam': 'MISC', 'kind': k, 'w': 3})
    out.append({'fam': 'MISC', 'kind': 'rom_sparse_pad'})
    out.append({'fam': 'MISC', 'kind': 'rom_many_ports'})
    out.append({'fam': 'MISC', 'kind': 'mem_write_only', 'w': 3})
    out.append({'fam': 'MISC', 'kind': 'dup_regs', 'w': 1})
    out.append({'fam': 'MISC', 'kind': 'dup_regs', 'w': 3})
    return out


FAMILIES.update({'CONSTOP': build_constop, 'DUP': build_dup, 'MISC': build_misc, 'CARG': build_carg})
