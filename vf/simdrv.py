"""Drive the real pyrtl.Simulation / FastSimulation symbolically (ENGINE S applied to simulation.py).

Nothing in /repo is edited. The environment (DESIGN 2.3) is installed as module globals of
pyrtl.simulation for the duration of a `sym_env()` block:
  bin/len/int stubs, Simulation.simple_func entries wrapped by merged() (real lambdas still run),
  Simulation._mem_update wrapped so that the `if write_enable:` fork is merged into the array,
  RomBlock.data wrapped by a table object that accepts a symbolic address.
"""
import ast
import contextlib
import types
import builtins
import z3
import pyrtl
from pyrtl import simulation as _simmod
from pyrtl import memory as _memmod
from pyrtl import helperfuncs as _hf
from . import sym
from .sym import SymInt, SymBool, SymMem, SymTable, merged, explore, to_bv, is_sym, ite

MERGE_POINTS = ['Simulation.simple_func[*] (merged)', 'Simulation._mem_update (merged side effect on SymMem)',
                'FastSimulation generated IfExp -> ite; generated `if we:` writes merged']


class _RomData(object):
    """stands in for RomBlock.data (list / dict) while simulating symbolically"""

    def __init__(self, rom, uf=False):
        self.rom = rom
        self.orig = rom.data
        self.tab = SymTable(rom.data, rom.addrwidth, rom.bitwidth, uf=uf, name=rom.name)

    def __getitem__(self, addr):
        if not is_sym(addr):
            return self.orig[addr]

        def missing(a):
            if isinstance(self.orig, dict):
                raise KeyError(a)
            raise IndexError(a)
        return self.tab.lookup(addr, missing)

    def __len__(self):
        return len(self.orig)


def _wrap_rom_function(rom, uf=False):
    orig = rom.data
    tab = SymTable(orig, rom.addrwidth, rom.bitwidth, uf=uf, name=rom.name)

    def romfunc(address):
        if not is_sym(address):
            return orig(address)

        def missing(a):
            return orig(a)  # re-raises whatever the user function raises
        return tab.lookup(address, missing)
    romfunc._vf_orig = orig
    return romfunc


def _merged_mem_update(orig):
    def _mem_update(self, net, *args, **kw):
        if args or kw:
            # a different calling convention than the one this wrapper merges (results handed over through arguments): the
            # real method runs as it is
            return orig(self, net, *args, **kw)
        if net.op != '@':
            return orig(self, net)
        mem = self.memvalue.get(net.op_param[0])
        if not isinstance(mem, SymMem):
            return orig(self, net)
        snap, snap_p = mem.arr, mem.present

        def others():
            # everything else the simulator object holds, by identity and size: the merge below is only right if the method's
            # sole effect is on this memory
            out = {}
            for k_, v_ in vars(self).items():
                out[k_] = (id(v_), len(v_) if isinstance(v_, (dict, list, set, tuple)) else None)
                if isinstance(v_, dict) and k_ != 'value':
                    for k2, v2 in v_.items():
                        if isinstance(v2, (dict, list, set)):
                            out[(k_, id(k2))] = (id(v2), len(v2))
            return out
        before = others()
        touched = [False]

        def body():
            mem.arr, mem.present = snap, snap_p
            ret = orig(self, net)
            if others() != before:
                touched[0] = True
            return mem.arr, mem.present, ret
        paths = explore(body, lazy=True)
        if touched[0]:
            raise sym.HarnessError('Simulation._mem_update changes simulator state other than the written memory: the state-merging '
                                   'wrapper of vf/simdrv.py does not model that (revisit _merged_mem_update)')
        if any(p.exc is None and p.result[2] is not None for p in paths):
            # this _mem_update hands something back to its caller instead of (only) updating the memory: no merging, the
            # real method runs as it is and the exploration forks where it branches
            mem.arr, mem.present = snap, snap_p
            return orig(self, net)
        paths = [p for p in paths]
        for p in paths:
            if p.exc is None:
                p.result = p.result[:2]
        acc, acc_p = None, None
        for p in paths:
            if p.exc is not None:
                if sym.fork(p.cond()):
                    raise p.exc
                continue
            arr_, pres_ = p.result
            acc = arr_ if acc is None else z3.If(p.cond(), arr_, acc)
            if pres_ is not None:
                acc_p = pres_ if acc_p is None else z3.If(p.cond(), pres_, acc_p)
        mem.arr = acc if acc is not None else snap
        mem.present = acc_p if acc_p is not None else snap_p
    _mem_update._vf_orig = orig
    return _mem_update


@contextlib.contextmanager
def sym_env(blocks=(), rom_uf=False):
    """install the environment; `blocks`: blocks whose RomBlocks get symbolic-address tables"""
    saved_funcs = dict(_simmod.Simulation.simple_func)
    saved_mu = _simmod.Simulation._mem_update
    roms = []
    try:
        for k, f in saved_funcs.items():
            _simmod.Simulation.simple_func[k] = merged(f)
        _simmod.Simulation._mem_update = _merged_mem_update(saved_mu)
        seen = set()
        for b in blocks:
            for net in b.logic_subset('m'):
                rom = net.op_param[1]
                if isinstance(rom, _memmod.RomBlock) and id(rom) not in seen:
                    seen.add(id(rom))
                    roms.append((rom, rom.data))
                    if isinstance(rom.data, types.FunctionType):
                        rom.data = _wrap_rom_function(rom, rom_uf)
                    else:
                        rom.data = _RomData(rom, rom_uf)
        with sym.stubs(_simmod, bin=sym.sym_bin, len=sym.sym_len, int=sym.sym_int, dict=_sym_dict,
                       compile=_fast_compile), \
                sym.stubs(_memmod, str=_safe_str), sym.stubs(_hf, str=_safe_str):
            yield
    finally:
        for k, f in saved_funcs.items():
            _simmod.Simulation.simple_func[k] = f
        _simmod.Simulation._mem_update = saved_mu
        for rom, data in roms:
            rom.data = data


def _safe_str(x=''):
    return builtins.str(x)


class _DictMeta(type):
    def __instancecheck__(cls, inst):
        return isinstance(inst, builtins.dict)


class _sym_dict(builtins.dict, metaclass=_DictMeta):
    """stands in for `dict` inside pyrtl.simulation: dict(<symbolic memory>) is a snapshot copy of it, as dict(d) is of a dict"""
    def __new__(cls, *a, **k):
        if a and isinstance(a[0], SymMem):
            return a[0].copy()
        return builtins.dict(*a, **k)


# ------------------------------------------------------------------------------------------
# FastSimulation: the generated source is compiled through an AST rewrite:
#   a if c else b   ->  __vf_ite(lambda: c, lambda: a, lambda: b)       (merging point)
#   int(e)          ->  __vf_int(e)
#   `if we: mem_ws.append(t)` forks for real (one path per enabled/disabled write)

class _Rewrite(ast.NodeTransformer):
    def visit_IfExp(self, node):
        self.generic_visit(node)
        lam = lambda e: ast.Lambda(args=ast.arguments(posonlyargs=[], args=[], kwonlyargs=[], kw_defaults=[],
                                                      defaults=[]), body=e)
        return ast.Call(func=ast.Name(id='__vf_ite', ctx=ast.Load()),
                        args=[lam(node.test), lam(node.body), lam(node.orelse)], keywords=[])

    keep_int = False     # the generated code binds the name `int` itself (a wire called int): the call must see that binding

    def visit_Call(self, node):
        self.generic_visit(node)
        if isinstance(node.func, ast.Name) and node.func.id == 'int' and not self.keep_int:
            node.func = ast.Name(id='__vf_int', ctx=ast.Load())
        return node


def _vf_ite(c, a, b):
    cv = c()
    if not is_sym(cv):
        return a() if cv else b()
    p = explore(lambda: (a(), None), lazy=True)
    q = explore(lambda: (b(), None), lazy=True)
    if len(p) != 1 or len(q) != 1 or p[0].exc or q[0].exc:
        raise sym.HarnessError('nested control flow inside a generated conditional expression')
    return ite(cv, p[0].result[0], q[0].result[0])


LAST_FAST_SOURCE = [None]


def _fast_compile(source, filename, mode, *a, **k):
    if filename != '<string>' or mode != 'exec' or not isinstance(source, str):
        return builtins.compile(source, filename, mode, *a, **k)
    LAST_FAST_SOURCE[0] = source
    tree = ast.parse(source)
    rw = _Rewrite()
    rw.keep_int = any(isinstance(n, ast.Name) and n.id == 'int' and isinstance(n.ctx, ast.Store) for n in ast.walk(tree)) or \
        any(isinstance(n, ast.arg) and n.arg == 'int' for n in ast.walk(tree))
    tree = rw.visit(tree)
    pre = ast.parse('from vf.simdrv import _vf_ite as __vf_ite\nfrom vf.sym import sym_int as __vf_int\n')
    tree.body = pre.body + tree.body
    ast.fix_missing_locations(tree)
    return builtins.compile(tree, filename, mode)


# ------------------------------------------------------------------------------------------

class Vars(object):
    """the solver variables of one harness: inputs per cycle, initial registers, initial memories"""

    def __init__(self, tag=''):
        self.tag = tag
        self.inputs = {}   # (name, t) -> BitVec
        self.regs = {}     # name -> BitVec
        self.mems = {}     # name -> Array
        self.widths = {}

    def inp(self, name, t, width):
        k = (name, t)
        if k not in self.inputs:
            self.inputs[k] = z3.BitVec('%sin_%s_%d' % (self.tag, name, t), width)
            self.widths[name] = width
        return self.inputs[k]

    def reg(self, name, width):
        if name not in self.regs:
            self.regs[name] = z3.BitVec('%sreg_%s' % (self.tag, name), width)
        return self.regs[name]

    def mem(self, name, aw, bw):
        if name not in self.mems:
            self.mems[name] = z3.Array('%smem_%s' % (self.tag, name), z3.BitVecSort(aw), z3.BitVecSort(bw))
        return self.mems[name]

    def model_values(self, model):
        out = {'inputs': {}, 'regs': {}, 'mems': {}}
        for (name, t), v in self.inputs.items():
            out['inputs'].setdefault(name, {})[t] = model.eval(v, model_completion=True).as_long()
        for name, v in self.regs.items():
            out['regs'][name] = model.eval(v, model_completion=True).as_long()
        for name, arr in self.mems.items():
            aw = arr.sort().domain().size()
            n = 1 << aw
            if n <= 64:
                out['mems'][name] = {str(a): model.eval(z3.Select(arr, z3.BitVecVal(a, aw)),
                                                         model_completion=True).as_long() for a in range(n)}
            else:
                out['mems'][name] = {}
        return out


def mems_of(block):
    """{memid: MemBlock} for the non-ROM memories of a block, in a deterministic order"""
    out = {}
    for net in sorted(block.logic_subset('m@'), key=lambda n: (n.op_param[1].name, n.op)):
        m = net.op_param[1]
        if not isinstance(m, _memmod.RomBlock):
            out[m.id] = m
    return out


def default_memkey(block):
    """the key a user passes in memory_value_map for a memory of this block: for a PostSynthBlock the
    ORIGINAL MemBlock (Simulation translates through block.mem_map), otherwise the MemBlock itself"""
    from pyrtl.core import PostSynthBlock
    if isinstance(block, PostSynthBlock):
        inv = {id(v): k for k, v in block.mem_map.items()}
        return lambda m: inv.get(id(m), m)
    return lambda m: m


def symbolize_mems(sim, block, kind, default_value=0):
    """replace the plain-dict memory contents a freshly constructed simulator created by SymMem (same contents)"""
    # one SymMem per distinct dict OBJECT: if the simulator made two memories share one dict, they share one SymMem too
    swapped = {}
    for mid, m in mems_of(block).items():
        store, key = (sim.memvalue, mid) if kind == 'sim' else (sim.mems, sim._mem_varname(m))
        if key in store and isinstance(store[key], dict):
            old = store[key]
            if id(old) not in swapped:
                swapped[id(old)] = (old, SymMem.from_dict(old, default_value, m.addrwidth, m.bitwidth))
            store[key] = swapped[id(old)][1]
    return sim


class SimResult(object):
    __slots__ = ('pc', 'trace', 'mems', 'exc', 'extra', 'regs_next')

    def cond(self):
        return z3.And(*self.pc) if self.pc else z3.BoolVal(True)


def run_sim(block, K, vars_, kind='sim', reg_init='sym', mem_init='sym', default_value=0,
            track='all', input_names=None, assumptions=(), regmap_key=None, memmap_key=None,
            after_step=None, max_paths=256, inputs_override=None, catch=None):
    """Symbolically run the real simulator for K cycles. Must be called inside sym_env().
    catch: exception classes a caller's loop would catch around step() and go on stepping (rtl_assert exceptions)

    reg_init: 'sym' (fresh variable per register through register_value_map) | 'reset' (no map given)
              | dict name->value
    mem_init: 'sym' (fresh array per memory through memory_value_map) | 'default' (no map) | dict name->SymMem
    returns a list of SimResult (one per explored path)
    """
    inputs = sorted(block.wirevector_subset(pyrtl.Input), key=lambda w: w.name)
    regs = sorted(block.wirevector_subset(pyrtl.Register), key=lambda w: w.name)
    mems = mems_of(block)
    if track == 'all':
        tracked = sorted(block.wirevector_set, key=lambda w: w.name)
    elif track == 'io':
        tracked = sorted(block.wirevector_subset((pyrtl.Input, pyrtl.Output)), key=lambda w: w.name)
    else:
        tracked = list(track)
    regmap_key = regmap_key or (lambda r: r)
    memmap_key = memmap_key or default_memkey(block)

    def body():
        rmap = {}
        if reg_init == 'sym':
            for r in regs:
                rmap[regmap_key(r)] = SymInt.mk(vars_.reg(r.name, r.bitwidth), False)
        elif isinstance(reg_init, dict):
            for r in regs:
                if r.name in reg_init:
                    rmap[regmap_key(r)] = reg_init[r.name]
        mmap = {}
        if mem_init == 'sym':
            for mid, m in mems.items():
                mmap[memmap_key(m)] = SymMem(vars_.mem(m.name, m.addrwidth, m.bitwidth), m.addrwidth, m.bitwidth)
        elif isinstance(mem_init, dict):
            for mid, m in mems.items():
                if m.name in mem_init:
                    v = mem_init[m.name]
                    mmap[memmap_key(m)] = v.copy() if isinstance(v, SymMem) else dict(v)
        tracer = pyrtl.SimulationTrace(wires_to_track=tracked, block=block)
        if kind == 'sim':
            sim = pyrtl.Simulation(tracer=tracer, register_value_map=rmap, memory_value_map=mmap,
                                   default_value=default_value, block=block)
            symbolize_mems(sim, block, 'sim', default_value)
        elif kind == 'fast':
            sim = pyrtl.FastSimulation(tracer=tracer, register_value_map=rmap, memory_value_map=mmap,
                                       default_value=default_value, block=block)
            symbolize_mems(sim, block, 'fast', default_value)
        else:
            raise sym.HarnessError('unknown simulator kind ' + kind)
        extra = []
        for t in range(K):
            if inputs_override is not None:
                ins = inputs_override(t)
            else:
                ins = {}
                for w in inputs:
                    ins[w.name] = SymInt.mk(vars_.inp(w.name, t, w.bitwidth), False)
            if catch:
                try:
                    sim.step(ins)
                except catch:
                    pass
            else:
                sim.step(ins)
            if after_step is not None:
                extra.append(after_step(sim, t))
        res = {'trace': {w.name: list(tracer.trace[w.name]) for w in tracked if w.name in tracer.trace},
               'mems': {}, 'extra': extra}
        for mid, m in mems.items():
            mv = sim.memvalue[mid] if kind == 'sim' else sim.mems[sim._mem_varname(m)]
            res['mems'][m.name] = mv.arr if isinstance(mv, SymMem) else mv
        if kind == 'sim':
            res['regs_next'] = {r.name: sim.regvalue[r] for r in regs}
        else:
            res['regs_next'] = {r.name: sim.regs[r.name] for r in regs}
        return res

    paths = explore(body, assumptions=assumptions, max_paths=max_paths)
    out = []
    for p in paths:
        r = SimResult()
        r.pc, r.exc = p.pc, p.exc
        if p.exc is None:
            r.trace, r.mems, r.extra, r.regs_next = (p.result['trace'], p.result['mems'], p.result['extra'],
                                                     p.result['regs_next'])
        else:
            r.trace, r.mems, r.extra, r.regs_next = {}, {}, [], {}
        out.append(r)
    return out


def single_path(results, what='simulation'):
    ok = [r for r in results if r.exc is None]
    if len(results) != 1 or len(ok) != 1:
        excs = [repr(r.exc) for r in results if r.exc is not None]
        raise sym.HarnessError('%s: expected exactly one non-raising path, got %d paths (%s)'
                               % (what, len(results), '; '.join(excs)[:300]))
    return ok[0]


def wire_terms(block, res, names=None):
    """{name: [BitVec(width) per cycle]} from a SimResult"""
    out = {}
    for w in block.wirevector_set:
        if w.name in res.trace and (names is None or w.name in names):
            out[w.name] = [to_bv(v, w.bitwidth) for v in res.trace[w.name]]
    return out


# ------------------------------------------------------------------------------------------
# CompiledSimulation: the real constructor runs (gcc build), the C text written by _create_code is captured and
# given meaning by vf/ctrans.py; the real run() (input validation, limb packing, unpacking into the trace) executes
# symbolically over list-backed buffers.

class _ArrayFactory(object):
    def __init__(self, n):
        self.n = n

    def __call__(self):
        return [0] * self.n


class _CUInt64(object):
    def __mul__(self, n):
        return _ArrayFactory(n)


class _CtypesShim(object):
    """stands in for the name `ctypes` inside pyrtl.compilesim while run() executes symbolically"""
    c_uint64 = _CUInt64()

    def __getattr__(self, name):
        import ctypes
        return getattr(ctypes, name)


class CompiledModel(object):
    def __init__(self, block, regvals=None, memvals=None, default_value=0, tracked=None, default_tracer=False):
        from pyrtl import compilesim as cs
        from . import ctrans
        self.block = block
        text = []
        orig = cs.CompiledSimulation._create_code

        def tee(self_, write):
            def w2(s):
                text.append(s)
                write(s)
            return orig(self_, w2)
        cs.CompiledSimulation._create_code = tee
        try:
            rmap = {}
            for r in block.wirevector_subset(pyrtl.Register):
                if regvals and r.name in regvals:
                    rmap[r] = regvals[r.name]
            mmap = {}
            for mid, m in mems_of(block).items():
                if memvals and m.name in memvals:
                    mmap[default_memkey(block)(m)] = dict(memvals[m.name])      # the key Simulation documents (original MemBlock after synthesize)
            tracked = tracked if tracked is not None else sorted(block.wirevector_subset((pyrtl.Input, pyrtl.Output)), key=lambda w: w.name)
            self.tracked = tracked
            if default_tracer:      # the simulator's own default SimulationTrace
                self.sim = cs.CompiledSimulation(register_value_map=rmap, memory_value_map=mmap, default_value=default_value,
                                                 block=block)
            else:
                self.sim = cs.CompiledSimulation(tracer=pyrtl.SimulationTrace(wires_to_track=tracked, block=block),
                                                 register_value_map=rmap, memory_value_map=mmap, default_value=default_value,
                                                 block=block)
        finally:
            cs.CompiledSimulation._create_code = orig
        self.text = '\n'.join(text)
        self.model = ctrans.Model(self.text)
        self.state = None

    def reset(self):
        self.state = self.model.initial_state()
        self.model.ub = []
        sim = self.sim
        sim.tracer.trace.__init__(sim.tracer.wires_to_track)

    def crun(self, steps, ibuf, obuf):
        sim = self.sim
        for n in range(steps):
            ins = [to_bv(ibuf[n * sim._ibufsz + i], 64) for i in range(sim._ibufsz)]
            outs, self.state = self.model.step(self.state, ins, sim._obufsz)
            for i, o in enumerate(outs):
                obuf[n * sim._obufsz + i] = SymInt.mk(o, False)

    def mem_array(self, mem):
        """(z3 array BV64 -> BV(64*limbs), limbs) of a MemBlock in the model state"""
        vn = self.sim.varname[mem]
        return self.state['mem'][vn], self.model.mems[vn]


def run_compiled(cm, K, vars_, assumptions=(), inputs_override=None, max_paths=64, one_call=False):
    """symbolically run the real CompiledSimulation.run()/step() for K cycles on a CompiledModel"""
    from pyrtl import compilesim as cs
    block = cm.block
    inputs = sorted(block.wirevector_subset(pyrtl.Input), key=lambda w: w.name)

    def body():
        cm.reset()
        sim = cm.sim
        saved = sim._crun
        sim._crun = lambda steps, ibuf, obuf: cm.crun(steps, ibuf, obuf)   # a plain function accepts the .argtypes attribute
        try:
            with sym.stubs(cs, ctypes=_CtypesShim(), int=sym.sym_int):
                steps = []
                for t in range(K):
                    if inputs_override is not None:
                        ins = inputs_override(t)
                    else:
                        ins = {w.name: SymInt.mk(vars_.inp(w.name, t, w.bitwidth), False) for w in inputs}
                    if one_call:
                        steps.append(ins)
                    else:
                        sim.step(ins)
                if one_call:
                    sim.run(steps)
        finally:
            sim._crun = saved
        trace = {w.name: list(sim.tracer.trace[w.name]) for w in sim.tracer.wires_to_track}
        return {'trace': trace, 'state': cm.state, 'ub': list(cm.model.ub)}
    paths = explore(body, assumptions=assumptions, max_paths=max_paths)
    out = []
    for p in paths:
        r = SimResult()
        r.pc, r.exc = p.pc, p.exc
        r.trace = p.result['trace'] if p.exc is None else {}
        r.extra = p.result if p.exc is None else None
        r.mems, r.regs_next = {}, {}
        if p.exc is None:
            for mid, m in mems_of(block).items():
                vn = cm.sim.varname[m]
                r.mems[m.name] = (p.result['state']['mem'][vn], cm.model.mems[vn])
        out.append(r)
    return out


def validate_compiled_model(cm, K, vars_, results, salt=0):
    """translator validation (not a property obligation): the z3 meaning vf/ctrans.py gives to the generated C, evaluated on
    one concrete input sequence, must equal what the real gcc-built library computes for that sequence. Runs the REAL
    CompiledSimulation held by `cm` (its static state is still the initial one: the symbolic runs never entered the library).
    returns (checked values, [mismatch descriptions]); a mismatch means ctrans misreads the text -> harness error"""
    block = cm.block
    inputs = sorted(block.wirevector_subset(pyrtl.Input), key=lambda w: w.name)
    pats = [lambda m, t: m, lambda m, t: 0xAAAAAAAAAAAAAAAAAAAAAAAAAAAAAAAAAAAAAAAAAAA & m,
            lambda m, t: (0x5DEECE66D * (t + 3) + 0xB) & m, lambda m, t: 1 & m, lambda m, t: 0]
    vec = {}
    subs = []
    for i, w in enumerate(inputs):
        for t in range(K):
            val = pats[(salt + i + t) % len(pats)](w.bitmask, t)
            vec[(w.name, t)] = val
            subs.append((vars_.inp(w.name, t, w.bitwidth), z3.BitVecVal(val, w.bitwidth)))
    sim = cm.sim
    sim.tracer.trace.__init__(sim.tracer.wires_to_track)
    try:
        for t in range(K):
            sim.step({w.name: vec[(w.name, t)] for w in inputs})
    except Exception as e:     # an input the real run() refuses: nothing to compare
        return 0, []
    real = {w.name: list(sim.tracer.trace[w.name]) for w in sim.tracer.wires_to_track}
    n, bad = 0, []
    taken = 0
    for r in results:
        if r.exc is not None:
            continue
        pc = z3.simplify(z3.substitute(z3.And(*r.pc), *subs)) if r.pc else z3.BoolVal(True)
        if not z3.is_true(pc):
            continue
        taken += 1
        for name, vals in r.trace.items():
            wv = block.wirevector_by_name[name]
            for t in range(min(K, len(vals))):
                term = z3.simplify(z3.substitute(to_bv(vals[t], wv.bitwidth + 1), *subs))
                if not z3.is_bv_value(term):
                    continue      # depends on an uninterpreted function (abstracted product): not evaluable
                n += 1
                if term.as_long() != real[name][t]:
                    bad.append('%s@%d: ctrans model %d, real library %d' % (name, t, term.as_long(), real[name][t]))
    if taken != 1 and not bad and n == 0:
        return 0, []
    return n, bad
