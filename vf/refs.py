"""Reference models written from the published algorithms (FIPS-197, xoroshiro128+, Trivium, Fibonacci LFSR).

Each is generic over plain ints and z3 bit-vectors (only ^ & | + shifts/extracts through the small adapter below), so
the same text is (a) validated concretely on the repository's own known-answer vectors and (b) used symbolically.
Bit-order / protocol conventions are the repository's tested ones (see DESIGN 2.6)."""
import z3

# ------------------------------------------------------------------------------------------
# GF(2^8) from first principles (AES polynomial x^8+x^4+x^3+x+1)


def gmul_int(a, b):
    r = 0
    for _ in range(8):
        if b & 1:
            r ^= a
        hi = a & 0x80
        a = (a << 1) & 0xff
        if hi:
            a ^= 0x1b
        b >>= 1
    return r


def ginv_int(a):
    if a == 0:
        return 0
    r = 1
    for _ in range(254):
        r = gmul_int(r, a)
    return r


def sbox_int(a):
    x = ginv_int(a)
    r = 0
    for i in range(8):
        bit = ((x >> i) ^ (x >> ((i + 4) % 8)) ^ (x >> ((i + 5) % 8)) ^ (x >> ((i + 6) % 8)) ^ (x >> ((i + 7) % 8)) ^ (0x63 >> i)) & 1
        r |= bit << i
    return r


SBOX = [sbox_int(a) for a in range(256)]
INV_SBOX = [0] * 256
for _a, _s in enumerate(SBOX):
    INV_SBOX[_s] = _a
RCON = [0] * 256   # rcon[i] = x^(i-1) for i >= 1 (FIPS-197 5.2); entry 0 is never used
_r = 1
for _i in range(1, 256):
    RCON[_i] = _r
    _r = gmul_int(_r, 2)


# symbolic GF(2^8) on z3 BV8 (for the ROM table lemmas)
def xtime_bv(a):
    return z3.If(z3.Extract(7, 7, a) == 1, (a << 1) ^ z3.BitVecVal(0x1b, 8), a << 1)


def gmul_bv_const(a, k):
    r = z3.BitVecVal(0, 8)
    p = a
    for i in range(8):
        if (k >> i) & 1:
            r = r ^ p
        p = xtime_bv(p)
    return r


def gmul_bv(a, b):
    r = z3.BitVecVal(0, 8)
    p = a
    for i in range(8):
        r = z3.If(z3.Extract(i, i, b) == 1, r ^ p, r)
        p = xtime_bv(p)
    return r


def ginv_bv(a):
    # a^254 by square-and-multiply
    def sq(x):
        return gmul_bv(x, x)
    a2 = sq(a)
    a4 = sq(a2)
    a8 = sq(a4)
    a16 = sq(a8)
    a32 = sq(a16)
    a64 = sq(a32)
    a128 = sq(a64)
    r = gmul_bv(a128, a64)
    r = gmul_bv(r, a32)
    r = gmul_bv(r, a16)
    r = gmul_bv(r, a8)
    r = gmul_bv(r, a4)
    r = gmul_bv(r, a2)
    return r


def sbox_bv(a):
    x = ginv_bv(a)
    rot = lambda v, k: z3.RotateLeft(v, k)
    return x ^ rot(x, 1) ^ rot(x, 2) ^ rot(x, 3) ^ rot(x, 4) ^ z3.BitVecVal(0x63, 8)


# ------------------------------------------------------------------------------------------
# AES-128 (FIPS-197) over a list of 16 bytes in FIPS input order; F: dict of byte functions

def concrete_funcs():
    return {'sbox': lambda b: SBOX[b], 'inv_sbox': lambda b: INV_SBOX[b], 'rcon': lambda i: RCON[i],
            'gm': lambda b, k: gmul_int(b, k)}


def bytes_of(x, n=16):
    """FIPS byte order: byte 0 is the most significant byte of the n*8-bit value"""
    if isinstance(x, int):
        return [(x >> (8 * (n - 1 - i))) & 0xff for i in range(n)]
    return [z3.Extract(8 * (n - 1 - i) + 7, 8 * (n - 1 - i), x) for i in range(n)]


def join_bytes(bs):
    if all(isinstance(b, int) for b in bs):
        v = 0
        for b in bs:
            v = (v << 8) | b
        return v
    return z3.Concat(*[b if not isinstance(b, int) else z3.BitVecVal(b, 8) for b in bs])


def sub_bytes(s, F, inv=False):
    f = F['inv_sbox'] if inv else F['sbox']
    return [f(b) for b in s]


def shift_rows(s, inv=False):
    # state[r][c] = s[r + 4c]; row r rotates left by r (right for the inverse)
    out = [None] * 16
    for r in range(4):
        for c in range(4):
            src = (c + r) % 4 if not inv else (c - r) % 4
            out[r + 4 * c] = s[r + 4 * src]
    return out


def mix_columns(s, F, inv=False):
    m = [14, 11, 13, 9] if inv else [2, 3, 1, 1]
    out = [None] * 16
    for c in range(4):
        col = s[4 * c:4 * c + 4]
        for r in range(4):
            acc = None
            for k in range(4):
                coef = m[(k - r) % 4]
                term = col[k] if coef == 1 else F['gm'](col[k], coef)
                acc = term if acc is None else acc ^ term
            out[4 * c + r] = acc
    return out


def xor_bytes(a, b):
    return [x ^ y for x, y in zip(a, b)]


def key_expand_step(k, rcon_byte, F):
    """next round key from round key k (16 bytes) — FIPS-197 5.2 with Nk=4"""
    w = [k[4 * i:4 * i + 4] for i in range(4)]
    t = w[3][1:] + w[3][:1]            # RotWord
    t = [F['sbox'](b) for b in t]      # SubWord
    t = [t[0] ^ rcon_byte] + t[1:]
    n0 = xor_bytes(w[0], t)
    n1 = xor_bytes(w[1], n0)
    n2 = xor_bytes(w[2], n1)
    n3 = xor_bytes(w[3], n2)
    return n0 + n1 + n2 + n3


def key_schedule(key_bytes, F):
    ks = [key_bytes]
    for rnd in range(1, 11):
        ks.append(key_expand_step(ks[-1], F['rcon'](rnd), F))
    return ks


def aes_encrypt(pt, key, F):
    ks = key_schedule(key, F)
    s = xor_bytes(pt, ks[0])
    for rnd in range(1, 11):
        s = sub_bytes(s, F)
        s = shift_rows(s)
        if rnd != 10:
            s = mix_columns(s, F)
        s = xor_bytes(s, ks[rnd])
    return s


def aes_decrypt(ct, key, F):
    ks = key_schedule(key, F)
    s = xor_bytes(ct, ks[10])
    for rnd in range(1, 11):
        s = shift_rows(s, inv=True)
        s = sub_bytes(s, F, inv=True)
        s = xor_bytes(s, ks[10 - rnd])
        if rnd != 10:
            s = mix_columns(s, F, inv=True)
    return s


def aes_selftest():
    F = concrete_funcs()
    pt = bytes_of(0x00112233445566778899aabbccddeeff)
    key = bytes_of(0x000102030405060708090a0b0c0d0e0f)
    ct = join_bytes(aes_encrypt(pt, key, F))
    ok = ct == 0x69c4e0d86a7b0430d8cdb78070b4c55a
    ok = ok and join_bytes(aes_decrypt(bytes_of(ct), key, F)) == 0x00112233445566778899aabbccddeeff
    ok = ok and join_bytes(aes_encrypt(bytes_of(0x6bc1bee22e409f96e93d7e117393172a), bytes_of(0x2b7e151628aed2a6abf7158809cf4f3c), F)) \
        == 0x3ad77bb40d7a3660a89ecaf32466ef97
    return ok


# ------------------------------------------------------------------------------------------
# PRNGs. Values are ints or z3 bit-vectors; helper ops below pick the right primitive.

def _is_int(x):
    return isinstance(x, int)


def bit(x, i):
    if _is_int(x):
        return (x >> i) & 1
    return z3.Extract(i, i, x)


def lfsr_leap(s, width, steps):
    """Fibonacci LFSR with taps 126/125 shifted left `steps` times; state kept to `width` bits (>= 127)"""
    if _is_int(s):
        for _ in range(steps):
            s = ((s << 1) | (((s >> 126) ^ (s >> 125)) & 1)) & ((1 << width) - 1)
        return s
    for _ in range(steps):
        nb = z3.Extract(126, 126, s) ^ z3.Extract(125, 125, s)
        s = z3.Concat(z3.Extract(width - 2, 0, s), nb)
    return s


def lfsr_selftest():
    # the repository's own reference generator (tests/rtllib/test_prngs.py): first 128 output bits, MSB first
    seed = 0x102030405060708090a0b0c0d0e0f01 | 1
    l, v = seed, 0
    for _ in range(128):
        b = (l >> 126 ^ l >> 125) & 1
        l = l << 1 | b
        v = v << 1 | b
    return lfsr_leap(seed, 128, 128) == (l & ((1 << 128) - 1)) and (lfsr_leap(seed, 128, 128) & ((1 << 128) - 1)) == v


M64 = (1 << 64) - 1


def rotl64(x, k):
    if _is_int(x):
        return ((x << k) | (x >> (64 - k))) & M64
    return z3.RotateLeft(x, k)


def xoroshiro_next(s0, s1):
    """(output word, new s0, new s1) of xoroshiro128+ (Blackman/Vigna 2016: a=55, b=14, c=36)"""
    if _is_int(s0):
        out = (s0 + s1) & M64
        t = s1 ^ s0
        return out, (rotl64(s0, 55) ^ t ^ ((t << 14) & M64)), rotl64(t, 36)
    out = s0 + s1
    t = s1 ^ s0
    return out, rotl64(s0, 55) ^ t ^ (t << 14), rotl64(t, 36)


def xoroshiro_selftest():
    # tests/rtllib/test_prngs.py reference generator
    seed = 0x0123456789abcdef_fedcba9876543210
    s = [seed & M64, seed >> 64]
    words = []
    for _ in range(3):
        s0, s1 = s
        words.append((s1 + s0) & M64)
        s1 ^= s0
        s[0] = ((s0 << 55 | s0 >> 9) ^ s1 ^ s1 << 14) & M64
        s[1] = (s1 << 36 | s1 >> 28) & M64
    a, b = seed & M64, seed >> 64
    mine = []
    for _ in range(3):
        w, a, b = xoroshiro_next(a, b)
        mine.append(w)
    return mine == words


def trivium_init(key_bits, iv_bits):
    """288-bit state s[0..287] (s[i] = s_{i+1} of the specification); key_bits[0] = K1, iv_bits[0] = IV1"""
    zero = 0 if _is_int(key_bits[0]) else z3.BitVecVal(0, 1)
    one = 1 if _is_int(key_bits[0]) else z3.BitVecVal(1, 1)
    s = list(key_bits) + [zero] * 13 + list(iv_bits) + [zero] * 4 + [zero] * 108 + [one] * 3
    assert len(s) == 288
    return s


def trivium_step(s):
    """one clock of Trivium: returns (keystream bit z, new state)"""
    t1 = s[65] ^ s[92]
    t2 = s[161] ^ s[176]
    t3 = s[242] ^ s[287]
    z = t1 ^ t2 ^ t3
    t1 = t1 ^ (s[90] & s[91]) ^ s[170]
    t2 = t2 ^ (s[174] & s[175]) ^ s[263]
    t3 = t3 ^ (s[285] & s[286]) ^ s[68]
    return z, [t3] + s[0:92] + [t1] + s[93:176] + [t2] + s[177:287]


def trivium_keystream(key_bits, iv_bits, nbits, warmup=1152):
    s = trivium_init(key_bits, iv_bits)
    for _ in range(warmup):
        _, s = trivium_step(s)
    out = []
    for _ in range(nbits):
        z, s = trivium_step(s)
        out.append(z)
    return out


def trivium_selftest():
    # known-answer vectors of tests/rtllib/test_prngs.py (seed = key:iv, key in the upper 80 bits; K1 = LSB of key)
    vecs = [(0x0100000000000000000000000000000000000000, 0x1cd761ffceb05e39f5b18f5c22042ab0),
            (0xfaa75401ae5b08b5620fc760f9922bc45df68f28, 0xcb5996fcff373a953fc169e899e02f46)]
    for seed, exp in vecs:
        key, iv = seed >> 80, seed & ((1 << 80) - 1)
        kb = [(key >> i) & 1 for i in range(80)]
        ib = [(iv >> i) & 1 for i in range(80)]
        ks = trivium_keystream(kb, ib, 128)
        v = 0
        for b in ks:
            v = (v << 1) | b
        if v != exp:
            return False
    return True
