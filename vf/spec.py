"""ORACLE: the documented LogicNet semantics (Block docstring, core.py) transcribed into z3.

Written from the documentation, deliberately not sharing code with simulation.py:
  * every wire is an unsigned bit-vector of its declared bitwidth
  * & | ^ n ~  bitwise on the (equal-width) arguments;  + - : n+1 bits;  * : 2n bits;
    < > = : one bit, unsigned comparison;  w : a wire;  x : mux, select 0 -> second argument;
    c : concatenation, first argument most significant;  s : dest bit i = source bit op_param[i];
    r : dest takes the argument's value at the clock edge;  m : asynchronous read of the memory as it
    was at the start of the cycle;  @ : synchronous write, visible from the next cycle on
  * the result of every primitive is truncated (or zero-extended) to the destination bitwidth
  * own topological order (Kahn over the non-register, non-write nets); does not call Block.__iter__
"""
import z3
import pyrtl
from pyrtl.memory import RomBlock


def fit(t, w):
    n = t.size()
    if n == w:
        return t
    if n > w:
        return z3.Extract(w - 1, 0, t)
    return z3.ZeroExt(w - n, t)


def b2bv(c):
    return z3.If(c, z3.BitVecVal(1, 1), z3.BitVecVal(0, 1))


def topo(block):
    nets = [n for n in block.logic if n.op not in 'r@']
    produced = {}
    for n in nets:
        for d in n.dests:
            produced[d] = n
    order, state = [], {}

    def visit(n):
        stack = [(n, iter(n.args))]
        state[n] = 1
        while stack:
            cur, it = stack[-1]
            advanced = False
            for a in it:
                p = produced.get(a)
                if p is None:
                    continue
                st = state.get(p, 0)
                if st == 1:
                    raise ValueError('combinational loop')
                if st == 0:
                    state[p] = 1
                    stack.append((p, iter(p.args)))
                    advanced = True
                    break
            if not advanced:
                state[cur] = 2
                order.append(cur)
                stack.pop()
    for n in sorted(nets, key=lambda n: (n.dests[0].name if n.dests else '')):
        if state.get(n, 0) == 0:
            visit(n)
    return order


def rom_table(rom):
    """[value or None] per address, straight from the user's romdata"""
    tab = []
    for a in range(1 << rom.addrwidth):
        try:
            v = rom.data(a) if callable(rom.data) else rom.data[a]
        except (IndexError, KeyError):
            v = 0 if rom.pad_with_zeros else None
        tab.append(v)
    return tab


def rom_read(rom, addr):
    """(value term, fault condition) for a ROM read at a symbolic address"""
    tab = rom_table(rom)
    bw, aw = rom.bitwidth, rom.addrwidth
    val = z3.BitVecVal(0, bw)
    fault = z3.BoolVal(False)
    for a in range(len(tab) - 1, -1, -1):
        hit = addr == z3.BitVecVal(a, aw)
        if tab[a] is None:
            fault = z3.Or(fault, hit)
        else:
            val = z3.If(hit, z3.BitVecVal(tab[a], bw), val)
    return val, fault


def eval_net(net, val, memstate):
    """value of net.dests[0] given argument values (dict wire -> BitVec) ; returns (term, fault or None)"""
    op = net.op
    a = [val[x] for x in net.args]
    d = net.dests[0]
    dw = d.bitwidth
    fault = None
    if op == 'w':
        r = a[0]
    elif op == '~':
        r = ~a[0]
    elif op == '&':
        r = a[0] & a[1]
    elif op == '|':
        r = a[0] | a[1]
    elif op == '^':
        r = a[0] ^ a[1]
    elif op == 'n':
        r = ~(a[0] & a[1])
    elif op == '+':
        n = max(a[0].size(), a[1].size()) + 1
        r = fit(a[0], n) + fit(a[1], n)
    elif op == '-':
        n = max(a[0].size(), a[1].size(), dw) + 1
        r = fit(a[0], n) - fit(a[1], n)
    elif op == '*':
        n = a[0].size() + a[1].size()
        r = fit(a[0], n) * fit(a[1], n)
    elif op == '<':
        r = b2bv(z3.ULT(a[0], a[1]))
    elif op == '>':
        r = b2bv(z3.UGT(a[0], a[1]))
    elif op == '=':
        r = b2bv(a[0] == a[1])
    elif op == 'x':
        r = z3.If(a[0] == 0, a[1], a[2])
    elif op == 'c':
        r = z3.Concat(*a) if len(a) > 1 else a[0]
    elif op == 's':
        bits = [z3.Extract(b, b, a[0]) for b in net.op_param]
        r = z3.Concat(*bits[::-1]) if len(bits) > 1 else bits[0]
    elif op == 'm':
        mem = net.op_param[1]
        addr = fit(a[0], mem.addrwidth)
        if isinstance(mem, RomBlock):
            r, fault = rom_read(mem, addr)
        else:
            r = z3.Select(memstate[mem.name], addr)
    else:
        raise ValueError('spec: unknown op %r' % op)
    return fit(r, dw), fault


class SpecResult(object):
    pass


def run(block, K, vars_, reg_init='sym', mem_init='sym', default_value=0, reg_values=None):
    """K cycles of the documented semantics over the same variables as the real simulators.

    returns SpecResult with .trace {name: [BitVec]}, .mems {name: Array} (after K cycles),
    .faults [Bool] (ROM holes hit), .regs_next {name: BitVec}, .double_write [Bool per cycle]
    """
    order = topo(block)
    regs = sorted(block.wirevector_subset(pyrtl.Register), key=lambda w: w.name)
    inputs = sorted(block.wirevector_subset(pyrtl.Input), key=lambda w: w.name)
    consts = block.wirevector_subset(pyrtl.Const)
    mems = {}
    for net in block.logic_subset('m@'):
        m = net.op_param[1]
        if not isinstance(m, RomBlock):
            mems[m.name] = m
    reg_src = {n.dests[0]: n.args[0] for n in block.logic_subset('r')}
    writes = sorted(block.logic_subset('@'), key=lambda n: tuple(a.name for a in n.args))

    regval = {}
    for r in regs:
        if reg_init == 'sym':
            regval[r] = vars_.reg(r.name, r.bitwidth)
        else:
            v = None
            if isinstance(reg_init, dict) and r.name in reg_init:
                v = reg_init[r.name]
            if v is None:
                v = r.reset_value
            if v is None:
                v = default_value
            regval[r] = v if z3.is_bv(v) else z3.BitVecVal(v, r.bitwidth)
    memstate = {}
    for name, m in mems.items():
        if mem_init == 'sym':
            memstate[name] = vars_.mem(name, m.addrwidth, m.bitwidth)
        elif isinstance(mem_init, dict) and name in mem_init:
            v = mem_init[name]
            memstate[name] = v.arr if hasattr(v, 'arr') else v
        else:
            memstate[name] = z3.K(z3.BitVecSort(m.addrwidth), z3.BitVecVal(default_value, m.bitwidth))

    res = SpecResult()
    res.trace = {w.name: [] for w in block.wirevector_set}
    res.faults = []
    res.double_write = []
    for t in range(K):
        val = {}
        for w in inputs:
            val[w] = vars_.inp(w.name, t, w.bitwidth)
        for c in consts:
            val[c] = z3.BitVecVal(c.val, c.bitwidth)
        for r in regs:
            val[r] = regval[r]
        for net in order:
            v, fault = eval_net(net, val, memstate)
            val[net.dests[0]] = v
            if fault is not None:
                res.faults.append(fault)
        for w in block.wirevector_set:
            if w in val:
                res.trace[w.name].append(val[w])
        # clock edge: memory writes, then registers
        newmem = dict(memstate)
        seen = {}
        for net in writes:
            m = net.op_param[1]
            addr, data, en = (val[x] for x in net.args)
            addr = fit(addr, m.addrwidth)
            enb = en != 0
            for (oa, oe) in seen.get(m.name, []):
                res.double_write.append(z3.And(enb, oe, oa == addr))
            seen.setdefault(m.name, []).append((addr, enb))
            newmem[m.name] = z3.If(enb, z3.Store(newmem[m.name], addr, fit(data, m.bitwidth)), newmem[m.name])
        memstate = newmem
        regval = {r: fit(val[reg_src[r]], r.bitwidth) for r in regs if r in reg_src}
        for r in regs:
            regval.setdefault(r, val[r])
    res.mems = memstate
    res.regs_next = {r.name: regval[r] for r in regs}
    return res
