"""Check runner: cases -> worker pool -> obligations -> replay -> known findings -> evidence -> exit code."""
import os
import sys
import json
import time
import glob
import hashlib
import fnmatch
import traceback
import subprocess
import multiprocessing
import z3

VERIF = os.path.dirname(os.path.dirname(os.path.abspath(__file__)))
REPO = os.environ.get('VERIF_REPO', '/repo')
OUT = os.environ.get('VERIF_OUT', VERIF)   # where evidence/ and replays/ go (scratch runs against seeded trees)


class Obligations(object):
    """per-case accumulator used inside a worker"""

    def __init__(self, prop, case, timeout_ms):
        self.prop, self.case, self.timeout_ms = prop, case, timeout_ms
        self.n = 0
        self.unsat = 0
        self.sat = []
        self.unknown = []
        self.vacuity_checked = 0
        self.vacuity_failed = []
        self.solver_s = 0.0
        self.sample = None
        self.notes = []
        self.structural = 0
        self.paths = 0
        self.witness = None
        self.second_solver = {'checked': 0, 'agree': 0, 'disagree': []}
        self.xcheck_budget = 0      # number of decided queries of this case to re-decide with cvc5 (set by the runner)

    def _check(self, solver):
        t0 = time.time()
        r = solver.check()
        self.solver_s += time.time() - t0
        return r

    def prove(self, name, goal, assumptions=(), vars_=None, site=None, expected=None, extract=None,
              vacuity=False, lemmas=()):
        """decide `assumptions => goal` for all values. sat -> counterexample dict (model) recorded.

        vars_: simdrv.Vars used to read back the model; extract(model) -> extra dict for the replay file.
        returns 'unsat' | 'sat' | 'unknown'
        """
        self.n += 1
        if z3.is_true(goal):
            self.unsat += 1
            if self.sample is None:
                self.sample = {'obligation': name, 'result': 'unsat (closed syntactically)'}
            return 'unsat'
        s = z3.Solver()
        s.set('timeout', self.timeout_ms)
        for a in assumptions:
            s.add(a)
        if vacuity:
            self.vacuity_checked += 1
            r0 = self._check(s)
            if r0 == z3.unsat:
                self.vacuity_failed.append(name)
            elif r0 == z3.sat and self.witness is None and vars_ is not None:
                try:
                    self.witness = vars_.model_values(s.model())
                except Exception:
                    pass
        s.add(z3.Not(goal))
        r = self._check(s)
        if r == z3.unknown and getattr(self, 'fallback', False):
            # second attempt (opt-in per harness): normalise extract/concat/ite noise, then bit-blast + SAT
            try:
                t0 = time.time()
                g2 = z3.Goal()
                for a in s.assertions():
                    g2.add(a)
                tac = z3.TryFor(z3.Then('simplify', 'propagate-values', 'solve-eqs', 'simplify', 'bit-blast', 'sat'), self.timeout_ms)
                res = tac(g2)
                self.solver_s += time.time() - t0
                if len(res) == 1 and res[0].inconsistent():
                    r = z3.unsat
            except Exception:
                pass
        if self.sample is None or (r == z3.unsat and 'syntactically' in self.sample.get('result', '')):
            try:
                digest = hashlib.sha1(s.to_smt2().encode()).hexdigest()[:16]
            except Exception:
                digest = None
            self.sample = {'obligation': name, 'result': str(r), 'smt2_sha1': digest,
                           'assertions': len(s.assertions())}
        if self.xcheck_budget > 0 and r in (z3.sat, z3.unsat) and len(s.assertions()) > 0:
            self.xcheck_budget -= 1
            self._second_solver(s, str(r), name)
        if r == z3.sat and lemmas:
            # `lemmas` (e.g. ROM table facts for uninterpreted functions) are only needed to rule out spurious models:
            # an unsat without them is already a proof; a sat is re-decided with them
            for a in lemmas:
                s.add(a)
            r = self._check(s)
        if r == z3.unsat:
            self.unsat += 1
            return 'unsat'
        if r == z3.unknown:
            self.unknown.append(name)
            return 'unknown'
        m = s.model()
        cex = {'property': self.prop, 'obligation': name, 'site': site or name, 'case': self.case}
        if vars_ is not None:
            cex['model'] = vars_.model_values(m)
        if extract is not None:
            cex.update(extract(m))
        if expected is not None:
            cex['expected_term'] = str(m.eval(expected, model_completion=True))
        self.sat.append(cex)
        return 'sat'

    def prove_all(self, goals, assumptions, v, vacuity=True, lemmas=()):
        """discharge a batch [(name, goal, site)]: one conjunction first, individual queries only to localise"""
        if not goals:
            return
        conj = z3.And(*[g for _, g, _ in goals])
        n0 = self.n
        r = self.prove('batch(%d):%s..' % (len(goals), goals[0][0]), conj, assumptions, v, site=goals[0][2],
                       vacuity=vacuity, lemmas=lemmas)
        if r == 'unsat':
            self.n += len(goals) - 1
            self.unsat += len(goals) - 1
            return
        if r == 'sat':
            self.sat.pop()
        else:
            self.unknown.pop()
        self.n = n0
        for name, g, site in goals:
            self.prove(name, g, assumptions, v, site=site, lemmas=lemmas)

    def prove_chain(self, goals, assumptions, v):
        """discharge [(name, goal, site)] in the given (dependency) order on one incremental solver; every goal that was
        proved becomes an assumption for the later ones (sound: it holds under the same assumptions), which keeps each
        query local to one net / one cycle"""
        if not goals:
            return
        s = z3.Solver()
        s.set('timeout', self.timeout_ms)
        for a in assumptions:
            s.add(a)
        for name, g, site in goals:
            self.n += 1
            if z3.is_true(g):
                self.unsat += 1
                continue
            s.push()
            s.add(z3.Not(g))
            t0 = time.time()
            r = s.check()
            self.solver_s += time.time() - t0
            if self.xcheck_budget > 0 and r in (z3.sat, z3.unsat):
                self.xcheck_budget -= 1
                self._second_solver(s, str(r), name)
            if r == z3.unsat:
                s.pop()
                self.unsat += 1
                s.add(g)
                if self.sample is None:
                    self.sample = {'obligation': name, 'result': 'unsat', 'chain': True}
                continue
            if r == z3.unknown:
                s.pop()
                self.unknown.append(name)
                continue
            m = s.model()
            cex = {'property': self.prop, 'obligation': name, 'site': site or name, 'case': self.case}
            if v is not None:
                cex['model'] = v.model_values(m)
            self.sat.append(cex)
            s.pop()

    def fact(self, name, ok, site=None, detail=None):
        """a concrete (structural) predicate on the real code's result; False is a violation candidate"""
        self.n += 1
        self.structural += 1
        if ok:
            self.unsat += 1
            return True
        self.sat.append({'property': self.prop, 'obligation': name, 'site': site or name, 'case': self.case,
                         'structural': True, 'detail': detail})
        return False

    def cross_check(self, goal, assumptions=()):
        """second solver (cvc5) on one query shape; disagreement is a harness error"""
        s = z3.Solver()
        for a in assumptions:
            s.add(a)
        s.add(z3.Not(goal))
        s.set('timeout', 20000)
        self._second_solver(s, str(s.check()), 'cross_check')

    def _second_solver(self, s, r1, name):
        """re-decide the query held by z3 solver `s` (already answered r1) with cvc5 through its SMT-LIB2 text"""
        try:
            import cvc5
        except Exception:
            return
        t0 = time.time()
        try:
            smt = s.to_smt2()
            if len(smt) > 400000:
                return
            tm = cvc5.TermManager() if hasattr(cvc5, 'TermManager') else None
            slv = cvc5.Solver(tm) if tm is not None else cvc5.Solver()
            slv.setOption('tlimit-per', '10000')
            slv.setLogic('ALL')
            parser = cvc5.InputParser(slv)
            parser.setStringInput(cvc5.InputLanguage.SMT_LIB_2_6, smt, 'q')
            sm = parser.getSymbolManager()
            r2 = None
            while True:
                cmd = parser.nextCommand()
                if cmd.isNull():
                    break
                out = cmd.invoke(slv, sm)
                if str(out).strip() in ('sat', 'unsat', 'unknown'):
                    r2 = str(out).strip()
        except Exception as e:
            self.notes.append('cvc5 cross-check not possible: %s' % (str(e)[:120],))
            return
        finally:
            self.second_solver['seconds'] = self.second_solver.get('seconds', 0.0) + time.time() - t0
        self.second_solver['checked'] += 1
        if r2 in ('sat', 'unsat') and r1 in ('sat', 'unsat'):
            if r1 == r2:
                self.second_solver['agree'] += 1
            else:
                self.second_solver['disagree'].append({'obligation': name, 'z3': r1, 'cvc5': r2})

    def result(self):
        return {'case': self.case, 'n': self.n, 'unsat': self.unsat, 'sat': self.sat, 'unknown': self.unknown,
                'vacuity_checked': self.vacuity_checked, 'vacuity_failed': self.vacuity_failed,
                'solver_s': self.solver_s, 'sample': self.sample, 'notes': self.notes,
                'structural': self.structural, 'paths': self.paths, 'witness': self.witness,
                'second_solver': self.second_solver}


# ------------------------------------------------------------------------------------------

_MOD = None
_TIER = None
_FUNCS = None


def _worker_init(modname, tier):
    global _MOD, _TIER
    import importlib
    _MOD = importlib.import_module(modname)
    _TIER = tier


def _profile_funcs(fn, *a):
    """run fn(*a) recording which functions of /repo's pyrtl package executed (evidence: functions encoded)"""
    seen = set()
    root = os.path.join(REPO, 'pyrtl')

    def prof(frame, event, arg):
        if event == 'call':
            co = frame.f_code
            f = co.co_filename
            if f.startswith(root):
                seen.add('%s:%s' % (os.path.relpath(f, REPO), co.co_qualname if hasattr(co, 'co_qualname') else co.co_name))
    sys.setprofile(prof)
    try:
        r = fn(*a)
    finally:
        sys.setprofile(None)
    return r, seen


class _CaseTimeout(Exception):
    pass


def _case_alarm(*a):
    raise _CaseTimeout()


def _worker(arg):
    idx, case, profile = arg
    t0 = time.time()
    import signal
    limit = int(os.environ.get('VERIF_CASE_TIMEOUT_S', '3600' if _TIER == 'quick' else '14400'))
    try:
        signal.signal(signal.SIGALRM, _case_alarm)
        signal.alarm(limit)
    except Exception:
        pass
    try:
        return _worker_body(idx, case, profile, t0)
    except _CaseTimeout:
        return {'case': case, 'error': 'case did not finish within %d s (the code under test or the harness does not terminate)' % limit,
                'tb': '', 'wall_s': time.time() - t0}
    finally:
        try:
            signal.alarm(0)
        except Exception:
            pass


def _worker_body(idx, case, profile, t0):
    try:
        import pyrtl
        pyrtl.reset_working_block()
        dflt = getattr(_MOD, 'TIMEOUT_MS', {}).get(_TIER, 20000 if _TIER == 'quick' else 120000)
        timeout = int(os.environ.get('VERIF_QUERY_TIMEOUT_MS', str(dflt)))
        ob = Obligations(_MOD.PROP, case, timeout)
        # second solver: thorough re-decides the first two solver queries of every case with cvc5, quick those of
        # every 8th case (VERIF_XCHECK overrides: queries per case)
        xc = os.environ.get('VERIF_XCHECK')
        if xc is not None:
            ob.xcheck_budget = int(xc)
        elif _TIER == 'thorough':
            ob.xcheck_budget = 2
        elif idx % 8 == 0:
            ob.xcheck_budget = 1
        from . import sym
        for k in sym.STATS:
            sym.STATS[k] = 0
        if profile:
            _, funcs = _profile_funcs(_MOD.run_case, case, ob, _TIER)
        else:
            _MOD.run_case(case, ob, _TIER)
            funcs = set()
        r = ob.result()
        r['funcs'] = sorted(funcs)
        r['wall_s'] = time.time() - t0
        r['engine'] = dict(sym.STATS)
        r['solver_s'] += sym.STATS.get('solver_s', 0.0)   # feasibility checks of the path explorer
        r['error'] = None
        return r
    except Exception as e:
        return {'case': case, 'error': '%s: %s' % (type(e).__name__, e), 'tb': traceback.format_exc(),
                'wall_s': time.time() - t0}


def _selfcheck(maxw):
    from . import sym
    n, bad = sym.selfcheck(maxw=maxw)
    return n, [str(b) for b in bad[:10]]


def load_known():
    p = os.path.join(VERIF, 'known_findings.json')
    if not os.path.exists(p):
        return {'open': [], 'fixed': []}
    return json.load(open(p))


def match_known(known, cex):
    for e in known.get('open', []):
        if e['property'] != cex['property']:
            continue
        if fnmatch.fnmatchcase(cex.get('site', ''), e['site']):
            return e
    return None


def write_replay(prop, cex):
    d = os.path.join(OUT, 'replays', prop)
    os.makedirs(d, exist_ok=True)
    blob = json.dumps(cex, sort_keys=True, default=str)
    path = os.path.join(d, hashlib.sha1(blob.encode()).hexdigest()[:12] + '.json')
    with open(path, 'w') as f:
        json.dump(cex, f, indent=1, sort_keys=True, default=str)
    return path


def run_replay(path, timeout=600):
    """replay in a fresh subprocess on the unmodified code, without the proxy engine. returns (status, text)
    status: 'reproduced' | 'not_reproduced' | 'error'"""
    env = dict(os.environ)
    env['PYTHONPATH'] = REPO + os.pathsep + VERIF
    env['PYTHONDONTWRITEBYTECODE'] = '1'
    try:
        p = subprocess.run([sys.executable, '-m', 'vf.replay', path], cwd=VERIF, env=env, capture_output=True,
                           text=True, timeout=timeout)
    except subprocess.TimeoutExpired:
        return 'error', 'replay timed out'
    out = p.stdout + p.stderr
    if p.returncode == 0 and 'REPRODUCED' in p.stdout and 'NOT-REPRODUCED' not in p.stdout:
        return 'reproduced', out
    if p.returncode == 3:
        return 'not_reproduced', out
    return 'error', out


def main(mod, tier, seed):
    t_start = time.time()
    prop = mod.PROP
    # scratch files of the code under test (CompiledSimulation builds its C in a mkdtemp directory that worker processes never
    # get to delete) go to a private directory that is removed when the run ends
    import atexit
    import shutil
    import tempfile
    scratch = tempfile.mkdtemp(prefix='vf_%s_' % prop)
    tempfile.tempdir = scratch
    os.environ['TMPDIR'] = scratch
    atexit.register(shutil.rmtree, scratch, True)
    cases = mod.cases(tier, seed)
    flt = os.environ.get('VERIF_CASE_FILTER')
    if flt:   # development aid only
        cases = [c for c in cases if flt in json.dumps(c, sort_keys=True, default=str)]
    nproc = int(os.environ.get('VERIF_JOBS', str(min(16, os.cpu_count() or 4))))
    results = []
    args = [(i, c, i == 0 or (i % 97 == 0)) for i, c in enumerate(cases)]
    budget = float(os.environ.get('VERIF_BUDGET_S', '0') or 0)
    ctx = multiprocessing.get_context('fork')
    with ctx.Pool(nproc, initializer=_worker_init, initargs=(mod.__name__, tier), maxtasksperchild=50) as pool:
        # engine self check (SymInt never wraps: value(f(x, y)) == f(value(x), value(y)) for every operator, asked of
        # z3 over mathematical integers / exhaustively for the small widths) runs alongside the cases
        selfc = pool.apply_async(_selfcheck, (3 if tier == 'quick' else 4,))
        for r in pool.imap_unordered(_worker, args, chunksize=1):
            results.append(r)
        try:
            self_n, self_bad = selfc.get(timeout=600)
        except Exception as e:
            self_n, self_bad = 0, ['selfcheck failed to run: %r' % (e,)]
    wall = time.time() - t_start

    errors = [r for r in results if r.get('error')]
    good = [r for r in results if not r.get('error')]
    known = load_known()
    n_obl = sum(r['n'] for r in good)
    n_unsat = sum(r['unsat'] for r in good)
    unknown = [(r['case'], u) for r in good for u in r['unknown']]
    vac_failed = [(r['case'], u) for r in good for u in r['vacuity_failed']]
    cexs = [c for r in good for c in r['sat']]
    funcs = sorted(set(f for r in good for f in r.get('funcs', [])))
    violations, known_hits, not_repro = [], {}, []
    replayed = 0
    # replay: group by site so that a defect with many witnesses is replayed a bounded number of times
    by_site = {}
    for c in cexs:
        by_site.setdefault(c.get('site'), []).append(c)
    for site, group in sorted(by_site.items(), key=lambda kv: str(kv[0])):
        for c in group[:3]:
            path = write_replay(prop, c)
            status, text = run_replay(path)
            replayed += 1
            c['replay'] = status
            if status == 'reproduced':
                e = match_known(known, c)
                if e is not None:
                    known_hits.setdefault(e['site'], [e, 0])[1] += 1
                    try:
                        os.remove(path)
                    except OSError:
                        pass
                else:
                    violations.append((c, path))
            else:
                not_repro.append((c, path, status, text[-2000:]))
    for site, (e, cnt) in sorted(known_hits.items()):
        print('KNOWN-FINDING: property=%s %s [site %s, %d witness(es) replayed]' % (prop, e['what'], site, cnt))
    for c, path in violations:
        print('VIOLATION property=%s replay=%s' % (prop, path))
        print('  obligation: %s site: %s' % (c.get('obligation'), c.get('site')))
    for (case, u) in unknown[:20]:
        print('INCONCLUSIVE %s %s' % (json.dumps(case, default=str)[:200], u))
    for c, path, status, text in not_repro[:10]:
        print('HARNESS-ERROR counterexample did not reproduce (%s): %s\n%s' % (status, path, text))
    for r in errors[:10]:
        print('HARNESS-ERROR case %s: %s\n%s' % (json.dumps(r['case'], default=str)[:300], r['error'], r.get('tb', '')))
    disagree = [(r['case'], d) for r in good for d in r['second_solver']['disagree']]
    for (case, d) in disagree[:10]:
        print('HARNESS-ERROR solvers disagree on %s in %s' % (json.dumps(d), json.dumps(case, default=str)[:200]))
    for b in self_bad:
        print('HARNESS-ERROR engine self check (SymInt vs Python int): %s' % (b,))
    for (case, u) in vac_failed[:10]:
        print('HARNESS-ERROR vacuous obligation %s in %s' % (u, json.dumps(case, default=str)[:200]))

    samples = [r['sample'] and dict(r['sample'], case=r['case']) for r in good if r.get('sample')][:5]
    witness = next((r['witness'] for r in good if r.get('witness')), None)
    level = mod.LEVEL
    nontrivial = len(set(json.dumps(r['case'], sort_keys=True, default=str) for r in good if r['n'] > r['structural']))
    cov = {
        'evaluations': len(cases),
        'distinct_nontrivial': nontrivial,
        'rule': getattr(mod, 'RULE', 'one evaluation = one design/program of the bounded family (program dimension, '
                                     'enumerated); a case is non-trivial when at least one solver obligation over '
                                     'symbolic values was generated for it; the value dimension is decided by the '
                                     'solver, never sampled'),
        'samples': samples or [{'note': 'no sample recorded'}],
        'obligations': n_obl,
        'discharged': n_unsat,
        'sat_models': len(cexs),
        'inconclusive': len(unknown),
        'inconclusive_list': [u for _, u in unknown][:50],
        'replayed': replayed,
        'reproduced_known': sum(v[1] for v in known_hits.values()),
        'violations': len(violations),
        'paths_explored': sum(r.get('engine', {}).get('paths', 0) for r in good),
        'solver_wall_s': round(sum(r['solver_s'] for r in good), 3),
        'engine_stats': {k: round(sum(r.get('engine', {}).get(k, 0) for r in good), 3)
                         for k in ('forks', 'solver_checks', 'interval_decided', 'merged_calls', 'unpruned')},
        'vacuity_twins_checked': sum(r['vacuity_checked'] for r in good),
        'vacuity_witness': witness,
        'second_solver': {'solver': 'cvc5 (python wheel) on the SMT-LIB2 text of the z3 query',
                          'checked': sum(r['second_solver']['checked'] for r in good),
                          'agree': sum(r['second_solver']['agree'] for r in good),
                          'undecided_by_cvc5': sum(r['second_solver']['checked'] - r['second_solver']['agree']
                                                   - len(r['second_solver']['disagree']) for r in good),
                          'disagree': [d for r in good for d in r['second_solver']['disagree']][:20],
                          'seconds': round(sum(r['second_solver'].get('seconds', 0.0) for r in good), 2)},
        'engine_selfcheck': {'what': 'SymInt/SymBool operators agree with Python int for every operand value '
                                     '(z3 over Int for + - *, exhaustive at widths <= %d for the rest)' % (3 if tier == 'quick' else 4),
                             'checks': self_n, 'failures': self_bad},
        'functions_encoded': funcs,
        'bounds': mod.bounds(tier) if hasattr(mod, 'bounds') else {},
        'known_findings_hit': sorted(known_hits.keys()),
        'repo': REPO,
        'exhaustive': False,
    }
    if level == 'model_checking':
        cov['states'] = max(1, sum(r.get('engine', {}).get('paths', 0) for r in good))
        cov['transitions'] = max(1, n_obl)
        cov['traces_validated_against_impl'] = replayed
    if level == 'translation_validation':
        cov['programs'] = max(1, len(good))
        cov['disagreements_checked'] = replayed
    slow = sorted(good, key=lambda r: -r.get('wall_s', 0))[:5]
    cov['slowest_cases'] = [{'case': r['case'], 'wall_s': round(r['wall_s'], 1)} for r in slow]
    notes = sorted(set(n for r in good for n in r.get('notes', [])))
    if notes:
        cov['notes'] = notes[:40]
    ev = {'property_id': prop, 'tier': tier, 'seed': seed, 'level': level, 'coverage': cov,
          'assumptions': list(getattr(mod, 'ASSUMPTIONS', [])), 'wall_s': round(wall, 2),
          'violations': len(violations)}
    os.makedirs(os.path.join(OUT, 'evidence'), exist_ok=True)
    with open(os.path.join(OUT, 'evidence', prop + '.json'), 'w') as f:
        json.dump(ev, f, indent=1, default=str)
    print('%s %s: cases=%d obligations=%d unsat=%d sat=%d (known=%d) unknown=%d errors=%d wall=%.1fs solver=%.1fs'
          % (prop, tier, len(cases), n_obl, n_unsat, len(cexs), sum(v[1] for v in known_hits.values()),
             len(unknown), len(errors), wall, cov['solver_wall_s']))
    if violations:
        return 1
    if errors or not_repro or vac_failed or disagree or self_bad or not good:
        return 2
    return 0
