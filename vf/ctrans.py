"""ENGINE T1: the C text emitted by CompiledSimulation._create_code  ->  z3 (DESIGN 2.4).

A statement recogniser plus a precedence-climbing expression parser over BV64 with C semantics (unsigned wrap,
comparisons and && || yield 0/1, shift amounts >= 64 flagged as undefined behaviour). Anything the recogniser does
not know raises CTransError (a harness error: it can not be skipped). `static` register arrays and hash-map memories
carry state between steps. Hash maps are modelled as total maps (z3 arrays, default 0): the fixed C helper text
(create_hash_map/insert/lookup) is NOT given a meaning here (see vf/chelper.py for its own bounded check)."""
import re
import z3

B64 = z3.BitVecSort(64)


class CTransError(Exception):
    pass


def bv(v):
    return z3.BitVecVal(v & ((1 << 64) - 1), 64)


ONE, ZERO = bv(1), bv(0)


def b2v(c):
    return z3.If(c, ONE, ZERO)


TOK = re.compile(r'\s*(0[xX][0-9a-fA-F]+|\d+|[A-Za-z_]\w*|<<|>>|<=|>=|==|!=|&&|\|\||[-+*/%&|^~!<>=()\[\],;{}])')


def tokenize(s):
    out, i = [], 0
    s = s.strip()
    while i < len(s):
        m = TOK.match(s, i)
        if not m:
            raise CTransError('cannot tokenize %r' % s[i:i + 30])
        out.append(m.group(1))
        i = m.end()
    return out


BINOPS = [['||'], ['&&'], ['|'], ['^'], ['&'], ['==', '!='], ['<', '>', '<=', '>='], ['<<', '>>'], ['+', '-'], ['*']]


class Model(object):
    """meaning of one generated pyrtlsim.c"""

    def __init__(self, text):
        self.text = text
        self.roms = {}       # name -> (limbs, [[limb values]])
        self.mems = {}       # name -> limbs
        self.mem_init = {}   # name -> {key: [limbs]}
        self.static_init = {}  # name -> [limb values]
        self.const_init = {}
        self.body = []       # statements of sim_run_step (strings)
        self.ub = []         # undefined-behaviour flags (z3 Bools) collected during evaluation
        self.fresh = 0
        self._parse_top()

    # ---------------------------------------------------------------- top level
    def _parse_top(self):
        lines = self.text.split('\n')
        i = 0
        n = len(lines)
        in_step = False
        while i < n:
            ln = lines[i].strip()
            i += 1
            if not ln or ln.startswith('//') or ln.startswith('#'):
                if not in_step:
                    continue
            m = re.match(r'static const uint(\d+)_t (\w+)\[\]\[(\d+)\] = \{', ln)
            if m and not in_step:
                name, limbs = m.group(2), int(m.group(3))
                rows = []
                while i < n and lines[i].strip() != '};':
                    row = lines[i].strip().rstrip(',')
                    rows.append([int(x, 16) for x in row.strip('{}').split(',') if x])
                    i += 1
                i += 1
                self.roms[name] = (limbs, rows)
                continue
            m = re.match(r'hashmap_t \*(\w+);', ln)
            if m and not in_step:
                self.mems[m.group(1)] = None
                continue
            if ln.startswith('void initialize_mems()') and not in_step:
                tmps = {}
                while i < n and lines[i].strip() != '}':
                    s = lines[i].strip()
                    i += 1
                    m = re.match(r'(\w+) = create_hash_map\((\d+), (\d+)\);', s)
                    if m:
                        self.mems[m.group(1)] = int(m.group(3))
                        self.mem_init.setdefault(m.group(1), {})
                        continue
                    m = re.match(r'val_t (\w+)\[\] = \{(.*)\};', s)
                    if m:
                        tmps[m.group(1)] = [int(x, 16) for x in m.group(2).split(',')]
                        continue
                    # a sized scratch array (C zero-fills what the initialiser list leaves out) and stores into its elements:
                    # the function is straight-line code, so the arrays are interpreted statement by statement
                    m = re.match(r'val_t (\w+)\[(\d+)\] = \{(.*)\};', s)
                    if m:
                        given = [int(x, 0) for x in m.group(3).split(',') if x.strip()]
                        tmps[m.group(1)] = (given + [0] * int(m.group(2)))[:int(m.group(2))]
                        continue
                    m = re.match(r'(\w+)\[(\d+)\] = (0x[0-9a-fA-F]+|\d+)(?:ULL|UL|U)?;', s)
                    if m and m.group(1) in tmps:
                        if int(m.group(2)) >= len(tmps[m.group(1)]):
                            raise CTransError('store outside the array in initialize_mems: %r' % s)
                        tmps[m.group(1)][int(m.group(2))] = int(m.group(3), 0)
                        continue
                    m = re.match(r'insert\((\w+), (-?\d+), (\w+)\);', s)
                    if m:
                        # insert() copies val_limbs limbs of the buffer it is given
                        self.mem_init[m.group(1)][int(m.group(2))] = list(tmps[m.group(3)])
                        continue
                    if s:
                        raise CTransError('unknown statement in initialize_mems: %r' % s)
                i += 1
                continue
            if ln.startswith('static void sim_run_step('):
                in_step = True
                depth = 1
                while i < n:
                    s = lines[i].strip()
                    i += 1
                    if s.startswith('//') or not s:
                        continue
                    depth += s.count('{') - s.count('}')
                    if depth == 0:
                        break
                    self.body.append(s)
                in_step = False
                continue
            # everything else at top level is the fixed helper / entry-point text
        if not self.body:
            raise CTransError('sim_run_step not found')

    # ---------------------------------------------------------------- expressions
    def parse_expr(self, toks, pos, env, level=0):
        if level == len(BINOPS):
            return self.parse_unary(toks, pos, env)
        lhs, pos = self.parse_expr(toks, pos, env, level + 1)
        while pos < len(toks) and toks[pos] in BINOPS[level]:
            op = toks[pos]
            rhs, pos = self.parse_expr(toks, pos + 1, env, level + 1)
            lhs = self.binop(op, lhs, rhs)
        return lhs, pos

    def binop(self, op, a, b):
        if op == '+':
            return a + b
        if op == '-':
            return a - b
        if op == '*':
            return a * b
        if op == '&':
            return a & b
        if op == '|':
            return a | b
        if op == '^':
            return a ^ b
        if op in ('<<', '>>'):
            if z3.is_bv_value(b):
                k = b.as_long()
                if k >= 64:
                    self.ub.append(z3.BoolVal(True))
                    return ZERO
                return (a << k) if op == '<<' else z3.LShR(a, k)
            self.ub.append(z3.UGE(b, bv(64)))
            return (a << b) if op == '<<' else z3.LShR(a, b)
        if op == '==':
            return b2v(a == b)
        if op == '!=':
            return b2v(a != b)
        if op == '<':
            return b2v(z3.ULT(a, b))
        if op == '>':
            return b2v(z3.UGT(a, b))
        if op == '<=':
            return b2v(z3.ULE(a, b))
        if op == '>=':
            return b2v(z3.UGE(a, b))
        if op == '&&':
            return b2v(z3.And(a != 0, b != 0))
        if op == '||':
            return b2v(z3.Or(a != 0, b != 0))
        raise CTransError('operator %r' % op)

    def parse_unary(self, toks, pos, env):
        t = toks[pos]
        if t == '~':
            v, pos = self.parse_unary(toks, pos + 1, env)
            return ~v, pos
        if t == '-':
            v, pos = self.parse_unary(toks, pos + 1, env)
            return -v, pos
        if t == '!':
            v, pos = self.parse_unary(toks, pos + 1, env)
            return b2v(v == 0), pos
        return self.parse_postfix(toks, pos, env)

    def parse_postfix(self, toks, pos, env):
        t = toks[pos]
        if t == '(':
            v, pos = self.parse_expr(toks, pos + 1, env)
            if toks[pos] != ')':
                raise CTransError('expected )')
            return v, pos + 1
        if re.match(r'0[xX]', t):
            return bv(int(t, 16)), pos + 1
        if t.isdigit():
            return bv(int(t)), pos + 1
        if not re.match(r'[A-Za-z_]', t):
            raise CTransError('unexpected token %r' % t)
        name = t
        pos += 1
        if name == 'lookup':
            if toks[pos] != '(':
                raise CTransError('lookup(')
            mem = toks[pos + 1]
            if toks[pos + 2] != ',':
                raise CTransError('lookup,')
            addr, pos = self.parse_expr(toks, pos + 3, env)
            if toks[pos] != ')' or toks[pos + 1] != '[':
                raise CTransError('lookup)[')
            idx, pos = self.parse_expr(toks, pos + 2, env)
            if toks[pos] != ']':
                raise CTransError('lookup]')
            limb = self.const_index(idx)
            limbs = self.mems[mem]
            word = z3.Select(env['@mem'][mem], addr)
            return z3.Extract(64 * limb + 63, 64 * limb, word) if limbs > 1 else word, pos + 1
        # variable, possibly indexed (twice for ROM tables)
        idxs = []
        while pos < len(toks) and toks[pos] == '[':
            v, pos = self.parse_expr(toks, pos + 1, env)
            if toks[pos] != ']':
                raise CTransError('expected ]')
            idxs.append(v)
            pos += 1
        return self.read(name, idxs, env), pos

    def const_index(self, idx):
        s = z3.simplify(idx)
        if not z3.is_bv_value(s):
            raise CTransError('non-constant array index')
        return s.as_long()

    def read(self, name, idxs, env):
        if name in self.roms:
            limbs, rows = self.roms[name]
            if len(idxs) != 2:
                raise CTransError('rom access needs two indices')
            limb = self.const_index(idxs[1])
            addr = idxs[0]
            # out-of-range reads of a C array are undefined behaviour
            self.ub.append(z3.UGE(addr, bv(len(rows))))
            acc = ZERO
            for a in range(len(rows) - 1, -1, -1):
                acc = z3.If(addr == bv(a), bv(rows[a][limb]), acc)
            return acc
        if name not in env:
            raise CTransError('read of undeclared variable %r' % name)
        v = env[name]
        if isinstance(v, list):
            if len(idxs) != 1:
                raise CTransError('array %r used without index' % name)
            k = self.const_index(idxs[0])
            if k >= len(v):
                raise CTransError('index %d out of bounds for %s[%d]' % (k, name, len(v)))
            return v[k]
        if idxs:
            raise CTransError('scalar %r indexed' % name)
        return v

    def fresh_var(self, hint):
        self.fresh += 1
        return z3.BitVec('c_uninit_%s_%d' % (hint, self.fresh), 64)

    # ---------------------------------------------------------------- statements
    def exec_simple(self, s, env):
        """one `;`-free statement"""
        s = s.strip()
        if not s:
            return
        m = re.match(r'(static |const )?uint64_t (.+)$', s)
        if m:
            qual, rest = m.group(1), m.group(2)
            am = re.match(r'(\w+)\[(\d+)\](?: = \{(.*)\})?$', rest)
            if am:
                name, n, init = am.group(1), int(am.group(2)), am.group(3)
                if qual == 'static ':
                    if name not in env['@static']:
                        env['@static'][name] = [bv(int(x, 16)) for x in init.split(',')]
                    env[name] = env['@static'][name]
                    env['@static_names'].add(name)
                elif init is not None:
                    env[name] = [bv(int(x, 16)) for x in init.split(',')]
                else:
                    env[name] = [self.fresh_var(name) for _ in range(n)]
                return
            for nm in rest.split(','):
                env[nm.strip()] = self.fresh_var(nm.strip())
            return
        m = re.match(r'mul128\((.+)\)$', s)
        if m:
            toks = tokenize(m.group(1))
            a, pos = self.parse_expr(toks, 0, env)
            b, pos = self.parse_expr(toks, pos + 1, env)
            lo, hi = toks[pos + 1], toks[pos + 3]
            from . import sym as _sym
            if _sym.MUL['uf']:
                p = _sym.mul64(a, b)       # shared uninterpreted 64x64->128 product (DESIGN C02, wide arithmetic)
            else:
                p = z3.ZeroExt(64, a) * z3.ZeroExt(64, b)
            env[lo] = z3.Extract(63, 0, p)
            env[hi] = z3.Extract(127, 64, p)
            return
        m = re.match(r'insert\((\w+), (.+), (\w+)\)$', s)
        if m:
            mem, addr_s, vn = m.groups()
            addr, _ = self.parse_expr(tokenize(addr_s), 0, env)
            limbs = self.mems[mem]
            val = env[vn]
            word = z3.Concat(*val[::-1][-limbs:]) if limbs > 1 else val[0]
            if isinstance(val, list) and len(val) < limbs:
                raise CTransError('insert from an array with fewer limbs than the memory')
            env['@mem'] = dict(env['@mem'])
            env['@mem'][mem] = z3.Store(env['@mem'][mem], addr, word)
            return
        toks = tokenize(s)
        # assignment:  lvalue (=|+=|-=) expr
        depth, i = 0, None
        for j, t in enumerate(toks):
            if t == '[':
                depth += 1
            elif t == ']':
                depth -= 1
            elif depth == 0 and t == '=':
                i = j
                break
        if i is None or i == 0:
            raise CTransError('unknown statement %r' % s)
        compound = None
        if toks[i - 1] in ('+', '-'):
            compound = toks[i - 1]
            lhs, rhs = toks[:i - 1], toks[i + 1:]
        else:
            lhs, rhs = toks[:i], toks[i + 1:]
        val, pos = self.parse_expr(rhs, 0, env)
        if pos != len(rhs):
            raise CTransError('trailing tokens in %r' % s)
        name = lhs[0]
        if len(lhs) == 1:
            if compound:
                val = self.binop(compound, env[name], val)
            env[name] = val
        else:
            if lhs[1] != '[' or lhs[-1] != ']':
                raise CTransError('bad lvalue %r' % s)
            idx, _ = self.parse_expr(lhs[2:-1], 0, env)
            k = self.const_index(idx)
            if name not in env or not isinstance(env[name], list):
                raise CTransError('assignment to undeclared array %r' % name)
            arr = list(env[name])
            if k >= len(arr):
                raise CTransError('store out of bounds %s[%d]' % (name, k))
            if compound:
                val = self.binop(compound, arr[k], val)
            arr[k] = val
            env[name] = arr
            if name in env['@static_names']:
                env['@static'][name] = arr

    def exec_block(self, stmts, i, env):
        """execute statements from index i until the matching '}' (or end); returns next index"""
        while i < len(stmts):
            s = stmts[i]
            if s.startswith('}') and 'else' not in s:
                return i + 1
            if s.startswith('} else {'):
                return i        # handled by the caller of the then-branch
            m = re.match(r'if \((.+)\) \{$', s)
            if m:
                cond_v, _ = self.parse_expr(tokenize(m.group(1)), 0, env)
                cond = cond_v != 0
                env_t = self.copy_env(env)
                j = self.exec_block(stmts, i + 1, env_t)
                env_e = self.copy_env(env)
                if j < len(stmts) and stmts[j].startswith('} else {'):
                    j = self.exec_block(stmts, j + 1, env_e)
                self.merge(env, cond, env_t, env_e)
                i = j
                continue
            for part in s.split(';'):
                self.exec_simple(part, env)
            i += 1
        return i

    def copy_env(self, env):
        e = {}
        for k, v in env.items():
            if k == '@static':
                e[k] = {a: list(b) for a, b in v.items()}
            elif k == '@static_names':
                e[k] = set(v)
            elif isinstance(v, list):
                e[k] = list(v)
            elif isinstance(v, dict):
                e[k] = dict(v)
            else:
                e[k] = v
        return e

    def merge(self, env, cond, a, b):
        for k in set(a) | set(b):
            if k in ('@static_names',):
                env[k] = a.get(k, set()) | b.get(k, set())
                continue
            va, vb = a.get(k), b.get(k)
            if va is None or vb is None:
                continue     # declared inside one branch only: out of scope afterwards
            if k in ('@mem', '@static'):
                out = {}
                for name in va:
                    x, y = va[name], vb[name]
                    if isinstance(x, list):
                        out[name] = [z3.If(cond, p, q) if not z3.eq(p, q) else p for p, q in zip(x, y)]
                    else:
                        out[name] = z3.If(cond, x, y) if not z3.eq(x, y) else x
                env[k] = out
            elif isinstance(va, list):
                env[k] = [z3.If(cond, p, q) if not z3.eq(p, q) else p for p, q in zip(va, vb)]
            else:
                env[k] = va if z3.eq(va, vb) else z3.If(cond, va, vb)
        for name in env['@static_names']:
            if name in env['@static']:
                env[name] = env['@static'][name]

    # ---------------------------------------------------------------- API
    def initial_state(self):
        mems = {}
        for name, limbs in self.mems.items():
            if limbs is None:
                raise CTransError('memory %s never created' % name)
            arr = z3.K(B64, z3.BitVecVal(0, 64 * limbs))
            for k, limbvals in self.mem_init.get(name, {}).items():
                word = 0
                for i, lv in enumerate(limbvals):
                    word |= lv << (64 * i)
                arr = z3.Store(arr, bv(k), z3.BitVecVal(word, 64 * limbs))
            mems[name] = arr
        return {'static': {}, 'mem': mems}

    def step(self, state, inputs, n_outputs):
        """one call of sim_run_step: inputs: list of BV64; returns (outputs list, new state)"""
        env = {'inputs': list(inputs), 'outputs': [self.fresh_var('out') for _ in range(n_outputs)],
               '@mem': dict(state['mem']), '@static': {k: list(v) for k, v in state['static'].items()}, '@static_names': set()}
        self.exec_block(self.body, 0, env)
        return env['outputs'], {'static': env['@static'], 'mem': env['@mem']}
