"""Cut points (DESIGN 2.1): compositional proofs on the term DAG.

A module-level generator function (e.g. adders.kogge_stone as seen from prngs, multipliers.fused_multiply_adder as
seen from matrix) is wrapped while the design is elaborated; the REAL function still builds the real sub-netlist, the
wrapper only records its argument and result wires. After one symbolic simulation with those wires traced, each
recorded result term T_k is (in creation order) proved equal to its specification over the argument terms and then
replaced by a fresh variable constrained to that specification. Every replacement is an equality that was just
proved, so the remaining obligations are equivalent to the original ones."""
import z3
import pyrtl


class CallRecorder(object):
    def __init__(self, module, name):
        self.module, self.name = module, name
        self.calls = []

    def __enter__(self):
        self.orig = getattr(self.module, self.name)
        rec = self

        def wrapper(*a, **k):
            res = rec.orig(*a, **k)
            rec.calls.append((a, k, res))
            return res
        wrapper.__wrapped__ = self.orig
        setattr(self.module, self.name, wrapper)
        return self

    def __exit__(self, *exc):
        setattr(self.module, self.name, self.orig)
        return False


def name_wires(calls, prefix='cut'):
    """make sure every recorded wire has a stable name and return [(argnames, resname)]"""
    out = []
    for i, (a, k, res) in enumerate(calls):
        args = [pyrtl.as_wires(x) if not isinstance(x, (int, str)) else x for x in a]
        out.append(([x.name if isinstance(x, pyrtl.WireVector) else x for x in args], pyrtl.as_wires(res).name))
    return out


class Cuts(object):
    def __init__(self):
        self.subs = []       # (term, fresh var)
        self.defs = []       # fresh == spec
        self.n = 0

    def rewrite(self, t):
        if not self.subs or isinstance(t, (int, bool)):
            return t
        return z3.substitute(t, *self.subs)

    def cut(self, ob, name, term, spec, assume, v, site, generalize=()):
        """prove term == spec (after earlier cuts), then abstract term. returns True when the lemma held.

        generalize: [argument terms]: the lemma is proved in the stronger form in which these sub-terms are replaced
        by fresh variables on both sides (sound: an instance of a universally valid statement)"""
        t2 = self.rewrite(term)
        s2 = self.rewrite(spec)
        lt, ls = t2, s2
        if generalize:
            pairs = []
            for i, g in enumerate(generalize):
                g2 = self.rewrite(g)
                if z3.is_bv_value(g2):
                    continue
                pairs.append((g2, z3.BitVec('gen_%s_%d' % (name, i), g2.size())))
            if pairs:
                lt, ls = z3.substitute(t2, *pairs), z3.substitute(s2, *pairs)
        r = ob.prove('cut-lemma:%s' % name, lt == ls, (list(assume) + self.defs) if not generalize else [], v,
                     site=site + ':cut-lemma')
        if r != 'unsat' and generalize:
            # fall back to the instance itself
            ob.n -= 1
            if r == 'unknown':
                ob.unknown.pop()
            else:
                ob.sat.pop()
            r = ob.prove('cut-lemma:%s' % name, t2 == s2, list(assume) + self.defs, v, site=site + ':cut-lemma')
        if r != 'unsat':
            return False
        self.n += 1
        fresh = z3.BitVec('cut_%s_%d' % (name, self.n), term.size())
        # substitute the ORIGINAL term (so later terms, which contain it verbatim, are abstracted)
        self.subs.append((term, fresh))
        self.defs.append(fresh == s2)
        return True
