import os
import sys
import importlib


def main():
    if len(sys.argv) < 2:
        print('usage: run <Cxx> <quick|thorough>')
        return 2
    prop = sys.argv[1]
    tier = sys.argv[2] if len(sys.argv) > 2 else os.environ.get('VERIF_TIER', 'quick')
    seed = int(os.environ.get('VERIF_SEED', '0') or 0)
    from . import core
    mod = importlib.import_module('vf.props.' + prop.lower())
    return core.main(mod, tier, seed)


if __name__ == '__main__':
    sys.exit(main())
