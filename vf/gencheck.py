"""Generator-vs-oracle harness (C06, C13, C14, C19, parts of C07/C16/C18).

An *item* is a function  item(case) -> dict with
   'outs'   : {name: WireVector}          result wires built with the real PyRTL API from Inputs made by I()
   'oracle' : fn(ins) -> {name: value}    ins: {input name: int | SymInt}; plain integer / bit arithmetic
   'widths' : {name: int}                 (optional) documented len(result)
   'mod'    : set of names compared modulo 2^len (default: exact integer equality, which also proves the
              declared width holds the full value)
   'assume' : fn(ins) -> [conditions]     (optional) documented preconditions on the inputs
The oracle is written once and used on SymInt (symbolic run: one solver obligation per output, for ALL input
values) and on plain ints (replay on the real code)."""
import z3
import pyrtl
from . import sym, simdrv
from .simdrv import Vars, run_sim, sym_env
from .sym import SymInt, to_bv, to_cond, is_sym


class StructuralMismatch(Exception):
    """raised by an item's oracle when the real code's result has the wrong shape / kind: a violation candidate (structural
    fact), not a harness error"""


def I(w, name):
    return pyrtl.Input(w, name)


def bits_of(x, n):
    """LSB-first list of the low n bits of an int-like value"""
    return [(x >> i) & 1 for i in range(n)]


def from_bits(bits):
    v = 0
    for i, b in enumerate(bits):
        v = v | (b << i)
    return v


def signed_val(x, w):
    """two's complement interpretation of the w-bit value x"""
    return x - (((x >> (w - 1)) & 1) << w)


def unsigned_enc(x, w):
    return x & ((1 << w) - 1)


def ite(c, a, b):
    if is_sym(c) or is_sym(a) or is_sym(b):
        return sym.ite(c if not isinstance(c, SymInt) else (c != 0), a, b)
    return a if c else b


def elaborate(item, case):
    pyrtl.reset_working_block()
    spec = item(case)
    outs = {}
    for name, w in spec['outs'].items():
        w = pyrtl.as_wires(w)
        o = pyrtl.Output(len(w), name)
        o <<= w
        outs[name] = o
    return spec, outs, pyrtl.working_block()


def check_item(ob, case, item, site, K=1):
    try:
        spec, outs, block = elaborate(item, case)
    except Exception as e:
        if case.get('expect_error') or case.get('may_error'):
            # may_error: the documentation leaves open whether the arguments are accepted; only a clean PyrtlError or a
            # correct result are allowed
            ob.fact('documented-error-raised', isinstance(e, pyrtl.PyrtlError), site + ':error-kind', detail=repr(e))
            return
        ob.fact('elaboration-accepts-documented-arguments', False, site + ':raises', detail='%s: %s' % (type(e).__name__, e))
        return
    if case.get('expect_error'):
        ob.fact('documented-error-raised', False, site + ':no-error')
        return
    for name, w in spec.get('widths', {}).items():
        ob.fact('width:%s' % name, len(spec['outs'][name]) == w, site + ':width',
                detail='len=%d documented=%d' % (len(spec['outs'][name]), w))
    v = Vars()
    ins = {}
    for w in sorted(block.wirevector_subset(pyrtl.Input), key=lambda w: w.name):
        ins[w.name] = SymInt.mk(v.inp(w.name, 0, w.bitwidth), False)
    assume = [to_cond(c) for c in spec['assume'](ins)] if 'assume' in spec else []
    if case.get('backend') == 'compiled':
        # the same circuit on the C back end (its generated C given meaning by vf/ctrans.py)
        cm = simdrv.CompiledModel(block)
        rs = simdrv.run_compiled(cm, 1, v, assumptions=assume)
    else:
        with sym_env([block]):
            rs = run_sim(block, 1, v, kind=case.get('backend', 'sim'), reg_init='reset', mem_init='default', track='io',
                         assumptions=assume)
    ob.paths += len(rs)
    try:
        exp = spec['oracle'](ins)
    except StructuralMismatch as e:
        ob.fact('result-shape', False, site + ':shape', detail=str(e))
        return
    goals = []
    for r in rs:
        if r.exc is not None:
            ob.prove('no-exception:%s' % type(r.exc).__name__, z3.Not(r.cond()), assume, v, site=site + ':exception')
            continue
        for name in sorted(exp):
            o = outs[name]
            got = r.trace[name][0]
            e = exp[name]
            if name in spec.get('mod', ()):
                g = to_bv(got, o.bitwidth) == to_bv(e, o.bitwidth)
            else:
                W = o.bitwidth + 1
                if is_sym(e):
                    e2 = sym._lift(e)
                    W = max(W, e2.n + 2)
                elif isinstance(e, int):
                    W = max(W, e.bit_length() + 2)
                g = to_bv(got, W) == to_bv(e, W)
            goals.append(('%s' % name, g, site + ':value'))
        ob.prove_all(goals, assume + r.pc, v)


def replay_item(cex, item):
    case = cex['case']
    try:
        spec, outs, block = elaborate(item, case)
    except Exception as e:
        if case.get('expect_error') or case.get('may_error'):
            return (not isinstance(e, pyrtl.PyrtlError)), 'elaboration raised %s: %s' % (type(e).__name__, e)
        return True, 'elaboration raised %s: %s' % (type(e).__name__, e)
    if cex.get('structural'):
        if cex.get('obligation') == 'result-shape':
            try:
                spec['oracle']({w.name: 0 for w in block.wirevector_subset(pyrtl.Input)})
            except StructuralMismatch as e:
                return True, 'result shape: %s' % e
            return False, 'result shape as documented'
        bad = ['%s len=%d documented=%d' % (n, len(spec['outs'][n]), w) for n, w in spec.get('widths', {}).items()
               if len(spec['outs'][n]) != w]
        if case.get('expect_error'):
            return True, 'no error raised for a documented-error case'
        return bool(bad), 'width mismatches: %r' % bad
    mv = cex.get('model', {})
    ins = {}
    for w in block.wirevector_subset(pyrtl.Input):
        x = mv.get('inputs', {}).get(w.name, {})
        ins[w.name] = x.get('0', x.get(0, 0))
    try:
        sim = {'sim': pyrtl.Simulation, 'fast': pyrtl.FastSimulation, 'compiled': pyrtl.CompiledSimulation}[case.get('backend', 'sim')](block=block)
        sim.step(ins)
    except Exception as e:
        return True, 'real Simulation raised %r on %r' % (e, ins)
    exp = spec['oracle'](ins)
    diffs = []
    for name, e in exp.items():
        got = sim.inspect(name)
        if name in spec.get('mod', ()):
            e = e & outs[name].bitmask
        if got != e:
            diffs.append('%s: circuit=%d oracle=%d' % (name, got, e))
    return bool(diffs), 'case=%r inputs=%r\n%s' % (case, ins, '\n'.join(diffs))
