

def _install_deterministic_names():
    """pyrtl.reset_working_block() as the harnesses use it also restarts PyRTL's automatic name counters (tmpN, const_N, memory
    ids), as a fresh process would: the automatic names of a design are then the same in the checking process and in the replay
    process, so counterexamples can refer to unnamed registers/wires by name."""
    import pyrtl
    from pyrtl import core as _core, wire as _wire, memory as _memory
    orig = _core.reset_working_block
    if getattr(orig, '_vf_wrapped', False):
        return

    def reset_working_block():
        if hasattr(_wire, '_reset_wire_indexers'):
            _wire._reset_wire_indexers()
        if hasattr(_memory, '_reset_memory_indexer'):
            _memory._reset_memory_indexer()
        return orig()
    reset_working_block._vf_wrapped = True
    reset_working_block.__doc__ = orig.__doc__
    pyrtl.reset_working_block = reset_working_block


try:
    _install_deterministic_names()
except Exception:      # pyrtl not importable: the caller reports that
    pass
