"""ORACLE T3: an independent reader of the BLIF and ISCAS .bench subsets (hand-written tokenizer, no pyparsing),
producing per-cycle output / next-state functions straight from the format definitions:

  * .names cover = OR of its cubes (on-set rows only); a cover with no rows is constant 0; `.names o` + row `1` is constant 1
  * .latch D Q re C [init]: Q' = D; init 0/1 -> that value, 2/3/absent-in-Yosys-cells -> unspecified (a variable)
  * Yosys simcells ($_DFF*/$_SDFF*), semantics taken from the cell NAME: clock polarity, reset/set polarity and value, enable
    polarity; DFFSR*: reset over set over data; SDFFE: reset regardless of enable; SDFFCE: enable gates the reset;
    asynchronous pins are observed at the clock edge
  * .subckt of a user model: hierarchical instantiation
  * .bench: INPUT/OUTPUT, AND/OR/NAND/NOR/XOR of any arity, NOT, BUFF, DFF
Values are z3 Bools (symbolic) or Python bools (concrete replay) — only and/or/not/ite helpers are used."""
import re
import z3


def _is_z3(x):
    return isinstance(x, z3.ExprRef)


def AND(*xs):
    if any(_is_z3(x) for x in xs):
        return z3.And(*[x if _is_z3(x) else z3.BoolVal(bool(x)) for x in xs])
    return all(xs)


def OR(*xs):
    if any(_is_z3(x) for x in xs):
        return z3.Or(*[x if _is_z3(x) else z3.BoolVal(bool(x)) for x in xs])
    return any(xs)


def NOT(x):
    return z3.Not(x) if _is_z3(x) else (not x)


def XOR(a, b):
    if _is_z3(a) or _is_z3(b):
        return z3.Xor(a if _is_z3(a) else z3.BoolVal(bool(a)), b if _is_z3(b) else z3.BoolVal(bool(b)))
    return bool(a) != bool(b)


def ITE(c, a, b):
    if _is_z3(c) or _is_z3(a) or _is_z3(b):
        f = lambda x: x if _is_z3(x) else z3.BoolVal(bool(x))
        return z3.If(f(c), f(a), f(b))
    return a if c else b


class Model(object):
    def __init__(self, name):
        self.name = name
        self.inputs, self.outputs = [], []
        self.covers = []      # (input names, output name, [(cube, outbit)])
        self.latches = []     # (D, Q, clk, init)
        self.cells = []       # (cellname, {pin: signal})
        self.insts = []       # (model name, {formal: actual})


CELL_RE = re.compile(r'\$_(S?DFF(?:SR|CE)?E?)_([PN01]*)_?$')


def parse_blif(text):
    models, cur, cover = {}, None, None
    order = []
    lines = []
    for raw in text.split('\n'):
        ln = raw.split('#')[0].strip()
        if ln:
            lines.append(ln)
    for ln in lines:
        toks = ln.split()
        if toks[0] == '.model':
            cur = Model(toks[1])
            models[toks[1]] = cur
            order.append(toks[1])
            cover = None
        elif toks[0] == '.inputs':
            cur.inputs += toks[1:]
            cover = None
        elif toks[0] == '.outputs':
            cur.outputs += toks[1:]
            cover = None
        elif toks[0] == '.names':
            cover = (toks[1:-1], toks[-1], [])
            cur.covers.append(cover)
        elif toks[0] == '.latch':
            init = toks[5] if len(toks) > 5 else '0'       # the importer under test documents a default of 0 for an absent code
            cur.latches.append((toks[1], toks[2], toks[4], init))
            cover = None
        elif toks[0] == '.subckt':
            pins = dict(t.split('=') for t in toks[2:])
            if toks[1].startswith('$_'):
                cur.cells.append((toks[1], pins))
            else:
                cur.insts.append((toks[1], pins))
            cover = None
        elif toks[0] == '.end':
            cur, cover = None, None
        elif cover is not None:
            if len(toks) == 1:
                cover[2].append(('', toks[0]))
            else:
                cover[2].append((toks[0], toks[1]))
        else:
            raise ValueError('bliftrans: cannot read line %r' % ln)
    return models, order[0]


def cell_next(cell, pins, prev):
    """next state of a Yosys flip-flop cell from its NAME; pins: dict of current values"""
    m = CELL_RE.match(cell)
    if not m:
        raise ValueError('bliftrans: unknown cell %r' % cell)
    kind, pol = m.group(1), m.group(2)
    d = pins['D']

    def active(val, p):
        return val if p == 'P' else NOT(val)
    if kind == 'DFF':
        if len(pol) == 1:                       # $_DFF_P_
            return d
        r = active(pins['R'], pol[1])           # $_DFF_PP0_
        return ITE(r, pol[2] == '1', d)
    if kind == 'DFFE':
        if len(pol) == 2:                       # $_DFFE_PN_
            return ITE(active(pins['E'], pol[1]), d, prev)
        r = active(pins['R'], pol[1])           # $_DFFE_PP0N_
        return ITE(r, pol[2] == '1', ITE(active(pins['E'], pol[3]), d, prev))
    if kind == 'DFFSR':                         # $_DFFSR_PPP_ : clk, set, reset polarities
        s, r = active(pins['S'], pol[1]), active(pins['R'], pol[2])
        return ITE(r, False, ITE(s, True, d))
    if kind == 'DFFSRE':
        s, r = active(pins['S'], pol[1]), active(pins['R'], pol[2])
        return ITE(r, False, ITE(s, True, ITE(active(pins['E'], pol[3]), d, prev)))
    if kind == 'SDFF':
        return ITE(active(pins['R'], pol[1]), pol[2] == '1', d)
    if kind == 'SDFFE':
        return ITE(active(pins['R'], pol[1]), pol[2] == '1', ITE(active(pins['E'], pol[3]), d, prev))
    if kind == 'SDFFCE':
        return ITE(active(pins['E'], pol[3]), ITE(active(pins['R'], pol[1]), pol[2] == '1', d), prev)
    raise ValueError('bliftrans: unknown cell kind %r' % kind)


class Flat(object):
    """flattened netlist: signal -> definition"""

    def __init__(self, models, top, clock='clk'):
        self.defs = {}       # signal -> ('cover', ins, rows) | ('alias', other)
        self.state = []      # (qsignal, kind, data)   kind: 'latch' | 'cell'
        self.inputs, self.outputs = [], []
        self.clock = clock
        self._inst(models, top, '', {}, True)

    def _inst(self, models, name, prefix, bind, is_top):
        m = models[name]

        def sig(x):
            if x in bind:
                return bind[x]
            return prefix + x
        if is_top:
            self.inputs = [i for i in m.inputs if i != self.clock]
            self.outputs = list(m.outputs)
        for ins, out, rows in m.covers:
            self.defs[sig(out)] = ('cover', [sig(i) for i in ins], rows)
        for (d, q, clk, init) in m.latches:
            self.state.append((sig(q), 'latch', (sig(d), init)))
        for cell, pins in m.cells:
            self.state.append((sig(pins['Q']), 'cell', (cell, {p: sig(s) for p, s in pins.items() if p not in ('Q', 'C')})))
        for k, (mname, pins) in enumerate(m.insts):
            sub = models[mname]
            pre = '%s%s#%d.' % (prefix, mname, k)
            b = {}
            for formal, actual in pins.items():
                if formal in sub.inputs:
                    b[formal] = sig(actual)
                elif formal in sub.outputs:
                    # the instance drives the parent's signal: alias parent signal -> instance-local signal
                    self.defs[sig(actual)] = ('alias', pre + formal)
            self._inst(models, mname, pre, b, False)

    def eval_cycle(self, inputs, state):
        """inputs: {name: value}, state: {q: value} -> (outputs {name: value}, next state)"""
        memo = {}

        def val(s):
            if s in memo:
                return memo[s]
            if s in inputs:
                r = inputs[s]
            elif s in state:
                r = state[s]
            elif s in ('$true',):
                r = True
            elif s in ('$false', '$undef'):
                r = False
            elif s in self.defs:
                d = self.defs[s]
                memo[s] = None
                if d[0] == 'alias':
                    r = val(d[1])
                else:
                    _, ins, rows = d
                    terms = []
                    for cube, outbit in rows:
                        if outbit != '1':
                            raise ValueError('bliftrans: off-set rows are outside the supported subset')
                        lits = []
                        for ch, i in zip(cube, ins):
                            if ch == '1':
                                lits.append(val(i))
                            elif ch == '0':
                                lits.append(NOT(val(i)))
                        terms.append(AND(*lits) if lits else True)
                    r = OR(*terms) if terms else False
            else:
                raise KeyError('bliftrans: undriven signal %r' % s)
            memo[s] = r
            return r
        outs = {o: val(o) for o in self.outputs}
        nxt = {}
        for q, kind, data in self.state:
            if kind == 'latch':
                nxt[q] = val(data[0])
            else:
                cell, pins = data
                nxt[q] = cell_next(cell, {p: val(s) for p, s in pins.items()}, state[q])
        return outs, nxt


# ------------------------------------------------------------------------------------------

def parse_bench(text):
    ins, outs, gates = [], [], []
    for raw in text.split('\n'):
        ln = raw.split('#')[0].strip()
        if not ln:
            continue
        m = re.match(r'INPUT\((.+)\)$', ln)
        if m:
            ins.append(m.group(1).strip())
            continue
        m = re.match(r'OUTPUT\((.+)\)$', ln)
        if m:
            outs.append(m.group(1).strip())
            continue
        m = re.match(r'(\S+)\s*=\s*(\w+)\((.*)\)$', ln)
        if m:
            gates.append((m.group(1), m.group(2), [s.strip() for s in m.group(3).split(',')]))
            continue
        raise ValueError('bliftrans: cannot read .bench line %r' % ln)
    return ins, outs, gates


def bench_eval(parsed, inputs, state):
    ins, outs, gates = parsed
    defs = {g[0]: g for g in gates}
    memo = {}

    def val(s):
        if s in memo:
            return memo[s]
        if s in defs and defs[s][1] == 'DFF':
            r = state[s]
        elif s in inputs:
            r = inputs[s]
        else:
            _, g, srcs = defs[s]
            vs = [val(x) for x in srcs]
            if g == 'AND':
                r = AND(*vs)
            elif g == 'OR':
                r = OR(*vs)
            elif g == 'NAND':
                r = NOT(AND(*vs))
            elif g == 'NOR':
                r = NOT(OR(*vs))
            elif g == 'XOR':
                r = vs[0]
                for x in vs[1:]:
                    r = XOR(r, x)
            elif g == 'NOT':
                r = NOT(vs[0])
            elif g == 'BUFF':
                r = vs[0]
            else:
                raise ValueError(g)
        memo[s] = r
        return r
    o = {x: val(x) for x in outs}
    nxt = {g[0]: val(g[2][0]) for g in gates if g[1] == 'DFF'}
    return o, nxt
