"""Pre/post equivalence harness shared by C03, C04, C09, C11, C20 (and C02 for simulators).

Both blocks are executed by the real Simulation on the same solver variables; the property is a solver
query per observable. Two schemes (DESIGN 2.1): BMC-K from the declared reset state, and one inductive
step from arbitrary corresponding states."""
import z3
import pyrtl
from pyrtl.memory import RomBlock
from . import sym, simdrv, concrete
from .simdrv import Vars, run_sim, sym_env
from .sym import SymInt, to_bv


class Pair(object):
    """correspondence between a reference block A and a transformed block B"""

    def __init__(self, A, B):
        self.A, self.B = A, B
        self.in_map = {}    # B input name -> (A input name, bit or None)
        self.out_map = {}   # A output name -> [B output names, LSB first] (len 1: whole vector)
        self.reg_map = {}   # A register name -> [B register names, LSB first] (len 1 and same width: whole)
        self.mem_key = None  # B MemBlock -> key to use in memory_value_map

    @staticmethod
    def by_name(A, B):
        p = Pair(A, B)
        for w in B.wirevector_subset(pyrtl.Input):
            p.in_map[w.name] = (w.name, None)
        for w in A.wirevector_subset(pyrtl.Output):
            p.out_map[w.name] = [w.name]
        bregs = {r.name for r in B.wirevector_subset(pyrtl.Register)}
        for r in A.wirevector_subset(pyrtl.Register):
            if r.name in bregs:
                p.reg_map[r.name] = [r.name]
        return p

    @staticmethod
    def from_maps(A, B, io_map, reg_map, mem_map):
        """io_map: A io wire -> B wire or list of B wires; reg_map likewise; mem_map: A mem -> B mem"""
        p = Pair(A, B)
        for aw, bw in io_map.items():
            bl = bw if isinstance(bw, (list, tuple)) else [bw]
            if isinstance(aw, pyrtl.Input):
                if len(bl) == 1 and len(bl[0]) == len(aw):
                    p.in_map[bl[0].name] = (aw.name, None)
                else:
                    for i, b in enumerate(bl):
                        p.in_map[b.name] = (aw.name, i)
            elif isinstance(aw, pyrtl.Output):
                p.out_map[aw.name] = [b.name for b in bl]
        for ar, br in reg_map.items():
            bl = br if isinstance(br, (list, tuple)) else [br]
            p.reg_map[ar.name] = [b.name for b in bl]
        inv = {id(b): a for a, b in mem_map.items()}
        p.mem_key_map = inv
        return p

    def b_inputs_sym(self, v, t):
        ins = {}
        for w in self.B.wirevector_subset(pyrtl.Input):
            an, bit = self.in_map[w.name]
            aw = self.A.wirevector_by_name[an]
            var = v.inp(an, t, aw.bitwidth)
            if bit is None:
                ins[w.name] = SymInt.mk(var, False)
            else:
                ins[w.name] = SymInt.mk(z3.Extract(bit, bit, var), False)
        return ins

    def b_inputs_concrete(self, mv, t):
        ins = {}
        for w in self.B.wirevector_subset(pyrtl.Input):
            an, bit = self.in_map[w.name]
            val = mv.get('inputs', {}).get(an, {})
            val = val.get(str(t), val.get(t, 0))
            ins[w.name] = val if bit is None else (val >> bit) & 1
        return ins

    def b_output_term(self, resB, aname, t):
        names = self.out_map[aname]
        ws = [self.B.wirevector_by_name[n] for n in names]
        bits = [to_bv(resB.trace[n][t], w.bitwidth) for n, w in zip(names, ws)]
        return z3.Concat(*bits[::-1]) if len(bits) > 1 else bits[0]

    def b_output_concrete(self, traceB, aname, t):
        names = self.out_map[aname]
        val, sh = 0, 0
        for n in names:
            val |= traceB[n][t] << sh
            sh += self.B.wirevector_by_name[n].bitwidth
        return val


def _compatible(assume, pa, pb):
    s = z3.Solver()
    s.set('timeout', 10000)
    s.add(*(list(assume) + list(pa.pc) + list(pb.pc)))
    return s.check() != z3.unsat


def _same_raising(ob, ra, rb, assume, v, site):
    """designs with rtl_assert raise by design: the two blocks raise on exactly the same inputs (and the same exception class);
    returns the non-raising paths of both"""
    def cond(rs, cls=None):
        cs = [r.cond() for r in rs if r.exc is not None and (cls is None or type(r.exc) is cls)]
        return z3.Or(*cs) if cs else z3.BoolVal(False)
    classes = sorted({type(r.exc) for r in list(ra) + list(rb) if r.exc is not None}, key=lambda c: c.__name__)
    for cls in classes:
        ob.prove('same-exception-behaviour:%s' % cls.__name__, cond(ra, cls) == cond(rb, cls), assume, v, site=site + ':exception')
    return [r for r in ra if r.exc is None], [r for r in rb if r.exc is None]


def _ok_paths(ob, results, assume, v, site, what):
    """raising paths must be infeasible on legal inputs; returns the non-raising ones"""
    ok = []
    for r in results:
        if r.exc is None:
            ok.append(r)
        else:
            ob.prove('%s:no-exception:%s' % (what, type(r.exc).__name__), z3.Not(r.cond()), assume, v,
                     site=site + ':exception')
    return ok


def bmc_outputs(ob, pair, K, v, site, reg_init='reset', default_value=0, memkeyB=None, assume=(), kindA='sim',
                kindB='sim', compare_mems=True, extra_goals=None):
    """BMC-K: same inputs, same initial memory contents; registers from their declared reset state (or, with
    reg_init='sym', same-named registers start from the same arbitrary value). Outputs equal on every cycle."""
    A, B = pair.A, pair.B
    assume = list(assume)
    with sym_env([A, B]):
        ra = run_sim(A, K, v, kind=kindA, reg_init=reg_init, mem_init='sym', default_value=default_value,
                     track='io', assumptions=assume)
        rb = run_sim(B, K, v, kind=kindB, reg_init=reg_init, mem_init='sym', default_value=default_value,
                     track='io', assumptions=assume, memmap_key=memkeyB,
                     inputs_override=lambda t: pair.b_inputs_sym(v, t))
    ob.paths += len(ra) + len(rb)
    if A.rtl_assert_dict:
        oka, okb = _same_raising(ob, ra, rb, assume, v, site)
    else:
        oka = _ok_paths(ob, ra, assume, v, site, 'A')
        okb = _ok_paths(ob, rb, assume, v, site, 'B')
    from .props.c01 import prove_all
    for pa in oka:
        for pb in okb:
            if (len(oka) > 1 or len(okb) > 1) and not _compatible(assume, pa, pb):
                continue        # the two runs took contradictory decisions (e.g. ROM hole vs. no hole): no common input
            goals = []
            for aname in sorted(pair.out_map):
                aw = A.wirevector_by_name[aname]
                for t in range(K):
                    goals.append(('out:%s@%d' % (aname, t),
                                  to_bv(pa.trace[aname][t], aw.bitwidth) == pair.b_output_term(pb, aname, t),
                                  site + ':output'))
            if compare_mems:
                for name, arr in pa.mems.items():
                    if name in pb.mems:
                        goals.append(('mem:%s' % name, arr == pb.mems[name], site + ':mem'))
            if extra_goals:
                goals += extra_goals(pa, pb)
            prove_all(ob, goals, assume + pa.pc + pb.pc, v)
    return oka, okb


def inductive_step(ob, pair, v, site, memkeyB=None, assume=()):
    """one step from arbitrary corresponding states: outputs equal and post-states correspond"""
    A, B = pair.A, pair.B
    assume = list(assume)
    bregs = {}
    for an, bl in pair.reg_map.items():
        aw = A.wirevector_by_name[an]
        var = v.reg(an, aw.bitwidth)
        if len(bl) == 1 and B.wirevector_by_name[bl[0]].bitwidth == aw.bitwidth:
            bregs[bl[0]] = SymInt.mk(var, False)
        else:
            for i, bn in enumerate(bl):
                bregs[bn] = SymInt.mk(z3.Extract(i, i, var), False)
    with sym_env([A, B]):
        ra = run_sim(A, 1, v, reg_init='sym', mem_init='sym', track='io', assumptions=assume)
        rb = run_sim(B, 1, v, reg_init=bregs, mem_init='sym', track='io', assumptions=assume,
                     memmap_key=memkeyB, inputs_override=lambda t: pair.b_inputs_sym(v, t))
    ob.paths += len(ra) + len(rb)
    if A.rtl_assert_dict:
        oka, okb = _same_raising(ob, ra, rb, assume, v, site)
    else:
        oka = _ok_paths(ob, ra, assume, v, site, 'A')
        okb = _ok_paths(ob, rb, assume, v, site, 'B')
    from .props.c01 import prove_all
    for pa in oka:
        for pb in okb:
            if (len(oka) > 1 or len(okb) > 1) and not _compatible(assume, pa, pb):
                continue        # the two runs took contradictory decisions (e.g. ROM hole vs. no hole): no common input
            goals = []
            for aname in sorted(pair.out_map):
                aw = A.wirevector_by_name[aname]
                goals.append(('step-out:%s' % aname,
                              to_bv(pa.trace[aname][0], aw.bitwidth) == pair.b_output_term(pb, aname, 0),
                              site + ':step-output'))
            for an, bl in pair.reg_map.items():
                aw = A.wirevector_by_name[an]
                ws = [B.wirevector_by_name[n] for n in bl]
                bits = [to_bv(pb.regs_next[n], w.bitwidth) for n, w in zip(bl, ws)]
                bt = z3.Concat(*bits[::-1]) if len(bits) > 1 else bits[0]
                goals.append(('step-reg:%s' % an, to_bv(pa.regs_next[an], aw.bitwidth) == bt, site + ':step-reg'))
            for name, arr in pa.mems.items():
                if name in pb.mems:
                    goals.append(('step-mem:%s' % name, arr == pb.mems[name], site + ':step-mem'))
            prove_all(ob, goals, assume + pa.pc + pb.pc, v)


def replay_pair(pair, K, mv, reg_init='reset', default_value=0, memkeyB=None, kindA='sim', kindB='sim',
                bregs_from_a=False):
    """concrete replay of a BMC / step counterexample. returns (differs, text)"""
    A, B = pair.A, pair.B
    diffs = []
    try:
        ta, ma, sima = concrete.sim_concrete(A, K, mv, kind=kindA, reg_init=reg_init, mem_init='sym',
                                          default_value=default_value, track='io')
    except Exception as e:
        if not A.rtl_assert_dict:
            return True, 'reference block raised %r' % (e,)
        # a design with rtl_assert raises by design: the transformed block must raise the same way
        ta, a_exc = None, e
    else:
        a_exc = None
    # B: drive through the pair's input mapping
    rmap, mmap = {}, {}
    if reg_init == 'sym':
        for an, bl in pair.reg_map.items():
            aval = mv.get('regs', {}).get(an, 0)
            aw = A.wirevector_by_name[an]
            if len(bl) == 1 and B.wirevector_by_name[bl[0]].bitwidth == aw.bitwidth:
                rmap[B.wirevector_by_name[bl[0]]] = aval
            else:
                for i, bn in enumerate(bl):
                    rmap[B.wirevector_by_name[bn]] = (aval >> i) & 1
    memkeyB = memkeyB or simdrv.default_memkey(B)
    for mid, m in simdrv.mems_of(B).items():
        mmap[memkeyB(m)] = {int(a): x for a, x in mv.get('mems', {}).get(m.name, {}).items()}
    tracked = list(B.wirevector_subset((pyrtl.Input, pyrtl.Output)))
    try:
        tracer = pyrtl.SimulationTrace(wires_to_track=tracked, block=B)
        cls = {'sim': pyrtl.Simulation, 'fast': pyrtl.FastSimulation, 'compiled': pyrtl.CompiledSimulation}[kindB]
        simb = cls(tracer=tracer, register_value_map=rmap, memory_value_map=mmap, default_value=default_value, block=B)
        for t in range(K):
            simb.step(pair.b_inputs_concrete(mv, t))
    except Exception as e:
        if a_exc is not None:
            return type(e) is not type(a_exc), 'reference raised %r, transformed block raised %r' % (a_exc, e)
        return True, 'transformed block raised %s: %s (reference block simulated fine)' % (type(e).__name__, e)
    if a_exc is not None:
        return True, 'reference block raised %r, the transformed block simulated the same inputs without raising' % (a_exc,)
    tb = {w.name: list(tracer.trace[w.name]) for w in tracked}
    for aname in sorted(pair.out_map):
        for t in range(K):
            x, y = ta[aname][t], pair.b_output_concrete(tb, aname, t)
            if x != y:
                diffs.append('%s@%d: reference=%d transformed=%d' % (aname, t, x, y))
    if kindA == 'sim' and kindB == 'sim':
        for an, bl in pair.reg_map.items():
            x = sima.regvalue[A.wirevector_by_name[an]]
            y, sh = 0, 0
            for bn in bl:
                bw = B.wirevector_by_name[bn]
                y |= simb.regvalue[bw] << sh
                sh += bw.bitwidth
            if x != y:
                diffs.append('register %s after the last cycle: reference=%d transformed=%d' % (an, x, y))
    for mid, m in simdrv.mems_of(B).items():
        try:
            mb = dict(simb.inspect_mem(m))
        except Exception:
            continue
        if m.name in ma:
            keys = set(ma[m.name]) | set(mb)
            for a in sorted(keys):
                init = mv.get('mems', {}).get(m.name, {}).get(str(a), 0)
                if ma[m.name].get(a, init) != mb.get(a, init):
                    diffs.append('mem %s[%d]: reference=%r transformed=%r' % (m.name, a, ma[m.name].get(a), mb.get(a)))
    return bool(diffs), 'inputs=%r\n%s' % (mv, '\n'.join(diffs[:20]))
